//! E-ASYNC: a controlled executor for *real* tokio futures.
//!
//! One execution = one call of [`run`]: a fresh `current_thread` tokio runtime with the clock
//! paused; the harness body is the `block_on` future and polls the futures under test itself
//! through an [`Exec`]. Each task has its own waker that only sets a "woken" bit; nothing runs
//! unless the harness polls it, and virtual time moves only through [`advance`] /
//! [`advance_to_next_timer`]. Futures are wrapped in `tokio::task::unconstrained` so tokio's
//! cooperative budget cannot inject spurious `Pending`s.
//!
//! Scheduling choices (which woken task to poll next) and environment choices are asked from a
//! `vcore::dfs::Chooser`, so `vcore::dfs::explore` enumerates them with a deviation bound.
//!
//! `ScriptedStream` is an in-memory `AsyncRead + AsyncWrite` whose readiness, chunk sizes, EOF
//! and errors are decided by the harness (not `tokio::io::duplex`, which hides short reads).

use std::cell::RefCell;
use std::collections::VecDeque;
use std::future::Future;
use std::pin::Pin;
use std::rc::Rc;
use std::sync::Arc;
use std::sync::atomic::{AtomicBool, AtomicU64, Ordering};
use std::task::{Context, Poll, Wake, Waker};
use std::time::Duration;

use tokio::io::{AsyncRead, AsyncWrite, ReadBuf};
use vcore::dfs::Chooser;

pub type TaskId = usize;

struct Flag {
    woken: AtomicBool,
    wake_count: AtomicU64,
}
impl Wake for Flag {
    fn wake(self: Arc<Self>) {
        self.wake_by_ref()
    }
    fn wake_by_ref(self: &Arc<Self>) {
        self.woken.store(true, Ordering::SeqCst);
        self.wake_count.fetch_add(1, Ordering::SeqCst);
    }
}

struct Task {
    name: String,
    fut: Option<Pin<Box<dyn Future<Output = ()>>>>,
    flag: Arc<Flag>,
    polls: u64,
}

/// The set of manually polled tasks of one execution.
#[derive(Default)]
pub struct Exec {
    tasks: Vec<Task>,
    pub trace: Vec<String>,
}

impl Exec {
    pub fn new() -> Exec {
        Exec { tasks: Vec::new(), trace: Vec::new() }
    }

    /// Register a future; it starts "woken" (needs its first poll). The output is delivered through
    /// whatever channel the future itself uses (wrap it: `async move { *slot.borrow_mut() = Some(f.await) }`).
    pub fn spawn<F: Future<Output = ()> + 'static>(&mut self, name: &str, fut: F) -> TaskId {
        let flag = Arc::new(Flag { woken: AtomicBool::new(true), wake_count: AtomicU64::new(0) });
        self.tasks.push(Task { name: name.to_string(), fut: Some(Box::pin(tokio::task::unconstrained(fut))), flag, polls: 0 });
        self.tasks.len() - 1
    }

    /// Register a future with an output slot.
    pub fn spawn_with_output<T: 'static, F: Future<Output = T> + 'static>(&mut self, name: &str, fut: F) -> (TaskId, Rc<RefCell<Option<T>>>) {
        let slot = Rc::new(RefCell::new(None));
        let s2 = slot.clone();
        let id = self.spawn(name, async move {
            let v = fut.await;
            *s2.borrow_mut() = Some(v);
        });
        (id, slot)
    }

    pub fn name(&self, id: TaskId) -> &str {
        &self.tasks[id].name
    }
    pub fn is_done(&self, id: TaskId) -> bool {
        self.tasks[id].fut.is_none()
    }
    pub fn is_woken(&self, id: TaskId) -> bool {
        self.tasks[id].fut.is_some() && self.tasks[id].flag.woken.load(Ordering::SeqCst)
    }
    pub fn wake_count(&self, id: TaskId) -> u64 {
        self.tasks[id].flag.wake_count.load(Ordering::SeqCst)
    }
    pub fn polls(&self, id: TaskId) -> u64 {
        self.tasks[id].polls
    }
    /// Live tasks whose waker fired since their last poll, ascending id.
    pub fn woken(&self) -> Vec<TaskId> {
        (0..self.tasks.len()).filter(|&i| self.is_woken(i)).collect()
    }
    pub fn live(&self) -> Vec<TaskId> {
        (0..self.tasks.len()).filter(|&i| !self.is_done(i)).collect()
    }

    /// Poll one task once (also allowed when not woken: a spurious poll). Returns true if it completed.
    pub fn poll(&mut self, id: TaskId) -> bool {
        let t = &mut self.tasks[id];
        let Some(fut) = t.fut.as_mut() else { return true };
        t.flag.woken.store(false, Ordering::SeqCst);
        t.polls += 1;
        let waker = Waker::from(t.flag.clone());
        let mut cx = Context::from_waker(&waker);
        match fut.as_mut().poll(&mut cx) {
            Poll::Ready(()) => {
                t.fut = None;
                self.trace.push(format!("poll {} -> done", t.name));
                true
            }
            Poll::Pending => {
                self.trace.push(format!("poll {} -> pending", t.name));
                false
            }
        }
    }

    /// Drop a task's future (caller-side cancellation).
    pub fn cancel(&mut self, id: TaskId) {
        let t = &mut self.tasks[id];
        if t.fut.take().is_some() {
            self.trace.push(format!("cancel {}", t.name));
        }
    }

    /// Poll woken tasks until none is woken. The order is an explorer choice: default = lowest id
    /// first; picking another woken task costs one deviation. `max_polls` is the livelock horizon.
    ///
    /// `tokio::task::yield_now()` inside a task under test does not wake the task at once: tokio
    /// *defers* the wake until the runtime's next maintenance step. When nothing is woken the
    /// explorer therefore yields once itself ([`flush_deferred`]) and looks again; only if the set
    /// is still empty is the system quiescent.
    pub async fn run_until_quiescent(&mut self, ch: &mut Chooser, max_polls: usize) -> Result<(), String> {
        let mut n = 0;
        loop {
            let mut w = self.woken();
            if w.is_empty() {
                flush_deferred().await;
                w = self.woken();
                if w.is_empty() {
                    return Ok(());
                }
            }
            let pick = if w.len() == 1 { 0 } else { ch.choose("sched", w.len()) };
            self.poll(w[pick]);
            // make a `yield_now` inside the polled task visible at once (any order is possible on
            // a multi-threaded runtime, so the yielded task must be eligible for the next choice)
            flush_deferred().await;
            n += 1;
            if n > max_polls {
                return Err(format!("livelock: {max_polls} polls without quiescence; woken={:?}", w.iter().map(|&i| self.name(i).to_string()).collect::<Vec<_>>()));
            }
        }
    }

    /// Deterministic variant (lowest id first), no choice points.
    pub async fn run_until_quiescent_default(&mut self, max_polls: usize) -> Result<(), String> {
        let mut n = 0;
        loop {
            let mut w = self.woken();
            if w.is_empty() {
                flush_deferred().await;
                w = self.woken();
                if w.is_empty() {
                    return Ok(());
                }
            }
            self.poll(w[0]);
            flush_deferred().await;
            n += 1;
            if n > max_polls {
                return Err(format!("livelock: {max_polls} polls without quiescence"));
            }
        }
    }
}

/// Let the runtime run its deferred wake-ups (see `run_until_quiescent`). Does not move time.
pub async fn flush_deferred() {
    tokio::task::yield_now().await;
}

/// Advance the paused clock by `d` (fires timers whose deadline is reached; their wakers set bits).
pub async fn advance(d: Duration) {
    tokio::time::advance(d).await;
}

/// Run one execution body inside a fresh paused current-thread runtime.
pub fn run<R, Fut: Future<Output = R>>(body: impl FnOnce() -> Fut) -> R {
    let rt = tokio::runtime::Builder::new_current_thread().enable_time().start_paused(true).build().expect("runtime");
    let r = rt.block_on(async move { body().await });
    drop(rt);
    r
}

// ------------------------------------------------------------------------------------------------
// ScriptedStream

#[derive(Default)]
pub struct StreamState {
    /// bytes the "server" has made available to the client's reader
    pub inbox: VecDeque<u8>,
    /// at most this many bytes are handed out per read call (short reads); 0 = unlimited
    pub max_read_chunk: usize,
    /// once the inbox is drained, report EOF (Ok(0)) instead of Pending
    pub eof: bool,
    /// once the inbox is drained, fail reads with this error kind
    pub read_err: Option<std::io::ErrorKind>,
    /// fail every write with this error kind
    pub write_err: Option<std::io::ErrorKind>,
    /// writes return Pending while true
    pub write_blocked: bool,
    /// at most this many bytes accepted per write call; 0 = unlimited
    pub max_write_chunk: usize,
    /// "peer stops reading": accept at most this many more bytes in total, then writes return Pending (None = no limit)
    pub write_budget: Option<usize>,
    /// everything the client wrote, in order
    pub outbox: Vec<u8>,
    pub flushes: u64,
    pub shutdown: bool,
    read_waker: Option<Waker>,
    write_waker: Option<Waker>,
}

/// Harness-side handle on the stream (cloneable, single-threaded).
#[derive(Clone, Default)]
pub struct StreamCtl(pub Rc<RefCell<StreamState>>);

impl StreamCtl {
    pub fn new() -> (StreamCtl, ScriptedStream) {
        let ctl = StreamCtl(Rc::new(RefCell::new(StreamState::default())));
        let s = ScriptedStream { st: ctl.0.clone() };
        (ctl, s)
    }
    /// Make bytes readable by the client and wake its reader.
    pub fn deliver(&self, bytes: &[u8]) {
        let w = {
            let mut g = self.0.borrow_mut();
            g.inbox.extend(bytes.iter().copied());
            g.read_waker.take()
        };
        if let Some(w) = w {
            w.wake()
        }
    }
    pub fn set_eof(&self) {
        let w = {
            let mut g = self.0.borrow_mut();
            g.eof = true;
            g.read_waker.take()
        };
        if let Some(w) = w {
            w.wake()
        }
    }
    pub fn set_read_error(&self, k: std::io::ErrorKind) {
        let w = {
            let mut g = self.0.borrow_mut();
            g.read_err = Some(k);
            g.read_waker.take()
        };
        if let Some(w) = w {
            w.wake()
        }
    }
    pub fn set_write_error(&self, k: std::io::ErrorKind) {
        let w = {
            let mut g = self.0.borrow_mut();
            g.write_err = Some(k);
            g.write_waker.take()
        };
        if let Some(w) = w {
            w.wake()
        }
    }
    pub fn block_writes(&self, blocked: bool) {
        let w = {
            let mut g = self.0.borrow_mut();
            g.write_blocked = blocked;
            if blocked { None } else { g.write_waker.take() }
        };
        if let Some(w) = w {
            w.wake()
        }
    }
    /// Accept at most `n` more written bytes in total, then block writes (`None` lifts the limit and wakes the writer).
    pub fn set_write_budget(&self, n: Option<usize>) {
        let w = {
            let mut g = self.0.borrow_mut();
            g.write_budget = n;
            if matches!(n, Some(0)) { None } else { g.write_waker.take() }
        };
        if let Some(w) = w {
            w.wake()
        }
    }
    pub fn set_max_read_chunk(&self, n: usize) {
        self.0.borrow_mut().max_read_chunk = n;
    }
    /// Take everything the client has written since the last call.
    pub fn take_written(&self) -> Vec<u8> {
        std::mem::take(&mut self.0.borrow_mut().outbox)
    }
    pub fn written_len(&self) -> usize {
        self.0.borrow().outbox.len()
    }
    pub fn unread_len(&self) -> usize {
        self.0.borrow().inbox.len()
    }
    pub fn reader_parked(&self) -> bool {
        self.0.borrow().read_waker.is_some()
    }
}

pub struct ScriptedStream {
    st: Rc<RefCell<StreamState>>,
}

impl AsyncRead for ScriptedStream {
    fn poll_read(self: Pin<&mut Self>, cx: &mut Context<'_>, buf: &mut ReadBuf<'_>) -> Poll<std::io::Result<()>> {
        let mut g = self.st.borrow_mut();
        if !g.inbox.is_empty() {
            let mut n = buf.remaining().min(g.inbox.len());
            if g.max_read_chunk > 0 {
                n = n.min(g.max_read_chunk);
            }
            for _ in 0..n {
                let b = g.inbox.pop_front().unwrap();
                buf.put_slice(&[b]);
            }
            return Poll::Ready(Ok(()));
        }
        if let Some(k) = g.read_err {
            return Poll::Ready(Err(std::io::Error::new(k, "scripted read error")));
        }
        if g.eof {
            return Poll::Ready(Ok(()));
        }
        g.read_waker = Some(cx.waker().clone());
        Poll::Pending
    }
}

impl AsyncWrite for ScriptedStream {
    fn poll_write(self: Pin<&mut Self>, cx: &mut Context<'_>, data: &[u8]) -> Poll<std::io::Result<usize>> {
        let mut g = self.st.borrow_mut();
        if let Some(k) = g.write_err {
            return Poll::Ready(Err(std::io::Error::new(k, "scripted write error")));
        }
        if g.write_blocked {
            g.write_waker = Some(cx.waker().clone());
            return Poll::Pending;
        }
        let mut n = data.len();
        if g.max_write_chunk > 0 {
            n = n.min(g.max_write_chunk);
        }
        if let Some(b) = g.write_budget {
            if b == 0 && n > 0 {
                g.write_waker = Some(cx.waker().clone());
                return Poll::Pending;
            }
            n = n.min(b);
            g.write_budget = Some(b - n);
        }
        g.outbox.extend_from_slice(&data[..n]);
        Poll::Ready(Ok(n))
    }
    fn poll_flush(self: Pin<&mut Self>, _cx: &mut Context<'_>) -> Poll<std::io::Result<()>> {
        let mut g = self.st.borrow_mut();
        if let Some(k) = g.write_err {
            return Poll::Ready(Err(std::io::Error::new(k, "scripted write error")));
        }
        g.flushes += 1;
        Poll::Ready(Ok(()))
    }
    fn poll_shutdown(self: Pin<&mut Self>, _cx: &mut Context<'_>) -> Poll<std::io::Result<()>> {
        self.st.borrow_mut().shutdown = true;
        Poll::Ready(Ok(()))
    }
}

#[cfg(test)]
mod tests {
    use super::*;
    use tokio::io::{AsyncReadExt, AsyncWriteExt};

    #[test]
    fn timers_only_fire_on_advance_and_wakers_set_bits() {
        run(|| async {
            let mut ex = Exec::new();
            let (t, out) = ex.spawn_with_output("sleeper", async {
                tokio::time::sleep(Duration::from_secs(1)).await;
                7
            });
            assert!(ex.is_woken(t));
            ex.poll(t);
            assert!(!ex.is_woken(t));
            advance(Duration::from_millis(500)).await;
            assert!(!ex.is_woken(t), "timer fired early");
            advance(Duration::from_millis(600)).await;
            assert!(ex.is_woken(t), "timer did not fire");
            assert!(ex.poll(t));
            assert_eq!(*out.borrow(), Some(7));
        });
    }

    #[test]
    fn scripted_stream_short_reads_and_eof() {
        run(|| async {
            let (ctl, mut s) = StreamCtl::new();
            let mut ex = Exec::new();
            ctl.set_max_read_chunk(2);
            let (t, out) = ex.spawn_with_output("rw", async move {
                s.write_all(b"hello").await.unwrap();
                let mut b = [0u8; 5];
                s.read_exact(&mut b).await.map(|_| b)
            });
            ex.poll(t);
            assert_eq!(ctl.take_written(), b"hello");
            assert!(ctl.reader_parked());
            ctl.deliver(b"abc");
            assert!(ex.is_woken(t));
            assert!(!ex.poll(t));
            ctl.set_eof();
            assert!(ex.poll(t));
            assert!(out.borrow().as_ref().unwrap().is_err());
        });
    }

    #[test]
    fn write_budget_blocks_after_k_bytes() {
        run(|| async {
            let (ctl, mut s) = StreamCtl::new();
            let mut ex = Exec::new();
            ctl.set_write_budget(Some(3));
            let (t, out) = ex.spawn_with_output("w", async move { s.write_all(b"hello").await.map(|_| 5) });
            assert!(!ex.poll(t), "write must block after the budget");
            assert_eq!(ctl.take_written(), b"hel");
            assert!(!ex.is_woken(t));
            ctl.set_write_budget(None);
            assert!(ex.is_woken(t));
            assert!(ex.poll(t));
            assert_eq!(ctl.take_written(), b"lo");
            assert_eq!(out.borrow().as_ref().unwrap().as_ref().unwrap(), &5);
        });
    }

    #[test]
    fn dfs_enumerates_schedules() {
        // two tasks each pushing their id twice with a yield between: schedules differ in order
        let outcomes = std::sync::Mutex::new(std::collections::BTreeSet::new());
        let res = vcore::dfs::explore(&vcore::dfs::DfsOpts { bound: 8, jobs: 2, ..Default::default() }, |ch| {
            let log = run(|| async {
                let log = Rc::new(RefCell::new(Vec::new()));
                let mut ex = Exec::new();
                for id in 0..2 {
                    let l = log.clone();
                    ex.spawn("t", async move {
                        l.borrow_mut().push(id);
                        tokio::task::yield_now().await;
                        l.borrow_mut().push(id);
                    });
                }
                ex.run_until_quiescent(ch, 100).await.unwrap();
                log.borrow().clone()
            });
            outcomes.lock().unwrap().insert(log);
            Ok(())
        });
        assert!(res.divergences.is_empty());
        assert_eq!(outcomes.lock().unwrap().len(), 6, "all 6 interleavings of 2x2 steps");
    }
}
