//! C16: the fixed family of structs deriving the four macros. Each `fam!` item expands to the struct
//! itself (the attribute tokens are handed verbatim to the derive) and to an `Entry` whose `Model` is
//! parsed from *the same tokens* - the model cannot drift from what the macro saw.
//!
//! profiles: which derives a struct carries (attributes are not accepted uniformly by the four macros:
//! `flatten` only by SerializeRow, `allow_missing`/`forbid_excess_udt_fields` only by the value macros).
//!   value_both = SerializeValue + DeserializeValue   value_ser / value_de = one of them
//!   row_both   = SerializeRow + DeserializeRow       row_ser / row_de     = one of them
use crate::c16_drive::*;
use cqlref::binder::{Leaf, Model, Val};
// needed by name: for a struct with type parameters the deserialize derives emit the bound `T: DeserializeValue<'lifetime>`
// with an unqualified trait path (hygiene wart of the macro, not a C16 matter)
#[allow(unused_imports)]
use scylla_cql::deserialize::value::DeserializeValue;

macro_rules! fam {
    (value_both $($rest:tt)*) => { fam!(@emit [scylla_macros::SerializeValue, scylla_macros::DeserializeValue] [sv dv] $($rest)*); };
    (value_ser $($rest:tt)*) => { fam!(@emit [scylla_macros::SerializeValue] [sv] $($rest)*); };
    (value_de $($rest:tt)*) => { fam!(@emit [scylla_macros::DeserializeValue] [dv] $($rest)*); };
    (row_both $($rest:tt)*) => { fam!(@emit [scylla_macros::SerializeRow, scylla_macros::DeserializeRow] [sr dr] $($rest)*); };
    (row_ser $($rest:tt)*) => { fam!(@emit [scylla_macros::SerializeRow] [sr] $($rest)*); };
    (row_de $($rest:tt)*) => { fam!(@emit [scylla_macros::DeserializeRow] [dr] $($rest)*); };

    (@has $x:ident [] $e:expr) => { None };
    (@has sv [sv $($r:ident)*] $e:expr) => { Some($e) };
    (@has dv [dv $($r:ident)*] $e:expr) => { Some($e) };
    (@has sr [sr $($r:ident)*] $e:expr) => { Some($e) };
    (@has dr [dr $($r:ident)*] $e:expr) => { Some($e) };
    (@has $x:ident [$h:ident $($r:ident)*] $e:expr) => { fam!(@has $x [$($r)*] $e) };

    (@emit [$($derive:path),*] [$($cap:ident)*] $name:ident [$($sattr:tt)*] {
        $( $(#[scylla($($fattr:tt)*)])* $f:ident : $t:ty ),* $(,)?
    }) => {
        #[derive(Clone, Debug, Default, $($derive),*)]
        #[scylla(crate = "scylla_cql", $($sattr)*)]
        pub struct $name {
            $( $(#[scylla($($fattr)*)])* pub $f: $t, )*
        }
        #[allow(unused_mut, unused_variables)]
        impl FieldTy for $name {
            fn cell() -> Option<(cqlref::binder::Kind, bool)> { None }
            fn struct_leaves() -> Vec<Leaf> {
                let mut leaves = Vec::new();
                $( push_field_leaves(&mut leaves, stringify!($f), &[$(stringify!($($fattr)*)),*], <$t as FieldTy>::cell(), <$t as FieldTy>::struct_leaves(), <$t as FieldTy>::struct_model()); )*
                leaves
            }
            fn struct_model() -> Option<Model> {
                let (flavor, skip_name_checks, forbid) = parse_struct_attrs(stringify!($($sattr)*));
                Some(Model { flavor, skip_name_checks, forbid_excess_udt_fields: forbid, leaves: <$name as FieldTy>::struct_leaves() })
            }
            fn from_vals(vals: &mut std::slice::Iter<'_, Val>, flat: bool) -> Self {
                if !flat {
                    // nested UDT field: one Val::Udt holding this struct's leaves
                    return match vals.next() {
                        Some(Val::Udt(inner)) => <$name as FieldTy>::from_vals(&mut inner.iter(), true),
                        other => panic!("harness: nested {} fed with {:?}", stringify!($name), other),
                    };
                }
                $( let $f = <$t as FieldTy>::from_vals(vals, is_flat(&[$(stringify!($($fattr)*)),*])); )*
                $name { $($f),* }
            }
            fn to_vals(&self, out: &mut Vec<Val>, flat: bool) {
                if !flat {
                    let mut inner = Vec::new();
                    <$name as FieldTy>::to_vals(self, &mut inner, true);
                    out.push(Val::Udt(inner));
                    return;
                }
                $( <$t as FieldTy>::to_vals(&self.$f, out, is_flat(&[$(stringify!($($fattr)*)),*])); )*
            }
        }
        #[allow(unused_mut, unused_variables)]
        impl FieldTy for Option<$name> {
            fn cell() -> Option<(cqlref::binder::Kind, bool)> { Some((cqlref::binder::Kind::Udt, true)) }
            fn struct_model() -> Option<Model> { <$name as FieldTy>::struct_model() }
            fn from_vals(vals: &mut std::slice::Iter<'_, Val>, _flat: bool) -> Self {
                match vals.next() {
                    Some(Val::Null) => None,
                    Some(Val::Udt(inner)) => Some(<$name as FieldTy>::from_vals(&mut inner.iter(), true)),
                    other => panic!("harness: Option<{}> fed with {:?}", stringify!($name), other),
                }
            }
            fn to_vals(&self, out: &mut Vec<Val>, _flat: bool) {
                match self {
                    None => out.push(Val::Null),
                    Some(t) => <$name as FieldTy>::to_vals(t, out, false),
                }
            }
        }
        impl $name {
            pub fn entry() -> Entry {
                let (flavor, skip_name_checks, forbid) = parse_struct_attrs(stringify!($($sattr)*));
                Entry {
                    name: stringify!($name),
                    source: stringify!(#[scylla($($sattr)*)] struct $name { $( $(#[scylla($($fattr)*)])* $f: $t, )* }),
                    model: { let _ = (flavor, skip_name_checks, forbid); <$name as FieldTy>::struct_model().unwrap() },
                    ser_value: fam!(@has sv [$($cap)*] ser_value_drv::<$name> as SerValueFn),
                    de_value: fam!(@has dv [$($cap)*] de_value_drv::<$name> as DeValueFn),
                    ser_row: fam!(@has sr [$($cap)*] ser_row_drv::<$name> as SerRowFn),
                    de_row: fam!(@has dr [$($cap)*] de_row_drv::<$name> as DeRowFn),
                    is_empty: fam!(@has sr [$($cap)*] is_empty_drv::<$name> as IsEmptyFn),
                }
            }
        }
    };
}

// ------------------------------------------------------------------------------------------------
// UDT (SerializeValue / DeserializeValue), match_by_name (default flavor)
// ------------------------------------------------------------------------------------------------
fam!(value_both V01 [] { a: i32, b: String, c: bool });
fam!(value_both V02 [] { a: Option<i32>, b: String, c: Option<i64>, d: f64 });
fam!(value_both V03 [] { a: i32, b: Option<String>, c: bool, d: i64, e: Vec<i32> });
fam!(value_both V04 [] { a: i32, b: Option<String>, c: bool, d: Option<i64>, e: f64, f: Vec<i32> });
fam!(value_both V05 [] { a: i32, #[scylla(rename = "bee")] b: String, c: Option<bool> });
// names crossed by rename: Rust `a` is database `b` and vice versa
fam!(value_both V06 [] { #[scylla(rename = "b")] a: i32, #[scylla(rename = "a")] b: i64, c: String });
fam!(value_both V07 [] { a: i32, #[scylla(skip)] s: String, b: Option<String>, c: i64 });
fam!(value_both V08 [] { a: i32, #[scylla(allow_missing)] b: Option<String>, #[scylla(allow_missing)] c: i64, d: bool });
fam!(value_both V09 [] { a: i32, #[scylla(default_when_null)] b: String, #[scylla(default_when_null)] c: Option<i64>, d: Vec<i32> });
fam!(value_both V10 [forbid_excess_udt_fields] { a: i32, b: String, c: Option<bool> });
// same-typed fields: a mis-bound field is a wrong value, not a type error
fam!(value_both V11 [] { a: i32, b: i32, c: Option<i32>, d: String, e: String });
fam!(value_both V12 [forbid_excess_udt_fields] {
    #[scylla(allow_missing)] #[scylla(default_when_null)] a: i32,
    #[scylla(rename = "B")] b: Option<String>,
    #[scylla(skip)] s: i64,
    #[scylla(allow_missing)] c: bool,
    d: f64,
});

// ------------------------------------------------------------------------------------------------
// rows (SerializeRow / DeserializeRow), match_by_name
// ------------------------------------------------------------------------------------------------
fam!(row_both R01 [] { a: i32, b: String, c: bool });
fam!(row_both R02 [] { a: Option<i32>, b: String, c: Option<i64>, d: f64 });
fam!(row_both R03 [] { a: i32, b: Option<String>, c: bool, d: Option<i64>, e: f64, f: Vec<i32> });
fam!(row_both R04 [] { #[scylla(rename = "b")] a: i32, #[scylla(rename = "a")] b: i64, #[scylla(rename = "sea")] c: String });
fam!(row_both R05 [] { a: i32, #[scylla(skip)] s: String, b: Option<String>, c: i64 });
fam!(row_both R06 [] { a: i32, #[scylla(default_when_null)] b: String, #[scylla(default_when_null)] c: Option<i64>, d: Vec<i32> });
fam!(row_both R07 [] { a: i32, b: i32, c: Option<i32>, d: String, e: String });

// declaration order deliberately not alphabetical (and not the order of the database names)
fam!(value_both V18 [] { zed: i32, mid: i32, alpha: Option<i32>, #[scylla(rename = "omega")] beta: String });
fam!(value_both V34 [flavor = "enforce_order"] { zed: i32, mid: i32, alpha: Option<i32>, #[scylla(rename = "omega")] beta: String });
fam!(row_both R11 [] { zed: i32, mid: i32, alpha: Option<i32>, #[scylla(rename = "omega")] beta: String });
fam!(row_both R31 [flavor = "enforce_order"] { zed: i32, mid: i32, alpha: Option<i32>, #[scylla(rename = "omega")] beta: String });

// same-typed and not alphabetical: a field bound through the wrong name is a silently wrong value
fam!(value_both V19 [] { zed: i32, mid: i32, alpha: i32 });
fam!(row_both R14 [] { zed: i32, mid: i32, alpha: i32 });
// names crossed by rename between two same-typed fields: binding by Rust name is a silently swapped value
fam!(value_both V35 [] { #[scylla(rename = "b")] a: i32, #[scylla(rename = "a")] b: i32, c: String });
fam!(row_both R15 [] { #[scylla(rename = "b")] a: i32, #[scylla(rename = "a")] b: i32, c: String });
// degenerate sizes (0, 1, 2 fields): off-by-one territory of the counters and cursors
fam!(value_both V36 [] { a: i32 });
fam!(value_both V37 [flavor = "enforce_order"] { #[scylla(allow_missing)] a: Option<i32>, #[scylla(allow_missing)] b: i64 });
fam!(value_both V38 [] {});
fam!(value_both V39 [flavor = "enforce_order", skip_name_checks] { a: String, #[scylla(allow_missing)] b: Option<i32> });
fam!(row_both R16 [] {});
fam!(row_both R17 [] { a: Option<String> });
fam!(row_both R32 [flavor = "enforce_order"] { a: Option<String>, b: i32 });
// ------------------------------------------------------------------------------------------------
// derived UDTs nested inside derived structs (both levels permuted / thinned / extended independently)
// ------------------------------------------------------------------------------------------------
fam!(value_both NIn [] { p: i32, q: Option<String>, r: i32 });
fam!(value_both NInO [flavor = "enforce_order"] { p: i32, #[scylla(allow_missing)] q: Option<String>, r: i32 });
// by-name outer, by-name inner, plain + Option + default_when_null nested fields
fam!(value_both N01 [] { a: i32, inner: NIn, #[scylla(default_when_null)] dflt: NIn, opt: Option<NIn> });
// ordered outer with an ordered inner and a by-name inner; allow_missing nested field in the middle
fam!(value_both N02 [flavor = "enforce_order"] { a: i32, #[scylla(allow_missing)] ord: NInO, byname: Option<NIn>, z: String });
// by-name outer with an ordered inner
fam!(value_both N03 [forbid_excess_udt_fields] { #[scylla(rename = "in")] ord: NInO, b: bool });
// rows holding derived UDTs
fam!(row_both N04 [] { id: i32, u: NIn, #[scylla(default_when_null)] v: Option<NInO> });
fam!(row_both N05 [flavor = "enforce_order"] { id: i32, u: Option<NIn>, w: V08 });
// three levels
fam!(value_both N06 [] { top: i32, mid: Option<N03> });

// default_when_null on every carrier kind, Option and not, under each flavor (explicit null vs truncated UDT)
fam!(value_both V40 [] { #[scylla(default_when_null)] a: i32, #[scylla(default_when_null)] b: Option<i32>, #[scylla(default_when_null)] c: Vec<i32>, #[scylla(default_when_null)] d: f64, #[scylla(default_when_null)] f: Option<String> });
fam!(value_both V41 [flavor = "enforce_order"] { #[scylla(default_when_null)] a: i32, #[scylla(default_when_null)] b: Option<i32>, #[scylla(default_when_null)] c: Vec<i32>, #[scylla(default_when_null)] d: bool, #[scylla(default_when_null)] e: f64 });
fam!(value_both V42 [flavor = "enforce_order", skip_name_checks] { #[scylla(default_when_null)] a: i32, #[scylla(default_when_null)] b: Option<i32>, #[scylla(default_when_null)] c: Vec<i32>, #[scylla(default_when_null)] d: String, #[scylla(allow_missing)] #[scylla(default_when_null)] e: f64 });
fam!(row_both R34 [] { #[scylla(default_when_null)] a: i32, #[scylla(default_when_null)] b: Option<i32>, #[scylla(default_when_null)] c: Vec<i32>, #[scylla(default_when_null)] d: bool, #[scylla(default_when_null)] e: f64 });
fam!(row_both R35 [flavor = "enforce_order", skip_name_checks] { #[scylla(default_when_null)] a: i32, #[scylla(default_when_null)] b: Option<i32>, #[scylla(default_when_null)] c: Vec<i32>, #[scylla(default_when_null)] d: String });
// ordered row: rename + skip + default_when_null together
fam!(row_both R33 [flavor = "enforce_order"] { #[scylla(rename = "bee")] b: i32, #[scylla(skip)] s: String, #[scylla(default_when_null)] c: String, d: Option<i64> });
// ordered UDT: allow_missing first, two consecutive allow_missing in the middle, required fields after them
fam!(value_both V43 [flavor = "enforce_order"] { #[scylla(allow_missing)] a: i32, b: String, #[scylla(allow_missing)] c: Option<i64>, #[scylla(allow_missing)] d: bool, e: i32 });
fam!(value_both V44 [flavor = "enforce_order", forbid_excess_udt_fields] { a: i32, #[scylla(allow_missing)] b: String, c: bool });
// by-name row: rename + skip next to two flattened structs
fam!(row_ser R36 [] { #[scylla(rename = "aa")] a: i32, #[scylla(skip)] s: i32, #[scylla(flatten)] f1: FIn1, #[scylla(flatten)] f3: FIn3 });

// 7-field structs: enumerated in the THOROUGH tier only (5040 orders each, see THOROUGH_ONLY)
fam!(value_both V50 [] { a: i32, b: Option<String>, c: bool, d: Option<i64>, e: f64, f: Vec<i32>, g: i32 });
fam!(value_both V51 [flavor = "enforce_order"] { a: i32, #[scylla(allow_missing)] b: Option<String>, c: bool, #[scylla(default_when_null)] d: i64, e: f64, #[scylla(allow_missing)] f: Vec<i32>, #[scylla(allow_missing)] g: i32 });
fam!(row_both R50 [] { a: i32, b: Option<String>, c: bool, #[scylla(default_when_null)] d: i64, e: f64, #[scylla(rename = "eff")] f: Vec<i32>, g: i32 });
/// structs that only the thorough tier enumerates
pub const THOROUGH_ONLY: &[&str] = &["V50", "V51", "R50"];

// single-derive structs (attribute sets that only one of the two value macros documents)
fam!(value_ser V13 [] { a: i32, b: Option<String>, c: i64 });
fam!(value_de V14 [] {
    #[scylla(allow_missing)] a: i32,
    #[scylla(default_when_null)] b: String,
    #[scylla(rename = "cee")] c: Option<i64>,
    #[scylla(skip)] s: bool,
    d: f64,
});
fam!(value_de V15 [flavor = "enforce_order"] { a: i32, #[scylla(allow_missing)] b: String, #[scylla(default_when_null)] c: i64, #[scylla(allow_missing)] d: Option<bool> });
fam!(value_ser V16 [flavor = "enforce_order"] { a: i32, #[scylla(rename = "bee")] b: Option<String>, c: Vec<i32> });
fam!(value_ser V17 [flavor = "match_by_name", forbid_excess_udt_fields] { a: i32, #[scylla(skip)] s: i32, b: i32, c: Option<i32> });

// ------------------------------------------------------------------------------------------------
// UDT, enforce_order
// ------------------------------------------------------------------------------------------------
fam!(value_both V20 [flavor = "enforce_order"] { a: i32, b: String, c: bool });
fam!(value_both V21 [flavor = "enforce_order"] { a: Option<i32>, b: String, c: Option<i64>, d: f64 });
fam!(value_both V22 [flavor = "enforce_order"] { #[scylla(rename = "b")] a: i32, #[scylla(rename = "a")] b: i64, c: String });
fam!(value_both V23 [flavor = "enforce_order"] { a: i32, #[scylla(skip)] s: String, b: Option<String>, c: i64 });
fam!(value_both V24 [flavor = "enforce_order"] { a: i32, #[scylla(allow_missing)] b: Option<String>, c: i64, #[scylla(allow_missing)] d: bool });
fam!(value_both V25 [flavor = "enforce_order"] { a: i32, #[scylla(default_when_null)] b: String, #[scylla(default_when_null)] c: Option<i64>, d: Vec<i32> });
fam!(value_both V26 [flavor = "enforce_order", forbid_excess_udt_fields] { a: i32, b: String, c: Option<bool> });
fam!(value_both V27 [flavor = "enforce_order", skip_name_checks] { a: i32, b: String, c: bool });
fam!(value_both V28 [flavor = "enforce_order", skip_name_checks, forbid_excess_udt_fields] { a: i32, b: Option<String>, #[scylla(allow_missing)] c: i64, #[scylla(allow_missing)] d: bool });
fam!(value_both V29 [flavor = "enforce_order", skip_name_checks] { a: i32, b: i32, c: Option<i32>, d: String });
fam!(value_both V30 [flavor = "enforce_order"] { a: i32, b: i32, c: Option<i32>, d: String, e: String });
fam!(value_both V31 [flavor = "enforce_order"] { a: i32, b: Option<String>, c: bool, d: Option<i64>, e: f64, f: Vec<i32> });
fam!(value_both V32 [flavor = "enforce_order", forbid_excess_udt_fields] {
    #[scylla(allow_missing)] #[scylla(default_when_null)] a: i32,
    #[scylla(rename = "B")] b: Option<String>,
    #[scylla(skip)] s: i64,
    #[scylla(allow_missing)] c: bool,
    d: f64,
});
fam!(value_both V33 [flavor = "enforce_order", skip_name_checks] { a: i32, #[scylla(skip)] s: String, #[scylla(default_when_null)] b: i64, c: Option<String> });

// ------------------------------------------------------------------------------------------------
// rows, enforce_order
// ------------------------------------------------------------------------------------------------
fam!(row_both R20 [flavor = "enforce_order"] { a: i32, b: String, c: bool });
fam!(row_both R21 [flavor = "enforce_order"] { a: Option<i32>, b: String, c: Option<i64>, d: f64, e: Vec<i32> });
fam!(row_both R22 [flavor = "enforce_order"] { #[scylla(rename = "b")] a: i32, #[scylla(rename = "a")] b: i64, #[scylla(rename = "sea")] c: String });
fam!(row_both R23 [flavor = "enforce_order"] { a: i32, #[scylla(skip)] s: String, b: Option<String>, c: i64 });
fam!(row_both R24 [flavor = "enforce_order"] { a: i32, #[scylla(default_when_null)] b: String, #[scylla(default_when_null)] c: Option<i64>, d: Vec<i32> });
fam!(row_both R25 [flavor = "enforce_order", skip_name_checks] { a: i32, b: String, c: Option<bool> });
fam!(row_both R26 [flavor = "enforce_order", skip_name_checks] { a: i32, b: i32, c: Option<i32>, d: String });
fam!(row_both R27 [flavor = "enforce_order", skip_name_checks] { a: i32, #[scylla(skip)] s: String, #[scylla(default_when_null)] b: i64, c: Option<String> });
fam!(row_de R12 [] { #[scylla(default_when_null)] a: i32, #[scylla(rename = "bee")] b: Option<String>, #[scylla(skip)] s: f64, c: bool });
fam!(row_ser R13 [] { a: i32, #[scylla(rename = "bee")] b: Option<String>, #[scylla(skip)] s: f64, c: bool });

// ------------------------------------------------------------------------------------------------
// flatten (SerializeRow only). Inner structs are family members themselves.
// ------------------------------------------------------------------------------------------------
fam!(row_ser FIn1 [] { b: String, c: Option<i64> });
fam!(row_ser R08 [] { a: i32, #[scylla(flatten)] inner: FIn1, d: bool });
fam!(row_ser FIn2 [] { c: i64, #[scylla(rename = "dee")] d: String, #[scylla(skip)] s: i32 });
fam!(row_ser FMid [] { b: Option<String>, #[scylla(flatten)] inn: FIn2, e: bool });
// nested flatten, 6 leaves
fam!(row_ser R09 [] { a: i32, #[scylla(flatten)] mid: FMid, f: f64 });
fam!(row_ser FIn3 [] { x: i32, y: i32 });
// two flattened fields, first and last, same-typed leaves
fam!(row_ser R10 [] { #[scylla(flatten)] first: FIn1, a: i32, #[scylla(flatten)] second: FIn3 });
fam!(row_ser FOIn1 [flavor = "enforce_order"] { b: String, c: Option<i64> });
fam!(row_ser R28 [flavor = "enforce_order"] { a: i32, #[scylla(flatten)] inner: FOIn1, d: bool });
fam!(row_ser FOIn2 [flavor = "enforce_order", skip_name_checks] { p: i32, q: i32 });
fam!(row_ser R29 [flavor = "enforce_order", skip_name_checks] { a: i32, #[scylla(flatten)] inner: FOIn2, z: String });
fam!(row_ser FOMid [flavor = "enforce_order"] { a: i32, #[scylla(flatten)] i: FOIn1, d: bool });
fam!(row_ser R30 [flavor = "enforce_order"] { #[scylla(flatten)] m: FOMid, e: f64 });
// flatten-ONLY structs (no field of their own): 1 and 2 flattened members, nested, both flavors.
// Their is_empty() must still say "binds values".
fam!(row_ser R40 [] { #[scylla(flatten)] k: FIn1 });
fam!(row_ser R41 [] { #[scylla(flatten)] k: FIn1, #[scylla(flatten)] p: FIn3 });
fam!(row_ser R42 [] { #[scylla(flatten)] outer: R40 });
fam!(row_ser FIn4 [] { m: bool, #[scylla(rename = "nn")] n: Option<String> });
fam!(row_ser R43 [] { #[scylla(flatten)] both: R41, #[scylla(flatten)] more: FIn4 });
fam!(row_ser FOIn3 [flavor = "enforce_order"] { x: i32, y: i32 });
fam!(row_ser R44 [flavor = "enforce_order"] { #[scylla(flatten)] k: FOIn1 });
fam!(row_ser R45 [flavor = "enforce_order"] { #[scylla(flatten)] k: FOIn1, #[scylla(flatten)] p: FOIn3 });
fam!(row_ser R46 [flavor = "enforce_order"] { #[scylla(flatten)] outer: R44 });
fam!(row_ser R47 [flavor = "enforce_order", skip_name_checks] { #[scylla(flatten)] k: FOIn2 });

pub fn family() -> Vec<Entry> {
    vec![
        V01::entry(),
        V02::entry(),
        V03::entry(),
        V04::entry(),
        V05::entry(),
        V06::entry(),
        V07::entry(),
        V08::entry(),
        V09::entry(),
        V10::entry(),
        V11::entry(),
        V12::entry(),
        V13::entry(),
        V14::entry(),
        V15::entry(),
        V16::entry(),
        V17::entry(),
        V18::entry(),
        V19::entry(),
        V35::entry(),
        V36::entry(),
        V50::entry(),
        V51::entry(),
        R50::entry(),
        NIn::entry(),
        NInO::entry(),
        N01::entry(),
        N02::entry(),
        N03::entry(),
        N04::entry(),
        N05::entry(),
        N06::entry(),
        V40::entry(),
        V41::entry(),
        V42::entry(),
        V43::entry(),
        V44::entry(),
        R33::entry(),
        R34::entry(),
        R35::entry(),
        R36::entry(),
        gb_entry(),
        gr_entry(),
        gs_entry(),
        gsr_entry(),
        V37::entry(),
        V38::entry(),
        V39::entry(),
        R16::entry(),
        R17::entry(),
        R32::entry(),
        R15::entry(),
        R14::entry(),
        V34::entry(),
        R11::entry(),
        R31::entry(),
        V20::entry(),
        V21::entry(),
        V22::entry(),
        V23::entry(),
        V24::entry(),
        V25::entry(),
        V26::entry(),
        V27::entry(),
        V28::entry(),
        V29::entry(),
        V30::entry(),
        V31::entry(),
        V32::entry(),
        V33::entry(),
        R01::entry(),
        R02::entry(),
        R03::entry(),
        R04::entry(),
        R05::entry(),
        R06::entry(),
        R07::entry(),
        R08::entry(),
        R09::entry(),
        R10::entry(),
        R12::entry(),
        R13::entry(),
        R20::entry(),
        R21::entry(),
        R22::entry(),
        R23::entry(),
        R24::entry(),
        R25::entry(),
        R26::entry(),
        R27::entry(),
        R28::entry(),
        R29::entry(),
        R30::entry(),
        R40::entry(),
        R41::entry(),
        R42::entry(),
        R43::entry(),
        FIn4::entry(),
        FOIn3::entry(),
        R44::entry(),
        R45::entry(),
        R46::entry(),
        R47::entry(),
        FIn1::entry(),
        FIn2::entry(),
        FIn3::entry(),
        FMid::entry(),
        FOIn1::entry(),
        FOIn2::entry(),
        FOMid::entry(),
    ]
}

// ------------------------------------------------------------------------------------------------
// borrowed fields, lifetime parameters named like the ones the deserialize derives introduce
// ('lifetime, 'lifetime_), and type parameters - written by hand, the `fam!` macro has no generics
// ------------------------------------------------------------------------------------------------
#[derive(Debug, scylla_macros::SerializeValue, scylla_macros::DeserializeValue)]
#[scylla(crate = "scylla_cql")]
pub struct GB<'lifetime, 'lifetime_> {
    pub a: &'lifetime str,
    #[scylla(default_when_null)]
    pub b: i64,
    pub c: Option<&'lifetime_ str>,
    #[scylla(allow_missing)]
    pub d: Option<i64>,
}

// Type parameters: only the serialize derives accept them at this commit (the deserialize derives emit the
// bound `T: DeserializeValue<'lifetime>` - one lifetime argument for a trait that takes two - and do not compile).
#[derive(Debug, scylla_macros::SerializeValue)]
#[scylla(crate = "scylla_cql")]
pub struct GS<T: scylla_cql::serialize::value::SerializeValue, U: scylla_cql::serialize::value::SerializeValue> {
    pub zeta: T,
    #[scylla(rename = "bee")]
    pub b: U,
    pub c: Option<T>,
}

#[derive(Debug, scylla_macros::SerializeRow)]
#[scylla(crate = "scylla_cql")]
pub struct GSR<'a, T: scylla_cql::serialize::value::SerializeValue> {
    pub zeta: T,
    pub b: &'a str,
    pub c: Option<T>,
}

#[derive(Debug, scylla_macros::SerializeRow, scylla_macros::DeserializeRow)]
#[scylla(crate = "scylla_cql", flavor = "enforce_order")]
pub struct GR<'a> {
    pub a: &'a str,
    #[scylla(rename = "bee")]
    pub b: i64,
    #[scylla(default_when_null)]
    pub c: bool,
    pub d: Option<i64>,
}

fn hand_leaf(rust: &str, db: &str, kind: cqlref::binder::Kind, optional: bool, allow_missing: bool, default_when_null: bool) -> Leaf {
    Leaf { rust_name: rust.into(), db_name: db.into(), kind, optional, skip: false, allow_missing, default_when_null, nested: None }
}

fn text(v: &Val) -> &str {
    match v {
        Val::Text(s) => s,
        other => panic!("harness: text leaf fed with {other:?}"),
    }
}
fn opt_text(v: &Val) -> Option<&str> {
    match v {
        Val::Null => None,
        other => Some(text(other)),
    }
}
fn bigint(v: &Val) -> i64 {
    match v {
        Val::BigInt(x) => *x,
        other => panic!("harness: bigint leaf fed with {other:?}"),
    }
}
fn opt_bigint(v: &Val) -> Option<i64> {
    match v {
        Val::Null => None,
        other => Some(bigint(other)),
    }
}
fn gb_vals(g: &GB<'_, '_>) -> Vec<Val> {
    vec![Val::Text(g.a.to_string()), Val::BigInt(g.b), g.c.map(|s| Val::Text(s.to_string())).unwrap_or(Val::Null), g.d.map(Val::BigInt).unwrap_or(Val::Null)]
}
fn gr_vals(g: &GR<'_>) -> Vec<Val> {
    vec![Val::Text(g.a.to_string()), Val::BigInt(g.b), Val::Boolean(g.c), g.d.map(Val::BigInt).unwrap_or(Val::Null)]
}

pub fn gb_entry() -> Entry {
    use cqlref::binder::{Flavor, Kind};
    use scylla_cql::deserialize::FrameSlice;
    use scylla_cql::serialize::value::SerializeValue;
    use scylla_cql::serialize::writers::CellWriter;
    fn ser(vals: &[Val], typ: &scylla_cql::frame::response::result::ColumnType<'static>) -> Out<Vec<u8>> {
        let g = GB { a: text(&vals[0]), b: bigint(&vals[1]), c: opt_text(&vals[2]), d: opt_bigint(&vals[3]) };
        guard(|| {
            let mut buf = Vec::new();
            match g.serialize(typ, CellWriter::new(&mut buf)) {
                Ok(_) => Out::Ok(buf[4..].to_vec()),
                Err(e) => Out::Err("ser", e.to_string()),
            }
        })
    }
    fn de(typ: &scylla_cql::frame::response::result::ColumnType<'static>, body: Option<&bytes::Bytes>) -> Out<Vec<Val>> {
        guard(|| {
            if let Err(e) = <GB<'_, '_> as DeserializeValue<'_, '_>>::type_check(typ) {
                return Out::Err("typeck", e.to_string());
            }
            match <GB<'_, '_> as DeserializeValue<'_, '_>>::deserialize(typ, body.map(FrameSlice::new)) {
                Ok(g) => Out::Ok(gb_vals(&g)),
                Err(e) => Out::Err("deser", e.to_string()),
            }
        })
    }
    Entry {
        name: "GB",
        source: "struct GB<'lifetime, 'lifetime_> { a: &'lifetime str, #[scylla(default_when_null)] b: i64, c: Option<&'lifetime_ str>, #[scylla(allow_missing)] d: Option<i64> }",
        model: Model {
            flavor: Flavor::ByName,
            skip_name_checks: false,
            forbid_excess_udt_fields: false,
            leaves: vec![hand_leaf("a", "a", Kind::Text, false, false, false), hand_leaf("b", "b", Kind::BigInt, false, false, true), hand_leaf("c", "c", Kind::Text, true, false, false), hand_leaf("d", "d", Kind::BigInt, true, true, false)],
        },
        ser_value: Some(ser),
        de_value: Some(de),
        ser_row: None,
        de_row: None,
        is_empty: None,
    }
}

pub fn gr_entry() -> Entry {
    use cqlref::binder::{Flavor, Kind};
    use scylla_cql::deserialize::FrameSlice;
    use scylla_cql::deserialize::row::{ColumnIterator, DeserializeRow};
    use scylla_cql::frame::response::result::ColumnSpec;
    use scylla_cql::serialize::row::{RowSerializationContext, SerializeRow};
    use scylla_cql::serialize::writers::RowWriter;
    fn build(vals: &[Val]) -> GR<'_> {
        GR { a: text(&vals[0]), b: bigint(&vals[1]), c: matches!(vals[2], Val::Boolean(true)), d: opt_bigint(&vals[3]) }
    }
    fn ser(vals: &[Val], specs: &[ColumnSpec<'static>]) -> Out<Vec<u8>> {
        let g = build(vals);
        guard(|| {
            let ctx = RowSerializationContext::from_specs(specs);
            let mut buf = Vec::new();
            let mut w = RowWriter::new(&mut buf);
            match g.serialize(&ctx, &mut w) {
                Ok(()) => {
                    let count = w.value_count();
                    match check_from_serializable(&g, &ctx, &buf, count) {
                        Ok(()) => Out::Ok(buf),
                        Err(why) => Out::Err("framing", why),
                    }
                }
                Err(e) => Out::Err("ser", e.to_string()),
            }
        })
    }
    fn de(specs: &[ColumnSpec<'static>], body: &bytes::Bytes) -> Out<Vec<Val>> {
        guard(|| {
            if let Err(e) = <GR<'_> as DeserializeRow<'_, '_>>::type_check(specs) {
                return Out::Err("typeck", e.to_string());
            }
            match <GR<'_> as DeserializeRow<'_, '_>>::deserialize(ColumnIterator::new(specs, FrameSlice::new(body))) {
                Ok(g) => Out::Ok(gr_vals(&g)),
                Err(e) => Out::Err("deser", e.to_string()),
            }
        })
    }
    fn is_empty(vals: &[Val]) -> bool {
        build(vals).is_empty()
    }
    Entry {
        name: "GR",
        source: "#[scylla(flavor = \"enforce_order\")] struct GR<'a> { a: &'a str, #[scylla(rename = \"bee\")] b: i64, #[scylla(default_when_null)] c: bool, d: Option<i64> }",
        model: Model {
            flavor: Flavor::Ordered,
            skip_name_checks: false,
            forbid_excess_udt_fields: false,
            leaves: vec![hand_leaf("a", "a", Kind::Text, false, false, false), hand_leaf("b", "bee", Kind::BigInt, false, false, false), hand_leaf("c", "c", Kind::Boolean, false, false, true), hand_leaf("d", "d", Kind::BigInt, true, false, false)],
        },
        ser_value: None,
        de_value: None,
        ser_row: Some(ser),
        de_row: Some(de),
        is_empty: Some(is_empty),
    }
}

fn int(v: &Val) -> i32 {
    match v {
        Val::Int(x) => *x,
        other => panic!("harness: int leaf fed with {other:?}"),
    }
}
fn opt_int(v: &Val) -> Option<i32> {
    match v {
        Val::Null => None,
        other => Some(int(other)),
    }
}

pub fn gs_entry() -> Entry {
    use cqlref::binder::{Flavor, Kind};
    use scylla_cql::serialize::value::SerializeValue;
    use scylla_cql::serialize::writers::CellWriter;
    fn ser(vals: &[Val], typ: &scylla_cql::frame::response::result::ColumnType<'static>) -> Out<Vec<u8>> {
        let g = GS::<i32, String> { zeta: int(&vals[0]), b: text(&vals[1]).to_string(), c: opt_int(&vals[2]) };
        guard(|| {
            let mut buf = Vec::new();
            match g.serialize(typ, CellWriter::new(&mut buf)) {
                Ok(_) => Out::Ok(buf[4..].to_vec()),
                Err(e) => Out::Err("ser", e.to_string()),
            }
        })
    }
    Entry {
        name: "GS",
        source: "struct GS<T: SerializeValue, U: SerializeValue> { zeta: T, #[scylla(rename = \"bee\")] b: U, c: Option<T> }  (T = i32, U = String)",
        model: Model {
            flavor: Flavor::ByName,
            skip_name_checks: false,
            forbid_excess_udt_fields: false,
            leaves: vec![hand_leaf("zeta", "zeta", Kind::Int, false, false, false), hand_leaf("b", "bee", Kind::Text, false, false, false), hand_leaf("c", "c", Kind::Int, true, false, false)],
        },
        ser_value: Some(ser),
        de_value: None,
        ser_row: None,
        de_row: None,
        is_empty: None,
    }
}

pub fn gsr_entry() -> Entry {
    use cqlref::binder::{Flavor, Kind};
    use scylla_cql::frame::response::result::ColumnSpec;
    use scylla_cql::serialize::row::{RowSerializationContext, SerializeRow};
    use scylla_cql::serialize::writers::RowWriter;
    fn build(vals: &[Val]) -> GSR<'_, i32> {
        GSR { zeta: int(&vals[0]), b: text(&vals[1]), c: opt_int(&vals[2]) }
    }
    fn ser(vals: &[Val], specs: &[ColumnSpec<'static>]) -> Out<Vec<u8>> {
        let g = build(vals);
        guard(|| {
            let ctx = RowSerializationContext::from_specs(specs);
            let mut buf = Vec::new();
            let mut w = RowWriter::new(&mut buf);
            match g.serialize(&ctx, &mut w) {
                Ok(()) => {
                    let count = w.value_count();
                    match check_from_serializable(&g, &ctx, &buf, count) {
                        Ok(()) => Out::Ok(buf),
                        Err(why) => Out::Err("framing", why),
                    }
                }
                Err(e) => Out::Err("ser", e.to_string()),
            }
        })
    }
    fn is_empty(vals: &[Val]) -> bool {
        build(vals).is_empty()
    }
    Entry {
        name: "GSR",
        source: "struct GSR<'a, T: SerializeValue> { zeta: T, b: &'a str, c: Option<T> }  (T = i32)",
        model: Model {
            flavor: Flavor::ByName,
            skip_name_checks: false,
            forbid_excess_udt_fields: false,
            leaves: vec![hand_leaf("zeta", "zeta", Kind::Int, false, false, false), hand_leaf("b", "b", Kind::Text, false, false, false), hand_leaf("c", "c", Kind::Int, true, false, false)],
        },
        ser_value: None,
        de_value: None,
        ser_row: Some(ser),
        de_row: None,
        is_empty: Some(is_empty),
    }
}
