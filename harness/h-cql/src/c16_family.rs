//! C16: the fixed family of structs deriving the four macros. Each `fam!` item expands to the struct
//! itself (the attribute tokens are handed verbatim to the derive) and to an `Entry` whose `Model` is
//! parsed from *the same tokens* - the model cannot drift from what the macro saw.
//!
//! profiles: which derives a struct carries (attributes are not accepted uniformly by the four macros:
//! `flatten` only by SerializeRow, `allow_missing`/`forbid_excess_udt_fields` only by the value macros).
//!   value_both = SerializeValue + DeserializeValue   value_ser / value_de = one of them
//!   row_both   = SerializeRow + DeserializeRow       row_ser / row_de     = one of them
use crate::c16_drive::*;
use cqlref::binder::{Leaf, Model, Val};

macro_rules! fam {
    (value_both $($rest:tt)*) => { fam!(@emit [scylla_macros::SerializeValue, scylla_macros::DeserializeValue] [sv dv] $($rest)*); };
    (value_ser $($rest:tt)*) => { fam!(@emit [scylla_macros::SerializeValue] [sv] $($rest)*); };
    (value_de $($rest:tt)*) => { fam!(@emit [scylla_macros::DeserializeValue] [dv] $($rest)*); };
    (row_both $($rest:tt)*) => { fam!(@emit [scylla_macros::SerializeRow, scylla_macros::DeserializeRow] [sr dr] $($rest)*); };
    (row_ser $($rest:tt)*) => { fam!(@emit [scylla_macros::SerializeRow] [sr] $($rest)*); };
    (row_de $($rest:tt)*) => { fam!(@emit [scylla_macros::DeserializeRow] [dr] $($rest)*); };

    (@has $x:ident [] $e:expr) => { None };
    (@has sv [sv $($r:ident)*] $e:expr) => { Some($e) };
    (@has dv [dv $($r:ident)*] $e:expr) => { Some($e) };
    (@has sr [sr $($r:ident)*] $e:expr) => { Some($e) };
    (@has dr [dr $($r:ident)*] $e:expr) => { Some($e) };
    (@has $x:ident [$h:ident $($r:ident)*] $e:expr) => { fam!(@has $x [$($r)*] $e) };

    (@emit [$($derive:path),*] [$($cap:ident)*] $name:ident [$($sattr:tt)*] {
        $( $(#[scylla($($fattr:tt)*)])* $f:ident : $t:ty ),* $(,)?
    }) => {
        #[derive(Clone, Debug, $($derive),*)]
        #[scylla(crate = "scylla_cql", $($sattr)*)]
        pub struct $name {
            $( $(#[scylla($($fattr)*)])* pub $f: $t, )*
        }
        #[allow(unused_mut, unused_variables)]
        impl FieldTy for $name {
            fn cell() -> Option<(cqlref::binder::Kind, bool)> { None }
            fn struct_leaves() -> Vec<Leaf> {
                let mut leaves = Vec::new();
                $( push_field_leaves(&mut leaves, stringify!($f), &[$(stringify!($($fattr)*)),*], <$t as FieldTy>::cell(), <$t as FieldTy>::struct_leaves()); )*
                leaves
            }
            fn from_vals(vals: &mut std::slice::Iter<'_, Val>) -> Self {
                $( let $f = <$t as FieldTy>::from_vals(vals); )*
                $name { $($f),* }
            }
            fn to_vals(&self, out: &mut Vec<Val>) {
                $( <$t as FieldTy>::to_vals(&self.$f, out); )*
            }
        }
        impl $name {
            pub fn entry() -> Entry {
                let (flavor, skip_name_checks, forbid) = parse_struct_attrs(stringify!($($sattr)*));
                Entry {
                    name: stringify!($name),
                    source: stringify!(#[scylla($($sattr)*)] struct $name { $( $(#[scylla($($fattr)*)])* $f: $t, )* }),
                    model: Model { flavor, skip_name_checks, forbid_excess_udt_fields: forbid, leaves: <$name as FieldTy>::struct_leaves() },
                    ser_value: fam!(@has sv [$($cap)*] ser_value_drv::<$name> as SerValueFn),
                    de_value: fam!(@has dv [$($cap)*] de_value_drv::<$name> as DeValueFn),
                    ser_row: fam!(@has sr [$($cap)*] ser_row_drv::<$name> as SerRowFn),
                    de_row: fam!(@has dr [$($cap)*] de_row_drv::<$name> as DeRowFn),
                }
            }
        }
    };
}

// ------------------------------------------------------------------------------------------------
// UDT (SerializeValue / DeserializeValue), match_by_name (default flavor)
// ------------------------------------------------------------------------------------------------
fam!(value_both V01 [] { a: i32, b: String, c: bool });
fam!(value_both V02 [] { a: Option<i32>, b: String, c: Option<i64>, d: f64 });
fam!(value_both V03 [] { a: i32, b: Option<String>, c: bool, d: i64, e: Vec<i32> });
fam!(value_both V04 [] { a: i32, b: Option<String>, c: bool, d: Option<i64>, e: f64, f: Vec<i32> });
fam!(value_both V05 [] { a: i32, #[scylla(rename = "bee")] b: String, c: Option<bool> });
// names crossed by rename: Rust `a` is database `b` and vice versa
fam!(value_both V06 [] { #[scylla(rename = "b")] a: i32, #[scylla(rename = "a")] b: i64, c: String });
fam!(value_both V07 [] { a: i32, #[scylla(skip)] s: String, b: Option<String>, c: i64 });
fam!(value_both V08 [] { a: i32, #[scylla(allow_missing)] b: Option<String>, #[scylla(allow_missing)] c: i64, d: bool });
fam!(value_both V09 [] { a: i32, #[scylla(default_when_null)] b: String, #[scylla(default_when_null)] c: Option<i64>, d: Vec<i32> });
fam!(value_both V10 [forbid_excess_udt_fields] { a: i32, b: String, c: Option<bool> });
// same-typed fields: a mis-bound field is a wrong value, not a type error
fam!(value_both V11 [] { a: i32, b: i32, c: Option<i32>, d: String, e: String });
fam!(value_both V12 [forbid_excess_udt_fields] {
    #[scylla(allow_missing)] #[scylla(default_when_null)] a: i32,
    #[scylla(rename = "B")] b: Option<String>,
    #[scylla(skip)] s: i64,
    #[scylla(allow_missing)] c: bool,
    d: f64,
});

// ------------------------------------------------------------------------------------------------
// rows (SerializeRow / DeserializeRow), match_by_name
// ------------------------------------------------------------------------------------------------
fam!(row_both R01 [] { a: i32, b: String, c: bool });
fam!(row_both R02 [] { a: Option<i32>, b: String, c: Option<i64>, d: f64 });
fam!(row_both R03 [] { a: i32, b: Option<String>, c: bool, d: Option<i64>, e: f64, f: Vec<i32> });
fam!(row_both R04 [] { #[scylla(rename = "b")] a: i32, #[scylla(rename = "a")] b: i64, #[scylla(rename = "sea")] c: String });
fam!(row_both R05 [] { a: i32, #[scylla(skip)] s: String, b: Option<String>, c: i64 });
fam!(row_both R06 [] { a: i32, #[scylla(default_when_null)] b: String, #[scylla(default_when_null)] c: Option<i64>, d: Vec<i32> });
fam!(row_both R07 [] { a: i32, b: i32, c: Option<i32>, d: String, e: String });

// declaration order deliberately not alphabetical (and not the order of the database names)
fam!(value_both V18 [] { zed: i32, mid: i32, alpha: Option<i32>, #[scylla(rename = "omega")] beta: String });
fam!(value_both V34 [flavor = "enforce_order"] { zed: i32, mid: i32, alpha: Option<i32>, #[scylla(rename = "omega")] beta: String });
fam!(row_both R11 [] { zed: i32, mid: i32, alpha: Option<i32>, #[scylla(rename = "omega")] beta: String });
fam!(row_both R31 [flavor = "enforce_order"] { zed: i32, mid: i32, alpha: Option<i32>, #[scylla(rename = "omega")] beta: String });

// same-typed and not alphabetical: a field bound through the wrong name is a silently wrong value
fam!(value_both V19 [] { zed: i32, mid: i32, alpha: i32 });
fam!(row_both R14 [] { zed: i32, mid: i32, alpha: i32 });
// names crossed by rename between two same-typed fields: binding by Rust name is a silently swapped value
fam!(value_both V35 [] { #[scylla(rename = "b")] a: i32, #[scylla(rename = "a")] b: i32, c: String });
fam!(row_both R15 [] { #[scylla(rename = "b")] a: i32, #[scylla(rename = "a")] b: i32, c: String });
// degenerate sizes (0, 1, 2 fields): off-by-one territory of the counters and cursors
fam!(value_both V36 [] { a: i32 });
fam!(value_both V37 [flavor = "enforce_order"] { #[scylla(allow_missing)] a: Option<i32>, #[scylla(allow_missing)] b: i64 });
fam!(value_both V38 [] {});
fam!(value_both V39 [flavor = "enforce_order", skip_name_checks] { a: String, #[scylla(allow_missing)] b: Option<i32> });
fam!(row_both R16 [] {});
fam!(row_both R17 [] { a: Option<String> });
fam!(row_both R32 [flavor = "enforce_order"] { a: Option<String>, b: i32 });
// single-derive structs (attribute sets that only one of the two value macros documents)
fam!(value_ser V13 [] { a: i32, b: Option<String>, c: i64 });
fam!(value_de V14 [] {
    #[scylla(allow_missing)] a: i32,
    #[scylla(default_when_null)] b: String,
    #[scylla(rename = "cee")] c: Option<i64>,
    #[scylla(skip)] s: bool,
    d: f64,
});
fam!(value_de V15 [flavor = "enforce_order"] { a: i32, #[scylla(allow_missing)] b: String, #[scylla(default_when_null)] c: i64, #[scylla(allow_missing)] d: Option<bool> });
fam!(value_ser V16 [flavor = "enforce_order"] { a: i32, #[scylla(rename = "bee")] b: Option<String>, c: Vec<i32> });
fam!(value_ser V17 [flavor = "match_by_name", forbid_excess_udt_fields] { a: i32, #[scylla(skip)] s: i32, b: i32, c: Option<i32> });

// ------------------------------------------------------------------------------------------------
// UDT, enforce_order
// ------------------------------------------------------------------------------------------------
fam!(value_both V20 [flavor = "enforce_order"] { a: i32, b: String, c: bool });
fam!(value_both V21 [flavor = "enforce_order"] { a: Option<i32>, b: String, c: Option<i64>, d: f64 });
fam!(value_both V22 [flavor = "enforce_order"] { #[scylla(rename = "b")] a: i32, #[scylla(rename = "a")] b: i64, c: String });
fam!(value_both V23 [flavor = "enforce_order"] { a: i32, #[scylla(skip)] s: String, b: Option<String>, c: i64 });
fam!(value_both V24 [flavor = "enforce_order"] { a: i32, #[scylla(allow_missing)] b: Option<String>, c: i64, #[scylla(allow_missing)] d: bool });
fam!(value_both V25 [flavor = "enforce_order"] { a: i32, #[scylla(default_when_null)] b: String, #[scylla(default_when_null)] c: Option<i64>, d: Vec<i32> });
fam!(value_both V26 [flavor = "enforce_order", forbid_excess_udt_fields] { a: i32, b: String, c: Option<bool> });
fam!(value_both V27 [flavor = "enforce_order", skip_name_checks] { a: i32, b: String, c: bool });
fam!(value_both V28 [flavor = "enforce_order", skip_name_checks, forbid_excess_udt_fields] { a: i32, b: Option<String>, #[scylla(allow_missing)] c: i64, #[scylla(allow_missing)] d: bool });
fam!(value_both V29 [flavor = "enforce_order", skip_name_checks] { a: i32, b: i32, c: Option<i32>, d: String });
fam!(value_both V30 [flavor = "enforce_order"] { a: i32, b: i32, c: Option<i32>, d: String, e: String });
fam!(value_both V31 [flavor = "enforce_order"] { a: i32, b: Option<String>, c: bool, d: Option<i64>, e: f64, f: Vec<i32> });
fam!(value_both V32 [flavor = "enforce_order", forbid_excess_udt_fields] {
    #[scylla(allow_missing)] #[scylla(default_when_null)] a: i32,
    #[scylla(rename = "B")] b: Option<String>,
    #[scylla(skip)] s: i64,
    #[scylla(allow_missing)] c: bool,
    d: f64,
});
fam!(value_both V33 [flavor = "enforce_order", skip_name_checks] { a: i32, #[scylla(skip)] s: String, #[scylla(default_when_null)] b: i64, c: Option<String> });

// ------------------------------------------------------------------------------------------------
// rows, enforce_order
// ------------------------------------------------------------------------------------------------
fam!(row_both R20 [flavor = "enforce_order"] { a: i32, b: String, c: bool });
fam!(row_both R21 [flavor = "enforce_order"] { a: Option<i32>, b: String, c: Option<i64>, d: f64, e: Vec<i32> });
fam!(row_both R22 [flavor = "enforce_order"] { #[scylla(rename = "b")] a: i32, #[scylla(rename = "a")] b: i64, #[scylla(rename = "sea")] c: String });
fam!(row_both R23 [flavor = "enforce_order"] { a: i32, #[scylla(skip)] s: String, b: Option<String>, c: i64 });
fam!(row_both R24 [flavor = "enforce_order"] { a: i32, #[scylla(default_when_null)] b: String, #[scylla(default_when_null)] c: Option<i64>, d: Vec<i32> });
fam!(row_both R25 [flavor = "enforce_order", skip_name_checks] { a: i32, b: String, c: Option<bool> });
fam!(row_both R26 [flavor = "enforce_order", skip_name_checks] { a: i32, b: i32, c: Option<i32>, d: String });
fam!(row_both R27 [flavor = "enforce_order", skip_name_checks] { a: i32, #[scylla(skip)] s: String, #[scylla(default_when_null)] b: i64, c: Option<String> });
fam!(row_de R12 [] { #[scylla(default_when_null)] a: i32, #[scylla(rename = "bee")] b: Option<String>, #[scylla(skip)] s: f64, c: bool });
fam!(row_ser R13 [] { a: i32, #[scylla(rename = "bee")] b: Option<String>, #[scylla(skip)] s: f64, c: bool });

// ------------------------------------------------------------------------------------------------
// flatten (SerializeRow only). Inner structs are family members themselves.
// ------------------------------------------------------------------------------------------------
fam!(row_ser FIn1 [] { b: String, c: Option<i64> });
fam!(row_ser R08 [] { a: i32, #[scylla(flatten)] inner: FIn1, d: bool });
fam!(row_ser FIn2 [] { c: i64, #[scylla(rename = "dee")] d: String, #[scylla(skip)] s: i32 });
fam!(row_ser FMid [] { b: Option<String>, #[scylla(flatten)] inn: FIn2, e: bool });
// nested flatten, 6 leaves
fam!(row_ser R09 [] { a: i32, #[scylla(flatten)] mid: FMid, f: f64 });
fam!(row_ser FIn3 [] { x: i32, y: i32 });
// two flattened fields, first and last, same-typed leaves
fam!(row_ser R10 [] { #[scylla(flatten)] first: FIn1, a: i32, #[scylla(flatten)] second: FIn3 });
fam!(row_ser FOIn1 [flavor = "enforce_order"] { b: String, c: Option<i64> });
fam!(row_ser R28 [flavor = "enforce_order"] { a: i32, #[scylla(flatten)] inner: FOIn1, d: bool });
fam!(row_ser FOIn2 [flavor = "enforce_order", skip_name_checks] { p: i32, q: i32 });
fam!(row_ser R29 [flavor = "enforce_order", skip_name_checks] { a: i32, #[scylla(flatten)] inner: FOIn2, z: String });
fam!(row_ser FOMid [flavor = "enforce_order"] { a: i32, #[scylla(flatten)] i: FOIn1, d: bool });
fam!(row_ser R30 [flavor = "enforce_order"] { #[scylla(flatten)] m: FOMid, e: f64 });

pub fn family() -> Vec<Entry> {
    vec![
        V01::entry(),
        V02::entry(),
        V03::entry(),
        V04::entry(),
        V05::entry(),
        V06::entry(),
        V07::entry(),
        V08::entry(),
        V09::entry(),
        V10::entry(),
        V11::entry(),
        V12::entry(),
        V13::entry(),
        V14::entry(),
        V15::entry(),
        V16::entry(),
        V17::entry(),
        V18::entry(),
        V19::entry(),
        V35::entry(),
        V36::entry(),
        V37::entry(),
        V38::entry(),
        V39::entry(),
        R16::entry(),
        R17::entry(),
        R32::entry(),
        R15::entry(),
        R14::entry(),
        V34::entry(),
        R11::entry(),
        R31::entry(),
        V20::entry(),
        V21::entry(),
        V22::entry(),
        V23::entry(),
        V24::entry(),
        V25::entry(),
        V26::entry(),
        V27::entry(),
        V28::entry(),
        V29::entry(),
        V30::entry(),
        V31::entry(),
        V32::entry(),
        V33::entry(),
        R01::entry(),
        R02::entry(),
        R03::entry(),
        R04::entry(),
        R05::entry(),
        R06::entry(),
        R07::entry(),
        R08::entry(),
        R09::entry(),
        R10::entry(),
        R12::entry(),
        R13::entry(),
        R20::entry(),
        R21::entry(),
        R22::entry(),
        R23::entry(),
        R24::entry(),
        R25::entry(),
        R26::entry(),
        R27::entry(),
        R28::entry(),
        R29::entry(),
        R30::entry(),
        FIn1::entry(),
        FIn2::entry(),
        FIn3::entry(),
        FMid::entry(),
        FOIn1::entry(),
        FOIn2::entry(),
        FOMid::entry(),
    ]
}
