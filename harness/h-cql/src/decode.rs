//! C08 child side: drives the driver's whole response decode path on one frame
//! (`read_response_frame -> parse_response_body_extensions -> ResponseV2::deserialize ->
//! deserialize_metadata -> rows_iter` raw / dynamic / typed) and renders what it decoded as the
//! canonical text that `frames::expected_dump` predicts. Also the counting allocator's statics.

use crate::frames::{FEAT_LWT, FEAT_MID, FEAT_RATE, FEAT_TABLETS, RATE_LIMIT_CODE, p_hex};
use bytes::Bytes;
use scylla_cql::frame::protocol_features::ProtocolFeatures;
use scylla_cql::frame::request::query::PagingStateResponse;
use scylla_cql::frame::response::error::{DbError, OperationType};
use scylla_cql::frame::response::event::{ClientRoutesChangeEvent, Event, EventV2, SchemaChangeEvent, SchemaChangeType, StatusChangeEvent, TopologyChangeEvent};
use scylla_cql::frame::response::result::{self, CollectionType, ColumnSpec, ColumnType, NativeType, ResultMetadata};
use scylla_cql::frame::response::{Response, ResponseOpcode, ResponseV2};
use scylla_cql::frame::{Compression, parse_response_body_extensions, read_response_frame};
use scylla_cql::deserialize::row::ColumnIterator;
use scylla_cql::value::{CqlValue, Row};
use std::sync::Arc;
use std::sync::atomic::{AtomicBool, AtomicIsize, AtomicU32, AtomicUsize, Ordering};

// ---------------------------------------------------------------------------------------------
// counting allocator (installed with #[global_allocator] by the c08 binary only)
// ---------------------------------------------------------------------------------------------

pub static COUNTING: AtomicBool = AtomicBool::new(false);
pub static LIVE: AtomicIsize = AtomicIsize::new(0);
pub static BASE: AtomicIsize = AtomicIsize::new(0);
pub static PEAK: AtomicIsize = AtomicIsize::new(0);
pub static MAX_SINGLE: AtomicUsize = AtomicUsize::new(0);
/// per-case cap (64 KiB + 256 x input length); a request above it is reported on fd 1 before anything else happens
pub static CAP: AtomicUsize = AtomicUsize::new(usize::MAX);
/// requests above this are refused (null) no matter what the kernel would do
pub const HARD_REFUSE: usize = 64 << 20;
/// ... and so is any request once the live bytes of one decode exceed this (many medium-sized requests)
pub const HARD_REFUSE_TOTAL: isize = 256 << 20;
pub static CASE_IDX: AtomicU32 = AtomicU32::new(0);
pub static STAGE: AtomicU32 = AtomicU32::new(0);
pub static OVERSIZE_REPORTED: AtomicBool = AtomicBool::new(false);

pub struct CountingAlloc;

/// line "A <case> <stage> <size> <single|total> <site>\n" on fd 1. The site is the innermost driver
/// (or decompressor) function on the stack of the offending request, from a backtrace captured
/// here with counting switched off (the capture itself allocates).
fn report_oversize(size: usize, what: &str) {
    let was = COUNTING.swap(false, Ordering::Relaxed);
    // first the facts (so they survive whatever happens next), then the site from a backtrace
    let line = format!("\nA {} {} {} {} {}\n", CASE_IDX.load(Ordering::Relaxed), STAGE.load(Ordering::Relaxed), size, what, CAP.load(Ordering::Relaxed));
    unsafe {
        libc::write(1, line.as_ptr() as *const libc::c_void, line.len());
    }
    CAPTURING.store(true, Ordering::Relaxed);
    let bt = std::backtrace::Backtrace::force_capture().to_string();
    let mut site = String::new();
    for l in bt.lines() {
        let l = l.trim_start();
        // frame lines look like "12: path::to::function"
        let Some((num, sym)) = l.split_once(": ") else { continue };
        if !num.chars().all(|c| c.is_ascii_digit()) {
            continue;
        }
        let sym = sym.trim_start_matches('<');
        if ["scylla_cql::", "scylla_cql_core::", "lz4_flex::", "snap::"].iter().any(|p| sym.starts_with(p)) {
            let mut s: String = sym.chars().filter(|c| !c.is_whitespace()).collect();
            if let Some(i) = s.rfind("::h") {
                if s.len() - i == 19 && s[i + 3..].chars().all(|c| c.is_ascii_hexdigit()) {
                    s.truncate(i);
                }
            }
            site = s;
            break;
        }
    }
    if site.is_empty() {
        // the driver function was inlined into the harness: name the site by the decode stage
        site = format!("stage-{}", stage_name(STAGE.load(Ordering::Relaxed)));
    }
    let line = format!("\nB {} {}\n", CASE_IDX.load(Ordering::Relaxed), site);
    unsafe {
        libc::write(1, line.as_ptr() as *const libc::c_void, line.len());
    }
    CAPTURING.store(false, Ordering::Relaxed);
    COUNTING.store(was, Ordering::Relaxed);
}
/// set while the allocator symbolizes a backtrace (the per-case watchdog does not count that time)
pub static CAPTURING: AtomicBool = AtomicBool::new(false);

impl CountingAlloc {
    #[inline]
    fn account(&self, size: usize) -> bool {
        let live = LIVE.fetch_add(size as isize, Ordering::Relaxed) + size as isize;
        if COUNTING.load(Ordering::Relaxed) {
            MAX_SINGLE.fetch_max(size, Ordering::Relaxed);
            let above = live - BASE.load(Ordering::Relaxed);
            PEAK.fetch_max(above, Ordering::Relaxed);
            let cap = CAP.load(Ordering::Relaxed);
            if size > cap || above > cap as isize {
                if !OVERSIZE_REPORTED.swap(true, Ordering::Relaxed) {
                    report_oversize(if size > cap { size } else { above as usize }, if size > cap { "single" } else { "total" });
                }
                if size > HARD_REFUSE || above > HARD_REFUSE_TOTAL {
                    LIVE.fetch_sub(size as isize, Ordering::Relaxed);
                    return false;
                }
            }
        }
        true
    }
}

unsafe impl std::alloc::GlobalAlloc for CountingAlloc {
    unsafe fn alloc(&self, l: std::alloc::Layout) -> *mut u8 {
        if !self.account(l.size()) {
            return std::ptr::null_mut();
        }
        unsafe { std::alloc::System.alloc(l) }
    }
    unsafe fn alloc_zeroed(&self, l: std::alloc::Layout) -> *mut u8 {
        if !self.account(l.size()) {
            return std::ptr::null_mut();
        }
        unsafe { std::alloc::System.alloc_zeroed(l) }
    }
    unsafe fn dealloc(&self, p: *mut u8, l: std::alloc::Layout) {
        LIVE.fetch_sub(l.size() as isize, Ordering::Relaxed);
        unsafe { std::alloc::System.dealloc(p, l) }
    }
    unsafe fn realloc(&self, p: *mut u8, l: std::alloc::Layout, new_size: usize) -> *mut u8 {
        // accounted as a fresh request of the new size (that is what is being asked of the allocator)
        if !self.account(new_size) {
            return std::ptr::null_mut();
        }
        LIVE.fetch_sub(l.size() as isize, Ordering::Relaxed);
        unsafe { std::alloc::System.realloc(p, l, new_size) }
    }
}

pub fn counting_begin(case_idx: u32, input_len: usize) {
    CASE_IDX.store(case_idx, Ordering::Relaxed);
    STAGE.store(0, Ordering::Relaxed);
    MAX_SINGLE.store(0, Ordering::Relaxed);
    PEAK.store(0, Ordering::Relaxed);
    OVERSIZE_REPORTED.store(false, Ordering::Relaxed);
    CAP.store(alloc_cap(input_len), Ordering::Relaxed);
    BASE.store(LIVE.load(Ordering::Relaxed), Ordering::Relaxed);
    COUNTING.store(true, Ordering::Relaxed);
}
/// After decompression the reference length for "in proportion" is the decompressed body
/// (a compressed frame legitimately stands for up to 255x its size).
pub fn raise_cap_for(input_len: usize) {
    CAP.fetch_max(alloc_cap(input_len), Ordering::Relaxed);
}
pub fn counting_pause() -> bool {
    COUNTING.swap(false, Ordering::Relaxed)
}
pub fn counting_resume(was: bool) {
    COUNTING.store(was, Ordering::Relaxed);
}
pub fn alloc_cap(input_len: usize) -> usize {
    (64 << 10) + 256 * input_len
}

// ---------------------------------------------------------------------------------------------
// stages
// ---------------------------------------------------------------------------------------------

pub const STAGES: [&str; 9] = ["start", "frame", "ext", "body", "metadata", "rows-raw", "rows-dyn", "rows-typed", "event-v1"];
pub fn stage_name(i: u32) -> &'static str {
    STAGES.get(i as usize).copied().unwrap_or("?")
}
fn stage(i: u32) {
    STAGE.store(i, Ordering::Relaxed);
    // one short line per stage entered: the parent knows where a process that dies was
    let line = [b'S', b' ', b'0' + i as u8, b'\n'];
    unsafe {
        libc::write(1, line.as_ptr() as *const libc::c_void, line.len());
    }
}
pub static VERBOSE: AtomicBool = AtomicBool::new(false);

pub fn features_of(feat: u8) -> ProtocolFeatures {
    let mut f = ProtocolFeatures::default();
    if feat & FEAT_RATE != 0 {
        f.rate_limit_error = Some(RATE_LIMIT_CODE);
    }
    if feat & FEAT_LWT != 0 {
        f.lwt_optimization_meta_bit_mask = Some(0x8000_0000);
    }
    f.tablets_v1_supported = feat & FEAT_TABLETS != 0;
    f.scylla_metadata_id_supported = feat & FEAT_MID != 0;
    f
}

pub fn compression_of(c: u8) -> Option<Compression> {
    match c {
        1 => Some(Compression::Lz4),
        2 => Some(Compression::Snappy),
        _ => None,
    }
}

pub fn block_on<F: std::future::Future>(f: F) -> Option<F::Output> {
    let mut f = std::pin::pin!(f);
    let mut cx = std::task::Context::from_waker(std::task::Waker::noop());
    for _ in 0..100_000_000u64 {
        if let std::task::Poll::Ready(v) = f.as_mut().poll(&mut cx) {
            return Some(v);
        }
    }
    None
}

/// AsyncRead over a slice that hands out `chunk` bytes per poll and returns Pending between chunks (short reads)
pub struct ChunkReader<'a> {
    pub data: &'a [u8],
    pub chunk: usize,
    pub pending_next: bool,
}
impl tokio::io::AsyncRead for ChunkReader<'_> {
    fn poll_read(mut self: std::pin::Pin<&mut Self>, cx: &mut std::task::Context<'_>, buf: &mut tokio::io::ReadBuf<'_>) -> std::task::Poll<std::io::Result<()>> {
        if self.pending_next {
            self.pending_next = false;
            cx.waker().wake_by_ref();
            return std::task::Poll::Pending;
        }
        let n = self.chunk.min(self.data.len()).min(buf.remaining());
        let (a, b) = self.data.split_at(n);
        buf.put_slice(a);
        self.data = b;
        self.pending_next = true;
        std::task::Poll::Ready(Ok(()))
    }
}

// ---------------------------------------------------------------------------------------------
// canonical dump of what the driver decoded
// ---------------------------------------------------------------------------------------------

fn native_name(n: &NativeType) -> &'static str {
    match n {
        NativeType::Ascii => "ascii",
        NativeType::Boolean => "boolean",
        NativeType::Blob => "blob",
        NativeType::Counter => "counter",
        NativeType::Date => "date",
        NativeType::Decimal => "decimal",
        NativeType::Double => "double",
        NativeType::Duration => "duration",
        NativeType::Float => "float",
        NativeType::Int => "int",
        NativeType::BigInt => "bigint",
        NativeType::Text => "text",
        NativeType::Timestamp => "timestamp",
        NativeType::Inet => "inet",
        NativeType::SmallInt => "smallint",
        NativeType::TinyInt => "tinyint",
        NativeType::Time => "time",
        NativeType::Timeuuid => "timeuuid",
        NativeType::Uuid => "uuid",
        NativeType::Varint => "varint",
        _ => "?native",
    }
}

pub fn type_dump(t: &ColumnType) -> String {
    match t {
        ColumnType::Native(n) => native_name(n).to_string(),
        ColumnType::Collection { typ, .. } => match typ {
            CollectionType::List(e) => format!("list<{}>", type_dump(e)),
            CollectionType::Set(e) => format!("set<{}>", type_dump(e)),
            CollectionType::Map(k, v) => format!("map<{},{}>", type_dump(k), type_dump(v)),
            _ => "?collection".into(),
        },
        ColumnType::Vector { typ, dimensions } => format!("vector<{},{dimensions}>", type_dump(typ)),
        ColumnType::UserDefinedType { definition, .. } => format!("udt<{}.{}{{{}}}>", definition.keyspace, definition.name, definition.field_types.iter().map(|(f, t)| format!("{f}:{}", type_dump(t))).collect::<Vec<_>>().join(",")),
        ColumnType::Tuple(ts) => format!("tuple<{}>", ts.iter().map(type_dump).collect::<Vec<_>>().join(",")),
        _ => "?type".into(),
    }
}

fn dump_colspecs(cols: &[ColumnSpec], out: &mut String) {
    // (same abbreviation rules as frames::dump_colspecs: the text must stay small for huge metadata)
    for c in cols.iter().take(crate::frames::DUMP_MAX_COLS) {
        out.push_str(&format!("  col {}.{}.{} : {}\n", crate::frames::abbrev(c.table_spec().ks_name()), crate::frames::abbrev(c.table_spec().table_name()), crate::frames::abbrev(c.name()), type_dump(c.typ())));
    }
    if cols.len() > crate::frames::DUMP_MAX_COLS {
        out.push_str(&format!("  ... {} more columns\n", cols.len() - crate::frames::DUMP_MAX_COLS));
    }
}

pub fn value_dump(v: Option<&CqlValue>) -> String {
    let Some(v) = v else { return "null".into() };
    match v {
        CqlValue::Empty => "empty".into(),
        CqlValue::Int(i) => format!("int:{i}"),
        CqlValue::BigInt(i) => format!("bigint:{i}"),
        CqlValue::SmallInt(i) => format!("smallint:{i}"),
        CqlValue::TinyInt(i) => format!("tinyint:{i}"),
        CqlValue::Boolean(b) => format!("boolean:{b}"),
        CqlValue::Text(s) => format!("text:{}", p_hex(s.as_bytes())),
        CqlValue::Ascii(s) => format!("ascii:{}", p_hex(s.as_bytes())),
        CqlValue::Blob(b) => format!("blob:{}", p_hex(b)),
        CqlValue::List(l) | CqlValue::Set(l) => format!("[{}]", l.iter().map(|x| value_dump(Some(x))).collect::<Vec<_>>().join(",")),
        CqlValue::Map(m) => format!("{{{}}}", m.iter().map(|(k, v)| format!("{}={}", value_dump(Some(k)), value_dump(Some(v)))).collect::<Vec<_>>().join(",")),
        CqlValue::Tuple(t) => format!("({})", t.iter().map(|x| value_dump(x.as_ref())).collect::<Vec<_>>().join(",")),
        CqlValue::UserDefinedType { fields, .. } => format!("udt({})", fields.iter().map(|(f, x)| format!("{f}={}", value_dump(x.as_ref()))).collect::<Vec<_>>().join(",")),
        _ => "~".into(),
    }
}

fn schema_change_dump(s: &SchemaChangeEvent) -> String {
    let ct = |c: &SchemaChangeType| match c {
        SchemaChangeType::Created => "Created",
        SchemaChangeType::Updated => "Updated",
        SchemaChangeType::Dropped => "Dropped",
        SchemaChangeType::Invalid => "Invalid",
    };
    match s {
        SchemaChangeEvent::KeyspaceChange { change_type, keyspace_name } => format!("schema_change {} KEYSPACE ks={keyspace_name}", ct(change_type)),
        SchemaChangeEvent::TableChange { change_type, keyspace_name, object_name } => format!("schema_change {} TABLE ks={keyspace_name} name={object_name}", ct(change_type)),
        SchemaChangeEvent::TypeChange { change_type, keyspace_name, type_name } => format!("schema_change {} TYPE ks={keyspace_name} name={type_name}", ct(change_type)),
        SchemaChangeEvent::FunctionChange { change_type, keyspace_name, function_name, arguments } => format!("schema_change {} FUNCTION ks={keyspace_name} name={function_name} args={arguments:?}", ct(change_type)),
        SchemaChangeEvent::AggregateChange { change_type, keyspace_name, aggregate_name, arguments } => format!("schema_change {} AGGREGATE ks={keyspace_name} name={aggregate_name} args={arguments:?}", ct(change_type)),
    }
}

fn addr_dump(a: &std::net::SocketAddr) -> String {
    match a {
        std::net::SocketAddr::V4(v) => format!("{}:{}", v.ip(), v.port()),
        std::net::SocketAddr::V6(v) => format!("v6[{}]:{}", p_hex(&v.ip().octets()), v.port()),
    }
}

fn error_dump(e: &scylla_cql::frame::response::Error) -> String {
    let head = format!("ERROR reason={:?} ", e.reason);
    let body = match &e.error {
        DbError::SyntaxError => "SyntaxError".into(),
        DbError::Invalid => "Invalid".into(),
        DbError::AlreadyExists { keyspace, table } => format!("AlreadyExists ks={keyspace} table={table}"),
        DbError::FunctionFailure { keyspace, function, arg_types } => format!("FunctionFailure ks={keyspace} function={function} args={arg_types:?}"),
        DbError::AuthenticationError => "AuthenticationError".into(),
        DbError::Unauthorized => "Unauthorized".into(),
        DbError::ConfigError => "ConfigError".into(),
        DbError::Unavailable { consistency, required, alive } => format!("Unavailable cl={consistency:?} required={required} alive={alive}"),
        DbError::Overloaded => "Overloaded".into(),
        DbError::IsBootstrapping => "IsBootstrapping".into(),
        DbError::TruncateError => "TruncateError".into(),
        DbError::ReadTimeout { consistency, received, required, data_present } => format!("ReadTimeout cl={consistency:?} received={received} required={required} data_present={data_present}"),
        DbError::WriteTimeout { consistency, received, required, write_type } => format!("WriteTimeout cl={consistency:?} received={received} required={required} write_type={}", wt(write_type)),
        DbError::ReadFailure { consistency, received, required, numfailures, data_present } => format!("ReadFailure cl={consistency:?} received={received} required={required} numfailures={numfailures} data_present={data_present}"),
        DbError::WriteFailure { consistency, received, required, numfailures, write_type } => format!("WriteFailure cl={consistency:?} received={received} required={required} numfailures={numfailures} write_type={}", wt(write_type)),
        DbError::Unprepared { statement_id } => format!("Unprepared id={}", p_hex(statement_id)),
        DbError::ServerError => "ServerError".into(),
        DbError::ProtocolError => "ProtocolError".into(),
        DbError::RateLimitReached { op_type, rejected_by_coordinator } => format!(
            "RateLimitReached op={} rejected={rejected_by_coordinator}",
            match op_type {
                OperationType::Read => "Read".to_string(),
                OperationType::Write => "Write".to_string(),
                OperationType::Other(o) => format!("Other({o})"),
            }
        ),
        DbError::Other(c) => format!("Other({c})"),
        _ => "?dberror".into(),
    };
    head + &body
}

fn wt(w: &scylla_cql::frame::response::error::WriteType) -> String {
    use scylla_cql::frame::response::error::WriteType as W;
    match w {
        W::Other(s) => format!("Other({s})"),
        other => other.as_str().to_string(),
    }
}

fn event_v2_dump(e: &EventV2) -> String {
    match e {
        EventV2::TopologyChange(TopologyChangeEvent::NewNode(a)) => format!("EVENT topology NewNode {}", addr_dump(a)),
        EventV2::TopologyChange(TopologyChangeEvent::RemovedNode(a)) => format!("EVENT topology RemovedNode {}", addr_dump(a)),
        EventV2::StatusChange(StatusChangeEvent::Up(a)) => format!("EVENT status Up {}", addr_dump(a)),
        EventV2::StatusChange(StatusChangeEvent::Down(a)) => format!("EVENT status Down {}", addr_dump(a)),
        EventV2::SchemaChange(s) => format!("EVENT {}", schema_change_dump(s)),
        EventV2::ClientRoutesChange(ClientRoutesChangeEvent::UpdateNodes { connection_ids, host_ids }) => format!("EVENT routes conns={connection_ids:?} hosts={:?}", host_ids.iter().map(|h| h.to_string()).collect::<Vec<_>>()),
        _ => "EVENT ?".into(),
    }
}
fn event_v1_dump(e: &Event) -> String {
    match e {
        Event::TopologyChange(TopologyChangeEvent::NewNode(a)) => format!("EVENT topology NewNode {}", addr_dump(a)),
        Event::TopologyChange(TopologyChangeEvent::RemovedNode(a)) => format!("EVENT topology RemovedNode {}", addr_dump(a)),
        Event::StatusChange(StatusChangeEvent::Up(a)) => format!("EVENT status Up {}", addr_dump(a)),
        Event::StatusChange(StatusChangeEvent::Down(a)) => format!("EVENT status Down {}", addr_dump(a)),
        Event::SchemaChange(s) => format!("EVENT {}", schema_change_dump(s)),
    }
}

// ---------------------------------------------------------------------------------------------
// the decode pipeline
// ---------------------------------------------------------------------------------------------

pub const OPT_TYPED: u8 = 1;
pub const OPT_CHUNKED: u8 = 2;

#[derive(Debug, Default)]
pub struct Decoded {
    /// last stage entered
    pub stage: u32,
    /// true if every stage returned Ok
    pub all_ok: bool,
    /// canonical text (for all-Ok runs comparable with frames::expected_dump); errors appear as `ERR@stage ...`
    pub dump: String,
    /// number of (typed target) x (frame) combinations that passed type_check and were iterated
    pub typed_targets_passed: u32,
    pub rows_seen: u32,
}

/// how many rows the harness pulls from an iterator before it stops (iteration is consumer-driven; every step is checked)
pub const MAX_ROWS_PULLED: usize = 4096;

/// hex without intermediate Strings
fn push_hex(out: &mut String, b: &[u8]) {
    const H: &[u8; 16] = b"0123456789abcdef";
    for x in b {
        out.push(H[(x >> 4) as usize] as char);
        out.push(H[(x & 15) as usize] as char);
    }
}
fn out(d: &mut Decoded, s: &str) {
    let was = counting_pause();
    d.dump.push_str(s);
    d.dump.push('\n');
    counting_resume(was);
}
fn err(d: &mut Decoded, st: &str, e: &dyn std::fmt::Display) {
    let was = counting_pause();
    d.all_ok = false;
    let mut t = e.to_string();
    t.truncate(300);
    d.dump.push_str(&format!("ERR@{st} {t}\n"));
    counting_resume(was);
}

/// Build the cached result metadata from a Rows *body* that carries full metadata (not part of the measured decode).
pub fn cached_metadata_from(body: &[u8], feat: u8) -> Option<Arc<ResultMetadata<'static>>> {
    let f = features_of(feat);
    match result::deserialize_with_features(Bytes::copy_from_slice(body), None, &f).ok()? {
        result::Result::Rows((raw, _)) => Some(raw.deserialize_metadata().ok()?.into_metadata().make_owned_arced()),
        _ => None,
    }
}

/// Run the whole pipeline on one frame. Panics propagate to the caller (which catches and classifies them).
/// `dump_buf`: a cleared String whose capacity was reserved *outside* the measured window (the canonical text
/// is harness memory and must not show up as live bytes of the decode).
pub fn decode(frame: &[u8], comp: u8, feat: u8, opts: u8, cached: Option<&Arc<ResultMetadata<'static>>>, dump_buf: String) -> Decoded {
    let mut d = Decoded { all_ok: true, dump: dump_buf, ..Default::default() };
    let features = features_of(feat);
    // ---- 1. frame
    d.stage = 1;
    stage(1);
    let read = if opts & OPT_CHUNKED != 0 {
        let mut rd = ChunkReader { data: frame, chunk: 3, pending_next: false };
        block_on(read_response_frame(&mut rd))
    } else {
        let mut rd: &[u8] = frame;
        block_on(read_response_frame(&mut rd))
    };
    let (params, opcode, body) = match read {
        None => {
            err(&mut d, "frame", &"future never completed");
            return d;
        }
        Some(Err(e)) => {
            err(&mut d, "frame", &e);
            return d;
        }
        Some(Ok(x)) => x,
    };
    out(&mut d, &format!("frame stream={} opcode={:#04x}", params.stream, opcode as u8));
    // ---- 2. extensions
    d.stage = 2;
    stage(2);
    let ext = match parse_response_body_extensions(params.flags, compression_of(comp), body) {
        Err(e) => {
            err(&mut d, "ext", &e);
            return d;
        }
        Ok(x) => x,
    };
    raise_cap_for(frame.len().max(ext.body.len()));
    {
        let was = counting_pause();
        let payload = match &ext.custom_payload {
            None => "none".to_string(),
            Some(p) => {
                let m: std::collections::BTreeMap<String, String> = p.iter().map(|(k, v)| (k.clone(), p_hex(v))).collect();
                format!("{m:?}")
            }
        };
        d.dump.push_str(&format!("ext trace={} warnings={:?} payload={payload}\n", ext.trace_id.map(|t| p_hex(t.as_bytes())).unwrap_or("none".into()), ext.warnings));
        counting_resume(was);
    }
    // ---- 8. legacy event parser on the same body (Response::deserialize differs from V2 only there)
    let mut v1_line: Option<String> = None;
    if opcode == ResponseOpcode::Event {
        stage(8);
        let r1 = Response::deserialize(&features, opcode, ext.body.clone(), cached);
        let was = counting_pause();
        v1_line = match &r1 {
            Ok(Response::Event(e)) => Some(event_v1_dump(e)),
            _ => None,
        };
        drop(r1);
        counting_resume(was);
    }
    // ---- 3. body
    d.stage = 3;
    stage(3);
    let resp = match ResponseV2::deserialize(&features, opcode, ext.body, cached) {
        Err(e) => {
            err(&mut d, "body", &e);
            return d;
        }
        Ok(r) => r,
    };
    match resp {
        ResponseV2::Ready => out(&mut d, "READY"),
        ResponseV2::Authenticate(a) => out(&mut d, &format!("AUTHENTICATE {:?}", a.authenticator_name)),
        ResponseV2::AuthChallenge(a) => out(&mut d, &format!("AUTH_CHALLENGE {}", a.authenticate_message.as_ref().map(|x| p_hex(x)).unwrap_or("null".into()))),
        ResponseV2::AuthSuccess(a) => out(&mut d, &format!("AUTH_SUCCESS {}", a.success_message.as_ref().map(|x| p_hex(x)).unwrap_or("null".into()))),
        ResponseV2::Supported(s) => {
            let was = counting_pause();
            let m: std::collections::BTreeMap<&String, &Vec<String>> = s.options.iter().collect();
            d.dump.push_str(&format!("SUPPORTED {m:?}\n"));
            // what the driver derives from it must not crash either
            counting_resume(was);
            let _ = ProtocolFeatures::parse_from_supported(&s.options);
        }
        ResponseV2::Error(e) => out(&mut d, &error_dump(&e)),
        ResponseV2::Event(e) => {
            let l2 = event_v2_dump(&e);
            if let Some(l1) = v1_line.take() {
                if l1 != l2 {
                    out(&mut d, &format!("legacy Event parser disagrees: {l1}"));
                }
            }
            out(&mut d, &l2)
        }
        ResponseV2::Result(res) => {
            // ---- 4. metadata
            d.stage = 4;
            stage(4);
            let res = match res.deserialize_metadata() {
                Err(e) => {
                    err(&mut d, "metadata", &e);
                    return d;
                }
                Ok(r) => r,
            };
            match res {
                result::ResultWithDeserializedMetadata::Void => out(&mut d, "RESULT void"),
                result::ResultWithDeserializedMetadata::SetKeyspace(k) => out(&mut d, &format!("RESULT set_keyspace {:?}", k.keyspace_name)),
                result::ResultWithDeserializedMetadata::SchemaChange(s) => out(&mut d, &format!("RESULT {}", schema_change_dump(&s.event))),
                result::ResultWithDeserializedMetadata::Prepared(p) => {
                    let was = counting_pause();
                    d.dump.push_str(&format!("RESULT prepared id={} result_metadata_id={}\n", p_hex(&p.id), p.result_metadata.id().map(p_hex).unwrap_or("none".into())));
                    let pk: Vec<(u16, u16)> = p.prepared_metadata.pk_indexes.iter().map(|x| (x.index, x.sequence)).collect();
                    d.dump.push_str(&format!(" prepared_meta flags={} col_count={} pk={pk:?}\n", p.prepared_metadata.flags, p.prepared_metadata.col_count));
                    dump_colspecs(&p.prepared_metadata.col_specs, &mut d.dump);
                    d.dump.push_str(&format!(" result_meta col_count={}\n", p.result_metadata.col_count()));
                    dump_colspecs(p.result_metadata.col_specs(), &mut d.dump);
                    counting_resume(was);
                }
                result::ResultWithDeserializedMetadata::Rows((rows, paging)) => {
                    {
                        let was = counting_pause();
                        d.dump.push_str("RESULT rows\n");
                        let pg = match &paging {
                            PagingStateResponse::NoMorePages => "none".to_string(),
                            PagingStateResponse::HasMorePages { state } => state.as_bytes_slice().map(|b| p_hex(b)).unwrap_or("start".into()),
                        };
                        d.dump.push_str(&format!(" paging={pg}\n"));
                        let m = rows.metadata();
                        d.dump.push_str(&format!(" meta id={} col_count={}\n", m.id().map(p_hex).unwrap_or("none".into()), m.col_count()));
                        dump_colspecs(m.col_specs(), &mut d.dump);
                        d.dump.push_str(&format!(" rows_count={}\n", rows.rows_count()));
                        counting_resume(was);
                    }
                    // ---- 5. raw rows
                    d.stage = 5;
                    stage(5);
                    match rows.rows_iter::<ColumnIterator>() {
                        Err(e) => err(&mut d, "rows-raw", &e),
                        Ok(it) => {
                            let mut pulled = 0usize;
                            'rows: for r in it {
                                pulled += 1;
                                if pulled > MAX_ROWS_PULLED {
                                    out(&mut d, "  raw ...");
                                    break;
                                }
                                match r {
                                    Err(e) => {
                                        err(&mut d, "rows-raw", &e);
                                        break;
                                    }
                                    Ok(cols) => {
                                        d.dump.push_str("  raw");
                                        for c in cols {
                                            match c {
                                                Err(e) => {
                                                    d.dump.push('\n');
                                                    err(&mut d, "rows-raw", &e);
                                                    break 'rows;
                                                }
                                                Ok(rc) => {
                                                    let was = counting_pause();
                                                    d.dump.push(' ');
                                                    match rc.slice {
                                                        None => d.dump.push_str("null"),
                                                        Some(sl) => push_hex(&mut d.dump, sl.as_slice()),
                                                    }
                                                    counting_resume(was);
                                                }
                                            }
                                        }
                                        d.dump.push('\n');
                                        d.rows_seen += 1;
                                    }
                                }
                            }
                        }
                    }
                    // ---- 6. dynamic rows
                    d.stage = 6;
                    stage(6);
                    match rows.rows_iter::<Row>() {
                        Err(e) => err(&mut d, "rows-dyn", &e),
                        Ok(it) => {
                            let mut pulled = 0usize;
                            for r in it {
                                pulled += 1;
                                if pulled > MAX_ROWS_PULLED {
                                    out(&mut d, "  val ...");
                                    break;
                                }
                                match r {
                                    Err(e) => {
                                        err(&mut d, "rows-dyn", &e);
                                        break;
                                    }
                                    Ok(row) => {
                                        let was = counting_pause();
                                        let mut line = String::from("  val");
                                        for c in &row.columns {
                                            line.push(' ');
                                            line.push_str(&value_dump(c.as_ref()));
                                        }
                                        d.dump.push_str(&line);
                                        d.dump.push('\n');
                                        counting_resume(was);
                                    }
                                }
                            }
                        }
                    }
                    // ---- 7. typed rows
                    if opts & OPT_TYPED != 0 {
                        d.stage = 7;
                        stage(7);
                        d.typed_targets_passed = crate::typed::run_typed(&rows);
                    }
                }
            }
        }
        _ => out(&mut d, "?response"),
    }
    d
}
