//! C16 helpers: drive the derived (De)Serialize{Value,Row} impls of a family struct from reference
//! values (`cqlref::binder::Val`) and a database-side field list, with panics caught.
use bytes::Bytes;
use cqlref::binder::{Cell, DbField, Kind, Leaf, Model, Val};
use scylla_cql::deserialize::FrameSlice;
use scylla_cql::deserialize::row::{ColumnIterator, DeserializeRow};
use scylla_cql::deserialize::value::DeserializeValue;
use scylla_cql::frame::response::result::{CollectionType, ColumnSpec, ColumnType, NativeType, TableSpec, UserDefinedType};
use scylla_cql::serialize::row::{RowSerializationContext, SerializeRow};
use scylla_cql::serialize::value::SerializeValue;
use scylla_cql::serialize::writers::{CellWriter, RowWriter};
use serde_json::{Value, json};
use std::panic::AssertUnwindSafe;
use std::sync::Arc;

/// A Rust type usable as a field of a family struct: a single cell carrier, or (for `flatten`) a family struct.
pub trait FieldTy: Sized {
    /// `Some((kind, is_option))` for a cell carrier, `None` for a struct.
    fn cell() -> Option<(Kind, bool)>;
    /// leaves of a struct type (empty for cell carriers)
    fn struct_leaves() -> Vec<Leaf> {
        Vec::new()
    }
    /// the model of a family struct (used when the struct is a nested UDT field)
    fn struct_model() -> Option<Model> {
        None
    }
    /// `flat`: the field is `#[scylla(flatten)]` - the struct's leaves are taken inline from `vals`;
    /// otherwise a struct-typed field is a nested UDT and takes one `Val::Udt` (or `Val::Null`).
    fn from_vals(vals: &mut std::slice::Iter<'_, Val>, flat: bool) -> Self;
    fn to_vals(&self, out: &mut Vec<Val>, flat: bool);
}

macro_rules! cell_ty {
    ($t:ty, $kind:ident, $v:ident => $from:expr, $s:ident => $to:expr) => {
        impl FieldTy for $t {
            fn cell() -> Option<(Kind, bool)> {
                Some((Kind::$kind, false))
            }
            fn from_vals(vals: &mut std::slice::Iter<'_, Val>, _flat: bool) -> Self {
                match vals.next() {
                    Some(Val::$kind($v)) => $from,
                    other => panic!("harness: {} leaf fed with {:?}", stringify!($t), other),
                }
            }
            fn to_vals(&self, out: &mut Vec<Val>, _flat: bool) {
                let $s = self;
                out.push(Val::$kind($to));
            }
        }
        impl FieldTy for Option<$t> {
            fn cell() -> Option<(Kind, bool)> {
                Some((Kind::$kind, true))
            }
            fn from_vals(vals: &mut std::slice::Iter<'_, Val>, _flat: bool) -> Self {
                match vals.next() {
                    Some(Val::Null) => None,
                    Some(Val::$kind($v)) => Some($from),
                    other => panic!("harness: Option<{}> leaf fed with {:?}", stringify!($t), other),
                }
            }
            fn to_vals(&self, out: &mut Vec<Val>, _flat: bool) {
                match self {
                    None => out.push(Val::Null),
                    Some($s) => out.push(Val::$kind($to)),
                }
            }
        }
    };
}
cell_ty!(i32, Int, v => *v, s => *s);
cell_ty!(String, Text, v => v.clone(), s => s.clone());
cell_ty!(bool, Boolean, v => *v, s => *s);
cell_ty!(i64, BigInt, v => *v, s => *s);
cell_ty!(f64, Double, v => f64::from_bits(*v), s => s.to_bits());
cell_ty!(Vec<i32>, ListInt, v => v.clone(), s => s.clone());

#[derive(Debug)]
pub enum Out<T> {
    Ok(T),
    /// (phase, message): phase is "typeck", "deser" or "ser"
    Err(&'static str, String),
    Panic(String),
}

impl<T> Out<T> {
    pub fn class(&self) -> &'static str {
        match self {
            Out::Ok(_) => "ok",
            Out::Err(p, _) => p,
            Out::Panic(_) => "panic",
        }
    }
}

pub fn guard<T>(f: impl FnOnce() -> Out<T>) -> Out<T> {
    match vcore::catch(AssertUnwindSafe(f)) {
        Ok(o) => o,
        Err(p) => Out::Panic(format!("{p} at {}", vcore::last_panic_location())),
    }
}

/// FNV of the field names: decides `frozen` so that both settings occur (the derives must not care).
fn frozen_for(db: &[DbField]) -> bool {
    vcore::fnv64(db.iter().map(|f| f.name.as_str()).collect::<Vec<_>>().join(",").as_bytes()) & 1 == 1
}

pub fn column_type(f: &DbField) -> ColumnType<'static> {
    match f.kind {
        Kind::Udt => ColumnType::UserDefinedType {
            frozen: !frozen_for(&f.fields),
            definition: Arc::new(UserDefinedType {
                name: "nested".into(),
                keyspace: "ks".into(),
                field_types: f.fields.iter().map(|g| (g.name.clone().into(), column_type(g))).collect(),
            }),
        },
        Kind::Int => ColumnType::Native(NativeType::Int),
        Kind::Text => ColumnType::Native(NativeType::Text),
        Kind::Boolean => ColumnType::Native(NativeType::Boolean),
        Kind::BigInt => ColumnType::Native(NativeType::BigInt),
        Kind::Double => ColumnType::Native(NativeType::Double),
        Kind::ListInt => ColumnType::Collection { frozen: false, typ: CollectionType::List(Box::new(ColumnType::Native(NativeType::Int))) },
    }
}

pub fn udt_type(db: &[DbField]) -> ColumnType<'static> {
    ColumnType::UserDefinedType {
        frozen: frozen_for(db),
        definition: Arc::new(UserDefinedType {
            name: "udt".into(),
            keyspace: "ks".into(),
            field_types: db.iter().map(|f| (f.name.clone().into(), column_type(f))).collect(),
        }),
    }
}

pub fn column_specs(db: &[DbField]) -> Vec<ColumnSpec<'static>> {
    db.iter().map(|f| ColumnSpec::owned(f.name.clone(), column_type(f), TableSpec::owned("ks".into(), "tbl".into()))).collect()
}

/// SerializeValue through a CellWriter; returns the UDT *body* (the outer length prefix is verified and stripped).
pub fn ser_value_drv<T: FieldTy + SerializeValue>(vals: &[Val], typ: &ColumnType<'static>) -> Out<Vec<u8>> {
    let t = T::from_vals(&mut vals.iter(), true);
    guard(|| {
        let mut buf = Vec::new();
        let w = CellWriter::new(&mut buf);
        match t.serialize(typ, w) {
            Ok(_) => {
                if buf.len() < 4 {
                    return Out::Err("framing", format!("cell of {} bytes", buf.len()));
                }
                let len = i32::from_be_bytes(buf[0..4].try_into().unwrap());
                if len < 0 || len as usize != buf.len() - 4 {
                    return Out::Err("framing", format!("cell length prefix {len} for {} body bytes", buf.len() - 4));
                }
                Out::Ok(buf[4..].to_vec())
            }
            Err(e) => Out::Err("ser", e.to_string()),
        }
    })
}

/// `body` None = the UDT value itself is null.
pub fn de_value_drv<T>(typ: &ColumnType<'static>, body: Option<&Bytes>) -> Out<Vec<Val>>
where
    T: FieldTy + for<'f, 'm> DeserializeValue<'f, 'm>,
{
    guard(|| {
        if let Err(e) = <T as DeserializeValue<'_, '_>>::type_check(typ) {
            return Out::Err("typeck", e.to_string());
        }
        match <T as DeserializeValue<'_, '_>>::deserialize(typ, body.map(FrameSlice::new)) {
            Ok(t) => {
                let mut out = Vec::new();
                t.to_vals(&mut out, true);
                Out::Ok(out)
            }
            Err(e) => Out::Err("deser", e.to_string()),
        }
    })
}

pub fn ser_row_drv<T: FieldTy + SerializeRow>(vals: &[Val], specs: &[ColumnSpec<'static>]) -> Out<Vec<u8>> {
    let t = T::from_vals(&mut vals.iter(), true);
    guard(|| {
        let ctx = RowSerializationContext::from_specs(specs);
        let mut buf = Vec::new();
        let mut w = RowWriter::new(&mut buf);
        match t.serialize(&ctx, &mut w) {
            Ok(()) => {
                let count = w.value_count();
                match check_from_serializable(&t, &ctx, &buf, count) {
                    Ok(()) => Out::Ok(buf),
                    Err(why) => Out::Err("framing", why),
                }
            }
            Err(e) => Out::Err("ser", e.to_string()),
        }
    })
}

/// The other public way to serialize a row: `SerializedValues::from_serializable`. Must hold the same cells.
pub fn check_from_serializable<T: SerializeRow>(t: &T, ctx: &RowSerializationContext<'_>, direct: &[u8], direct_count: usize) -> Result<(), String> {
    use scylla_cql::frame::types::RawValue;
    let sv = scylla_cql::serialize::row::SerializedValues::from_serializable(ctx, t).map_err(|e| format!("serialize() succeeded but SerializedValues::from_serializable failed: {e}"))?;
    let mut again = Vec::new();
    for v in sv.iter() {
        match v {
            RawValue::Null => cqlref::binder::write_cell(&mut again, None),
            RawValue::Unset => return Err("from_serializable produced an unset value".into()),
            RawValue::Value(b) => cqlref::binder::write_cell(&mut again, Some(b)),
        }
    }
    if again != direct || sv.element_count() as usize != direct_count {
        return Err(format!("SerializedValues::from_serializable holds {} values / {} bytes, direct serialization wrote {} values / {} bytes", sv.element_count(), again.len(), direct_count, direct.len()));
    }
    Ok(())
}

pub fn is_empty_drv<T: FieldTy + SerializeRow>(vals: &[Val]) -> bool {
    T::from_vals(&mut vals.iter(), true).is_empty()
}

pub fn de_row_drv<T>(specs: &[ColumnSpec<'static>], body: &Bytes) -> Out<Vec<Val>>
where
    T: FieldTy + for<'f, 'm> DeserializeRow<'f, 'm>,
{
    guard(|| {
        if let Err(e) = <T as DeserializeRow<'_, '_>>::type_check(specs) {
            return Out::Err("typeck", e.to_string());
        }
        match <T as DeserializeRow<'_, '_>>::deserialize(ColumnIterator::new(specs, FrameSlice::new(body))) {
            Ok(t) => {
                let mut out = Vec::new();
                t.to_vals(&mut out, true);
                Out::Ok(out)
            }
            Err(e) => Out::Err("deser", e.to_string()),
        }
    })
}

pub type SerValueFn = fn(&[Val], &ColumnType<'static>) -> Out<Vec<u8>>;
pub type DeValueFn = fn(&ColumnType<'static>, Option<&Bytes>) -> Out<Vec<Val>>;
pub type IsEmptyFn = fn(&[Val]) -> bool;
pub type SerRowFn = fn(&[Val], &[ColumnSpec<'static>]) -> Out<Vec<u8>>;
pub type DeRowFn = fn(&[ColumnSpec<'static>], &Bytes) -> Out<Vec<Val>>;

/// One struct of the family, type-erased.
pub struct Entry {
    pub name: &'static str,
    /// the struct's source text (attributes included), for evidence samples
    pub source: &'static str,
    pub model: Model,
    pub ser_value: Option<SerValueFn>,
    pub de_value: Option<DeValueFn>,
    pub ser_row: Option<SerRowFn>,
    pub de_row: Option<DeRowFn>,
    /// SerializeRow::is_empty of a value built from the given leaves
    pub is_empty: Option<IsEmptyFn>,
}

// ---- attribute text -> model (single source of truth: the tokens that are also handed to the derive) ----

#[derive(Default, Debug, Clone)]
pub struct FieldAttrs {
    pub rename: Option<String>,
    pub skip: bool,
    pub allow_missing: bool,
    pub default_when_null: bool,
    pub flatten: bool,
}

fn split_attr_list(s: &str) -> Vec<String> {
    s.split(',').map(|p| p.trim().to_string()).filter(|p| !p.is_empty()).collect()
}

pub fn parse_field_attrs(attr_texts: &[&str]) -> FieldAttrs {
    let mut a = FieldAttrs::default();
    for text in attr_texts {
        for item in split_attr_list(text) {
            let (key, val) = match item.split_once('=') {
                Some((k, v)) => (k.trim().to_string(), Some(v.trim().trim_matches('"').to_string())),
                None => (item.clone(), None),
            };
            match (key.as_str(), val) {
                ("rename", Some(v)) => a.rename = Some(v),
                ("skip", None) => a.skip = true,
                ("allow_missing", None) => a.allow_missing = true,
                ("default_when_null", None) => a.default_when_null = true,
                ("flatten", None) => a.flatten = true,
                other => panic!("harness: unknown field attribute {other:?}"),
            }
        }
    }
    a
}

pub fn parse_struct_attrs(text: &str) -> (cqlref::binder::Flavor, bool, bool) {
    let mut flavor = cqlref::binder::Flavor::ByName;
    let (mut skip_name_checks, mut forbid) = (false, false);
    for item in split_attr_list(text) {
        let (key, val) = match item.split_once('=') {
            Some((k, v)) => (k.trim().to_string(), Some(v.trim().trim_matches('"').to_string())),
            None => (item.clone(), None),
        };
        match (key.as_str(), val.as_deref()) {
            ("flavor", Some("enforce_order")) => flavor = cqlref::binder::Flavor::Ordered,
            ("flavor", Some("match_by_name")) => flavor = cqlref::binder::Flavor::ByName,
            ("skip_name_checks", None) => skip_name_checks = true,
            ("forbid_excess_udt_fields", None) => forbid = true,
            other => panic!("harness: unknown struct attribute {other:?}"),
        }
    }
    (flavor, skip_name_checks, forbid)
}

/// Append the leaves one struct field contributes.
pub fn push_field_leaves(leaves: &mut Vec<Leaf>, rust_name: &str, attr_texts: &[&str], cell: Option<(Kind, bool)>, inner: Vec<Leaf>, model: Option<Model>) {
    let a = parse_field_attrs(attr_texts);
    if a.flatten {
        assert!(cell.is_none(), "harness: flatten on a cell field");
        leaves.extend(inner);
        return;
    }
    // a struct-typed field without flatten is a nested UDT (cell() of `Option<Struct>` says (Udt, true))
    let (kind, optional) = cell.unwrap_or((Kind::Udt, false));
    let nested = if kind == Kind::Udt { Some(Box::new(model.expect("harness: nested field type without a model"))) } else { None };
    leaves.push(Leaf {
        nested,
        rust_name: rust_name.to_string(),
        db_name: a.rename.clone().unwrap_or_else(|| rust_name.to_string()),
        kind,
        optional,
        skip: a.skip,
        allow_missing: a.allow_missing,
        default_when_null: a.default_when_null,
    });
}

pub fn is_flat(attr_texts: &[&str]) -> bool {
    parse_field_attrs(attr_texts).flatten
}

// ---- JSON for replay artefacts ----

pub fn val_to_json(v: &Val) -> Value {
    match v {
        Val::Null => Value::Null,
        Val::Int(x) => json!({"int": x}),
        Val::Text(s) => json!({"text": s}),
        Val::Boolean(b) => json!({"boolean": b}),
        Val::BigInt(x) => json!({"bigint": x.to_string()}),
        Val::Double(bits) => json!({"double_bits": format!("{bits:016x}"), "approx": f64::from_bits(*bits).to_string()}),
        Val::ListInt(xs) => json!({"list": xs}),
        Val::Udt(vs) => json!({"udt": vs.iter().map(val_to_json).collect::<Vec<_>>()}),
    }
}

pub fn val_from_json(j: &Value) -> Val {
    if j.is_null() {
        return Val::Null;
    }
    if let Some(x) = j.get("int") {
        return Val::Int(x.as_i64().unwrap() as i32);
    }
    if let Some(x) = j.get("text") {
        return Val::Text(x.as_str().unwrap().to_string());
    }
    if let Some(x) = j.get("boolean") {
        return Val::Boolean(x.as_bool().unwrap());
    }
    if let Some(x) = j.get("bigint") {
        return Val::BigInt(x.as_str().unwrap().parse().unwrap());
    }
    if let Some(x) = j.get("double_bits") {
        return Val::Double(u64::from_str_radix(x.as_str().unwrap(), 16).unwrap());
    }
    if let Some(x) = j.get("udt") {
        return Val::Udt(x.as_array().unwrap().iter().map(val_from_json).collect());
    }
    if let Some(x) = j.get("list") {
        return Val::ListInt(x.as_array().unwrap().iter().map(|e| e.as_i64().unwrap() as i32).collect());
    }
    vcore::machinery_error(&format!("bad value in replay case: {j}"))
}

pub fn cell_to_json(c: &Cell) -> Value {
    match c {
        Cell::Absent => json!("absent"),
        Cell::Null => Value::Null,
        Cell::Value(v) => val_to_json(v),
        Cell::Udt(cs) => json!({"udt_cells": cs.iter().map(cell_to_json).collect::<Vec<_>>()}),
    }
}

pub fn cell_from_json(j: &Value) -> Cell {
    if j.as_str() == Some("absent") {
        Cell::Absent
    } else if j.is_null() {
        Cell::Null
    } else if let Some(x) = j.get("udt_cells") {
        Cell::Udt(x.as_array().unwrap().iter().map(cell_from_json).collect())
    } else {
        Cell::Value(val_from_json(j))
    }
}

pub fn db_to_json(db: &[DbField]) -> Value {
    Value::Array(db.iter().map(|f| if f.kind == Kind::Udt { json!([f.name, f.kind.name(), db_to_json(&f.fields)]) } else { json!([f.name, f.kind.name()]) }).collect())
}

pub fn db_from_json(j: &Value) -> Vec<DbField> {
    j.as_array()
        .unwrap_or_else(|| vcore::machinery_error("replay case without db list"))
        .iter()
        .map(|e| DbField { name: e[0].as_str().unwrap().to_string(), kind: Kind::from_name(e[1].as_str().unwrap()).unwrap(), fields: if e.get(2).is_some_and(|x| x.is_array()) { db_from_json(&e[2]) } else { Vec::new() } })
        .collect()
}
