//! Shared helpers for the scylla-cql level checks (bins under src/bin).
