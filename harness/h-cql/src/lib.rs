//! Shared helpers for the scylla-cql level checks (bins under src/bin).
pub mod c16_drive; // C16: drivers for the derived impls, attribute text -> model
pub mod c16_family; // C16: the fixed struct family
pub mod decode; // C08: counting allocator + the driver's decode pipeline and canonical dump (child side)
pub mod frames; // C08: response corpus from cqlref::proto::resp, expected dumps, deviations
pub mod typed; // C08: typed row targets
