//! Shared helpers for the scylla-cql level checks (bins under src/bin).
pub mod c01dyn; // C01 leg dyn: (type, value) x CqlValue vs cqlref::value
pub mod c16_drive; // C16: drivers for the derived impls, attribute text -> model
pub mod c16_family; // C16: the fixed struct family
pub mod dynconv; // C01/C17: reference <-> ColumnType/CqlValue conversions, serialize/deserialize drivers
pub mod types; // C01/C17: enumerated column-type space
pub mod values; // C01/C17: value alphabets, JSON forms
