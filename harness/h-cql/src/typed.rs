//! C08: typed row targets. For a decoded Rows result, try every target tuple of the alphabet below;
//! those that pass `type_check` are iterated over all rows (each step must return Ok or Err).
use scylla_cql::deserialize::row::DeserializeRow;
use scylla_cql::frame::response::result::DeserializedMetadataAndRawRows;
use scylla_cql::value::{Counter, CqlDate, CqlDecimal, CqlDecimalBorrowed, CqlDuration, CqlTime, CqlTimestamp, CqlTimeuuid, CqlValue, CqlVarint, CqlVarintBorrowed, MaybeEmpty};
use std::collections::{BTreeMap, BTreeSet, HashMap, HashSet};
use std::net::IpAddr;

fn try_one<'f, 'm, R: DeserializeRow<'f, 'm>>(rows: &'f DeserializedMetadataAndRawRows) -> u32
where
    'f: 'm,
{
    match rows.rows_iter::<R>() {
        Err(_) => 0,
        Ok(it) => {
            for (i, r) in it.enumerate() {
                if r.is_err() || i >= crate::decode::MAX_ROWS_PULLED {
                    break;
                }
            }
            1
        }
    }
}

/// Returns how many targets passed type_check for this result's column types.
pub fn run_typed(rows: &DeserializedMetadataAndRawRows) -> u32 {
    let ncols = rows.metadata().col_specs().len();
    let mut n = 0u32;
    macro_rules! t1 {
        ($($t:ty),* $(,)?) => { $( n += try_one::<($t,)>(rows); )* };
    }
    macro_rules! t2 {
        ($(($a:ty, $b:ty)),* $(,)?) => { $( n += try_one::<($a, $b)>(rows); )* };
    }
    match ncols {
        0 => {
            n += try_one::<()>(rows);
        }
        1 => {
            t1!(
                i8, i16, i32, i64, f32, f64, bool, String, &str, Box<str>, Vec<u8>, &[u8], bytes::Bytes, uuid::Uuid, CqlTimeuuid, IpAddr,
                CqlDate, CqlTime, CqlTimestamp, CqlDuration, CqlDecimal, CqlDecimalBorrowed, CqlVarint, CqlVarintBorrowed, Counter, CqlValue,
                Option<i32>, Option<String>, Option<CqlValue>, Option<Vec<i32>>, MaybeEmpty<i32>, MaybeEmpty<i64>, MaybeEmpty<uuid::Uuid>, Option<MaybeEmpty<bool>>,
                chrono::NaiveDate, chrono::NaiveTime, chrono::DateTime<chrono::Utc>, time::Date, time::Time, time::OffsetDateTime,
                num_bigint::BigInt, bigdecimal::BigDecimal,
                Vec<i32>, Vec<i64>, Vec<String>, Vec<&str>, Vec<Vec<u8>>, Vec<bool>, Vec<f32>, Vec<f64>, Vec<uuid::Uuid>, Vec<CqlValue>, Vec<Option<i32>>, Vec<Vec<i32>>, Vec<(i32, String)>,
                Vec<CqlDuration>, Vec<IpAddr>, Vec<CqlVarint>, Vec<CqlDecimal>, Vec<CqlDate>, Vec<CqlTime>, Vec<CqlTimestamp>, Vec<CqlTimeuuid>, Vec<i8>, Vec<i16>, Vec<Counter>,
                HashSet<i32>, HashSet<String>, BTreeSet<i32>, BTreeSet<String>, BTreeSet<uuid::Uuid>, HashSet<(i32, String)>,
                HashMap<i32, i32>, HashMap<String, i32>, HashMap<String, String>, BTreeMap<i32, String>, BTreeMap<String, Vec<u8>>, BTreeMap<uuid::Uuid, bool>, HashMap<String, Vec<i32>>, BTreeMap<i32, BTreeMap<i32, i32>>,
                Vec<(i32, i32)>, Vec<(String, i32)>,
                (i32,), (i32, String), (i32, String, Vec<i32>), (Option<i32>, Option<String>, Option<Vec<i32>>), (CqlValue,), (CqlValue, CqlValue, CqlValue),
                scylla_cql::deserialize::value::UdtIterator, scylla_cql::deserialize::value::ListlikeIterator<CqlValue>, scylla_cql::deserialize::value::MapIterator<CqlValue, CqlValue>,
                scylla_cql::deserialize::value::ListlikeIterator<i32>,
            );
        }
        2 => {
            t2!((i32, String), (i32, &str), (CqlValue, CqlValue), (Option<i32>, Option<String>), (uuid::Uuid, Vec<i32>), (String, i32), (i64, i64));
            // every scalar / collection target in second position behind a dynamic first column, and vice versa
            macro_rules! second {
                ($($t:ty),* $(,)?) => { $( n += try_one::<(CqlValue, $t)>(rows); n += try_one::<($t, Option<CqlValue>)>(rows); )* };
            }
            second!(
                i8, i16, i32, i64, f32, f64, bool, String, &str, Vec<u8>, &[u8], uuid::Uuid, CqlTimeuuid, IpAddr, CqlDate, CqlTime, CqlTimestamp, CqlDuration, CqlDecimal, CqlVarint, Counter,
                Option<i32>, MaybeEmpty<i32>, Vec<i32>, Vec<String>, Vec<CqlValue>, HashSet<i32>, BTreeSet<String>, HashMap<String, i32>, BTreeMap<i32, String>, (i32, String), (i32, String, Vec<i32>),
                chrono::NaiveDate, chrono::DateTime<chrono::Utc>, time::OffsetDateTime, num_bigint::BigInt, bigdecimal::BigDecimal,
                scylla_cql::deserialize::value::UdtIterator, scylla_cql::deserialize::value::ListlikeIterator<CqlValue>,
            );
        }
        3 => {
            n += try_one::<(uuid::Uuid, Vec<i32>, CqlValue)>(rows);
            n += try_one::<(CqlValue, CqlValue, CqlValue)>(rows);
            n += try_one::<(Option<uuid::Uuid>, Option<Vec<Option<i32>>>, scylla_cql::deserialize::value::UdtIterator)>(rows);
        }
        _ => {}
    }
    n
}
