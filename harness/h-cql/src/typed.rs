//! C08: typed row targets. For a decoded Rows result, try every target tuple of the alphabet below;
//! those that pass `type_check` are iterated over all rows (each step must return Ok or Err).
use scylla_cql::deserialize::row::DeserializeRow;
use scylla_cql::frame::response::result::DeserializedMetadataAndRawRows;
use scylla_cql::value::{Counter, CqlDate, CqlDecimal, CqlDecimalBorrowed, CqlDuration, CqlTime, CqlTimestamp, CqlTimeuuid, CqlValue, CqlVarint, CqlVarintBorrowed, MaybeEmpty};
use std::collections::{BTreeMap, BTreeSet, HashMap, HashSet};
use std::net::IpAddr;

fn try_one<'f, 'm, R: DeserializeRow<'f, 'm>>(rows: &'f DeserializedMetadataAndRawRows) -> u32
where
    'f: 'm,
{
    match rows.rows_iter::<R>() {
        Err(_) => 0,
        Ok(it) => {
            for (i, r) in it.enumerate() {
                if r.is_err() || i >= crate::decode::MAX_ROWS_PULLED {
                    break;
                }
            }
            1
        }
    }
}

/// Iterator-typed targets: exercise the iterator API itself (not only a forward drain) on every row's cell.
/// Fresh iterator per operation: `nth(k)` for k in 0..=len+2 after j in 0..=3 `next()` calls, then a bounded drain;
/// `size_hint`, `last`, `count`, `skip(k)`, `step_by(2)`. Every call must return (value, error or None); pulls are bounded
/// by the announced length (capped) + 4.
fn exercise_iter<'f, 'm, I>(rows: &'f DeserializedMetadataAndRawRows) -> u32
where
    'f: 'm,
    I: Iterator,
    (I,): DeserializeRow<'f, 'm>,
{
    let fresh = |r: usize| -> Option<I> { rows.rows_iter::<(I,)>().ok()?.nth(r)?.ok().map(|t| t.0) };
    if rows.rows_iter::<(I,)>().is_err() {
        return 0;
    }
    let nrows = rows.rows_count().min(3);
    for r in 0..nrows {
        let Some(first) = fresh(r) else { continue };
        let len = first.size_hint().1.unwrap_or(0).min(48);
        drop(first);
        for j in 0..=len.min(3) {
            for k in 0..=len + 2 {
                let Some(mut it) = fresh(r) else { break };
                for _ in 0..j {
                    let _ = it.next();
                }
                let _ = it.nth(k);
                let _ = it.size_hint();
                for _ in 0..len + 4 {
                    if it.next().is_none() {
                        break;
                    }
                }
                let _ = it.size_hint();
            }
        }
        for k in 0..=len + 2 {
            if let Some(it) = fresh(r) {
                let _ = it.skip(k).next();
            }
            if let Some(mut it) = fresh(r) {
                // nth twice in a row
                let _ = it.nth(k / 2);
                let _ = it.nth(k - k / 2);
                let _ = it.next();
            }
        }
        // (a collection may announce 2^31 elements and its iterator then yields that many errors: draining is the
        //  consumer's cost, so `last` / `count` are bounded here like every other pull)
        let bound = fresh(r).map(|it| it.size_hint().1.unwrap_or(0)).unwrap_or(0).min(crate::decode::MAX_ROWS_PULLED) + 4;
        if let Some(it) = fresh(r) {
            let _ = it.step_by(2).take(len + 2).count();
        }
        if let Some(it) = fresh(r) {
            let _ = it.take(bound).last();
        }
        if let Some(it) = fresh(r) {
            let _ = it.take(bound).count();
        }
    }
    1
}

/// Returns how many targets passed type_check for this result's column types.
pub fn run_typed(rows: &DeserializedMetadataAndRawRows) -> u32 {
    let ncols = rows.metadata().col_specs().len();
    let mut n = 0u32;
    macro_rules! t1 {
        ($($t:ty),* $(,)?) => { $( n += try_one::<($t,)>(rows); )* };
    }
    macro_rules! t2 {
        ($(($a:ty, $b:ty)),* $(,)?) => { $( n += try_one::<($a, $b)>(rows); )* };
    }
    if ncols == 1 {
        use scylla_cql::deserialize::value::{ListlikeIterator, MapIterator, UdtIterator, VectorIterator};
        n += exercise_iter::<ListlikeIterator<CqlValue>>(rows);
        n += exercise_iter::<ListlikeIterator<i32>>(rows);
        n += exercise_iter::<ListlikeIterator<String>>(rows);
        n += exercise_iter::<MapIterator<CqlValue, CqlValue>>(rows);
        n += exercise_iter::<MapIterator<String, i32>>(rows);
        n += exercise_iter::<VectorIterator<CqlValue>>(rows);
        n += exercise_iter::<VectorIterator<i32>>(rows);
        n += exercise_iter::<VectorIterator<f32>>(rows);
        n += exercise_iter::<VectorIterator<String>>(rows);
        n += exercise_iter::<VectorIterator<Vec<i32>>>(rows);
        n += exercise_iter::<UdtIterator>(rows);
    }
    match ncols {
        0 => {
            n += try_one::<()>(rows);
        }
        1 => {
            t1!(
                i8, i16, i32, i64, f32, f64, bool, String, &str, Box<str>, Vec<u8>, &[u8], bytes::Bytes, uuid::Uuid, CqlTimeuuid, IpAddr,
                CqlDate, CqlTime, CqlTimestamp, CqlDuration, CqlDecimal, CqlDecimalBorrowed, CqlVarint, CqlVarintBorrowed, Counter, CqlValue,
                Option<i32>, Option<String>, Option<CqlValue>, Option<Vec<i32>>, MaybeEmpty<i32>, MaybeEmpty<i64>, MaybeEmpty<uuid::Uuid>, Option<MaybeEmpty<bool>>,
                chrono::NaiveDate, chrono::NaiveTime, chrono::DateTime<chrono::Utc>, time::Date, time::Time, time::OffsetDateTime,
                num_bigint::BigInt, bigdecimal::BigDecimal,
                Vec<i32>, Vec<i64>, Vec<String>, Vec<&str>, Vec<Vec<u8>>, Vec<bool>, Vec<f32>, Vec<f64>, Vec<uuid::Uuid>, Vec<CqlValue>, Vec<Option<i32>>, Vec<Vec<i32>>, Vec<(i32, String)>,
                Vec<CqlDuration>, Vec<IpAddr>, Vec<CqlVarint>, Vec<CqlDecimal>, Vec<CqlDate>, Vec<CqlTime>, Vec<CqlTimestamp>, Vec<CqlTimeuuid>, Vec<i8>, Vec<i16>, Vec<Counter>,
                HashSet<i32>, HashSet<String>, BTreeSet<i32>, BTreeSet<String>, BTreeSet<uuid::Uuid>, HashSet<(i32, String)>,
                HashMap<i32, i32>, HashMap<String, i32>, HashMap<String, String>, BTreeMap<i32, String>, BTreeMap<String, Vec<u8>>, BTreeMap<uuid::Uuid, bool>, HashMap<String, Vec<i32>>, BTreeMap<i32, BTreeMap<i32, i32>>,
                Vec<(i32, i32)>, Vec<(String, i32)>,
                (i32,), (i32, String), (i32, String, Vec<i32>), (Option<i32>, Option<String>, Option<Vec<i32>>), (CqlValue,), (CqlValue, CqlValue, CqlValue),
                scylla_cql::deserialize::value::UdtIterator, scylla_cql::deserialize::value::ListlikeIterator<CqlValue>, scylla_cql::deserialize::value::MapIterator<CqlValue, CqlValue>,
                scylla_cql::deserialize::value::ListlikeIterator<i32>,
            );
        }
        2 => {
            t2!((i32, String), (i32, &str), (CqlValue, CqlValue), (Option<i32>, Option<String>), (uuid::Uuid, Vec<i32>), (String, i32), (i64, i64));
            // every scalar / collection target in second position behind a dynamic first column, and vice versa
            macro_rules! second {
                ($($t:ty),* $(,)?) => { $( n += try_one::<(CqlValue, $t)>(rows); n += try_one::<($t, Option<CqlValue>)>(rows); )* };
            }
            second!(
                i8, i16, i32, i64, f32, f64, bool, String, &str, Vec<u8>, &[u8], uuid::Uuid, CqlTimeuuid, IpAddr, CqlDate, CqlTime, CqlTimestamp, CqlDuration, CqlDecimal, CqlVarint, Counter,
                Option<i32>, MaybeEmpty<i32>, Vec<i32>, Vec<String>, Vec<CqlValue>, HashSet<i32>, BTreeSet<String>, HashMap<String, i32>, BTreeMap<i32, String>, (i32, String), (i32, String, Vec<i32>),
                chrono::NaiveDate, chrono::DateTime<chrono::Utc>, time::OffsetDateTime, num_bigint::BigInt, bigdecimal::BigDecimal,
                scylla_cql::deserialize::value::UdtIterator, scylla_cql::deserialize::value::ListlikeIterator<CqlValue>,
            );
        }
        3 => {
            n += try_one::<(uuid::Uuid, Vec<i32>, CqlValue)>(rows);
            n += try_one::<(CqlValue, CqlValue, CqlValue)>(rows);
            n += try_one::<(Option<uuid::Uuid>, Option<Vec<Option<i32>>>, scylla_cql::deserialize::value::UdtIterator)>(rows);
        }
        _ => {}
    }
    n
}
