//! C08: corpus of well-formed response frames (built from the cqlref::proto::resp model), the
//! canonical text a conforming decoder must arrive at (`expected_dump`), and the deviation
//! generators (truncations, field-aware mutations, deep nesting, compressed-stream damage).
//! Nothing in this file touches the driver.

use cqlref::proto::resp::*;
use cqlref::proto::{self as p, Comp, Field, FieldKind};

// ---------------------------------------------------------------------------------------------
// negotiated features (what the *server* assumed when it encoded, and the decoder is told)
// ---------------------------------------------------------------------------------------------

pub const FEAT_MID: u8 = 1; // SCYLLA_USE_METADATA_ID
pub const FEAT_RATE: u8 = 2; // SCYLLA_RATE_LIMIT_ERROR with ERROR_CODE=RATE_LIMIT_CODE
pub const FEAT_LWT: u8 = 4;
pub const FEAT_TABLETS: u8 = 8;
pub const RATE_LIMIT_CODE: i32 = 0x4321;

// ---------------------------------------------------------------------------------------------
// column types and sample cell values (a few valid encodings per type, written from the spec section 6)
// ---------------------------------------------------------------------------------------------

fn n(id: u16) -> Ty {
    Ty::Native(id)
}
fn b(t: Ty) -> Box<Ty> {
    Box::new(t)
}

pub fn udt3() -> Ty {
    Ty::Udt { ks: "ks".into(), name: "addr\u{e9}".into(), fields: vec![("a".into(), n(native::INT)), ("b".into(), n(native::TEXT)), ("c".into(), Ty::List(b(n(native::INT))))] }
}

/// the depth-2 type set (every native; every collection over natives; nested collections, tuples, UDTs, vectors; class-string forms)
pub fn type_alphabet() -> Vec<Ty> {
    use native::*;
    let mut v: Vec<Ty> = ALL.iter().map(|i| n(*i)).collect();
    for i in ALL {
        v.push(Ty::List(b(n(i))));
        v.push(Ty::Set(b(n(i))));
    }
    for k in [INT, TEXT, UUID] {
        for val in [INT, TEXT, BLOB, BOOLEAN] {
            v.push(Ty::Map(b(n(k)), b(n(val))));
        }
    }
    // (a zero-element tuple is not a CQL type and its only value, zero bytes, is indistinguishable from "empty": left to the mutations)
    v.push(Ty::Tuple(vec![n(INT)]));
    v.push(Ty::Tuple(vec![n(INT), n(TEXT), Ty::List(b(n(INT)))]));
    v.push(Ty::Udt { ks: "".into(), name: "".into(), fields: vec![("".into(), n(INT))] }); // (a zero-field UDT is not a CQL type; its zero-byte value reads as "empty")
    v.push(Ty::Udt { ks: "ks".into(), name: "u".into(), fields: vec![("a".into(), n(INT))] });
    v.push(udt3());
    v.push(Ty::List(b(Ty::List(b(n(INT))))));
    v.push(Ty::Map(b(n(TEXT)), b(Ty::List(b(n(INT))))));
    v.push(Ty::List(b(udt3())));
    v.push(Ty::Set(b(Ty::Tuple(vec![n(INT), n(TEXT)]))));
    v.push(Ty::Map(b(n(INT)), b(Ty::Map(b(n(INT)), b(n(INT))))));
    v.push(Ty::Tuple(vec![udt3(), Ty::Tuple(vec![n(BOOLEAN)])]));
    v.push(Ty::Udt { ks: "ks".into(), name: "outer".into(), fields: vec![("in".into(), udt3()), ("m".into(), Ty::Map(b(n(TEXT)), b(n(INT))))] });
    v.push(Ty::Vector(b(n(FLOAT)), 3));
    v.push(Ty::Vector(b(n(INT)), 2));
    v.push(Ty::Vector(b(n(TEXT)), 2));
    v.push(Ty::Vector(b(Ty::List(b(n(INT)))), 2));
    v.push(Ty::Vector(b(Ty::Vector(b(n(FLOAT)), 2)), 2));
    v.push(Ty::List(b(Ty::Vector(b(n(INT)), 2))));
    for i in ALL {
        v.push(Ty::AsClass(b(n(i))));
    }
    v.push(Ty::AsClass(b(Ty::List(b(n(INT))))));
    v.push(Ty::AsClass(b(Ty::Set(b(n(TEXT))))));
    v.push(Ty::AsClass(b(Ty::Map(b(n(TEXT)), b(n(INT))))));
    v.push(Ty::AsClass(b(Ty::Tuple(vec![n(INT), n(TEXT)]))));
    v.push(Ty::AsClass(b(udt3())));
    v
}

/// class strings that are not what `class_string` produces but must parse to a known type (expected dump given)
pub fn odd_class_strings() -> Vec<(String, String)> {
    vec![
        ("org.apache.cassandra.db.marshal.FrozenType(org.apache.cassandra.db.marshal.ListType(org.apache.cassandra.db.marshal.Int32Type))".into(), "list<int>".into()),
        ("ListType(Int32Type)".into(), "list<int>".into()),
        ("MapType( UTF8Type , LongType )".into(), "map<text,bigint>".into()),
        ("".into(), "blob".into()),
        ("org.apache.cassandra.db.marshal.DateType".into(), "date".into()),
        ("VectorType(FrozenType(ListType(FrozenType(SetType(Int32Type)))),3)".into(), "vector<list<set<int>>,3>".into()),
    ]
}

/// class strings a decoder must reject with an error (never a crash)
pub fn bad_class_strings() -> Vec<String> {
    vec![
        "org.apache.cassandra.db.marshal.NoSuchType".into(),
        "ListType(".into(),
        "ListType()".into(),
        "ListType(Int32Type,Int32Type)".into(),
        "MapType(Int32Type)".into(),
        "VectorType(Int32Type)".into(),
        "VectorType(Int32Type, 99999)".into(),
        "VectorType(Int32Type, -1)".into(),
        "TupleType()".into(),
        "UserType(ks,zz,61:Int32Type)".into(),
        "UserType(ks,61,6:Int32Type)".into(),
        "UserType(ks,ff,61:Int32Type)".into(),
        "UserType(ks,61,61Int32Type)".into(),
        "1234567890123456789012345:Int32Type".into(),
        "ListType(Int32Type".into(),
        ")".into(),
        "((((".into(),
        "FrozenType".into(),
        "\u{e9}\u{e9}(\u{e9})".into(),
    ]
}

fn vint(v: u64, out: &mut Vec<u8>) {
    // Cassandra unsigned vint: the number of leading 1 bits of the first byte = number of extra bytes
    let bits = 64 - v.leading_zeros() as usize;
    let mut extra = 0usize;
    while extra < 8 && bits > (7 - extra) + 8 * extra {
        extra += 1;
    }
    if extra == 8 {
        out.push(0xff);
        out.extend_from_slice(&v.to_be_bytes());
        return;
    }
    let mut bytes = vec![0u8; extra + 1];
    let mut x = v;
    for i in (0..=extra).rev() {
        bytes[i] = (x & 0xff) as u8;
        x >>= 8;
    }
    bytes[0] |= (!(0xffu16 >> extra)) as u8;
    out.extend_from_slice(&bytes);
}

fn cell(out: &mut Vec<u8>, v: Option<&[u8]>) {
    match v {
        None => out.extend_from_slice(&(-1i32).to_be_bytes()),
        Some(x) => {
            out.extend_from_slice(&(x.len() as i32).to_be_bytes());
            out.extend_from_slice(x);
        }
    }
}

/// size of an element inside a vector if fixed (Cassandra's valueLengthIfFixed for the types used here)
fn vector_fixed_size(t: &Ty) -> Option<usize> {
    match t {
        Ty::Native(native::BOOLEAN) => Some(1),
        Ty::Native(native::INT) | Ty::Native(native::FLOAT) => Some(4),
        Ty::Native(native::BIGINT) | Ty::Native(native::DOUBLE) | Ty::Native(native::TIMESTAMP) => Some(8),
        Ty::Native(native::UUID) | Ty::Native(native::TIMEUUID) => Some(16),
        Ty::Vector(e, d) => vector_fixed_size(e).map(|s| s * *d as usize),
        Ty::AsClass(t) => vector_fixed_size(t),
        _ => None,
    }
}

/// 1-3 valid non-null encodings of a value of type `t` (index 0 is the plainest).
pub fn samples(t: &Ty) -> Vec<Vec<u8>> {
    use native::*;
    match t {
        Ty::Native(id) => match *id {
            ASCII => vec![b"abc".to_vec(), vec![]],
            BIGINT | COUNTER | TIMESTAMP => vec![(-2i64).to_be_bytes().to_vec(), i64::MAX.to_be_bytes().to_vec()],
            BLOB => vec![vec![0xff, 0x00, 0x80], vec![]],
            BOOLEAN => vec![vec![1], vec![0]],
            DECIMAL => vec![vec![0, 0, 0, 2, 0x04, 0xD2], vec![0xff, 0xff, 0xff, 0xff, 0x80]],
            DOUBLE => vec![1.5f64.to_be_bytes().to_vec(), f64::NAN.to_be_bytes().to_vec()],
            FLOAT => vec![1.5f32.to_be_bytes().to_vec(), f32::NEG_INFINITY.to_be_bytes().to_vec()],
            INT => vec![7i32.to_be_bytes().to_vec(), i32::MIN.to_be_bytes().to_vec()],
            UUID => vec![(0..16).collect(), vec![0xff; 16]],
            TEXT => vec!["h\u{e9}llo".as_bytes().to_vec(), vec![]],
            VARINT => vec![vec![0x01, 0xE2, 0x40], vec![0x80], vec![0x00, 0x00, 0x7f]],
            TIMEUUID => vec![vec![0x8e, 0x14, 0xe7, 0x60, 0x7f, 0xa8, 0x11, 0xeb, 0xbc, 0x66, 0x00, 0x00, 0x00, 0x00, 0x00, 0x01]],
            INET => vec![vec![127, 0, 0, 1], (0..16).collect()],
            DATE => vec![(1u32 << 31).to_be_bytes().to_vec(), 0u32.to_be_bytes().to_vec()],
            TIME => vec![1i64.to_be_bytes().to_vec(), 86_399_999_999_999i64.to_be_bytes().to_vec()],
            SMALLINT => vec![(-3i16).to_be_bytes().to_vec()],
            TINYINT => vec![vec![0x80]],
            DURATION => vec![vec![2, 4, 6], vec![0, 0, 0]],
            _ => vec![vec![]],
        },
        Ty::CustomRaw(_) => vec![vec![1, 2, 3]],
        Ty::AsClass(t) => samples(t),
        Ty::List(e) | Ty::Set(e) => {
            let s = samples(e);
            let mut one = 1i32.to_be_bytes().to_vec();
            cell(&mut one, Some(&s[0]));
            let mut two = (s.len() as i32).to_be_bytes().to_vec();
            for x in &s {
                cell(&mut two, Some(x));
            }
            vec![two, one, 0i32.to_be_bytes().to_vec()]
        }
        Ty::Map(k, v) => {
            let sk = samples(k);
            let sv = samples(v);
            let mut one = 1i32.to_be_bytes().to_vec();
            cell(&mut one, Some(&sk[0]));
            cell(&mut one, Some(&sv[0]));
            let npairs = sk.len().min(sv.len());
            let mut two = (npairs as i32).to_be_bytes().to_vec();
            for i in 0..npairs {
                cell(&mut two, Some(&sk[i]));
                cell(&mut two, Some(&sv[i]));
            }
            vec![two, one, 0i32.to_be_bytes().to_vec()]
        }
        Ty::Tuple(ts) => {
            let mut full = Vec::new();
            for t in ts {
                cell(&mut full, Some(&samples(t)[0]));
            }
            let mut nulls = Vec::new();
            for _ in ts {
                cell(&mut nulls, None);
            }
            if ts.is_empty() { vec![full] } else { vec![full, nulls] }
        }
        Ty::Udt { fields, .. } => {
            let mut full = Vec::new();
            for (_, t) in fields {
                cell(&mut full, Some(&samples(t)[0]));
            }
            let mut first_only = Vec::new();
            if let Some((_, t)) = fields.first() {
                cell(&mut first_only, Some(&samples(t)[0]));
            }
            // (a zero-byte UDT value is read as the special "empty" value by the driver and as all-fields-missing by the spec: ambiguous, left out)
            if fields.len() > 1 { vec![full, first_only] } else { vec![full] }
        }
        Ty::Vector(e, d) => {
            let s = samples(e);
            let mut out = Vec::new();
            for i in 0..*d as usize {
                let x = &s[i % s.len()];
                match vector_fixed_size(e) {
                    Some(_) => out.extend_from_slice(x),
                    None => {
                        vint(x.len() as u64, &mut out);
                        out.extend_from_slice(x);
                    }
                }
            }
            vec![out]
        }
    }
}

/// Canonical text of a decoded value for the types the harness decodes itself; "~" = opaque (decoded without error).
pub fn value_dump(t: &Ty, v: Option<&[u8]>) -> String {
    use native::*;
    let Some(v) = v else { return "null".into() };
    fn cells(mut v: &[u8], nmax: usize) -> Option<Vec<Option<&[u8]>>> {
        let mut out = Vec::new();
        while !v.is_empty() && out.len() < nmax {
            if v.len() < 4 {
                return None;
            }
            let l = i32::from_be_bytes([v[0], v[1], v[2], v[3]]);
            v = &v[4..];
            if l < 0 {
                out.push(None);
            } else {
                if v.len() < l as usize {
                    return None;
                }
                out.push(Some(&v[..l as usize]));
                v = &v[l as usize..];
            }
        }
        Some(out)
    }
    match t {
        Ty::AsClass(t) => value_dump(t, Some(v)),
        Ty::Native(id) => {
            let empty_ok = !matches!(*id, COUNTER | DURATION);
            if v.is_empty() && empty_ok && !matches!(*id, TEXT | ASCII | BLOB) {
                return "empty".into();
            }
            match *id {
                INT => format!("int:{}", i32::from_be_bytes(v.try_into().unwrap())),
                BIGINT => format!("bigint:{}", i64::from_be_bytes(v.try_into().unwrap())),
                SMALLINT => format!("smallint:{}", i16::from_be_bytes(v.try_into().unwrap())),
                TINYINT => format!("tinyint:{}", v[0] as i8),
                BOOLEAN => format!("boolean:{}", v[0] != 0),
                TEXT => format!("text:{}", p_hex(v)),
                ASCII => format!("ascii:{}", p_hex(v)),
                BLOB => format!("blob:{}", p_hex(v)),
                _ => "~".into(),
            }
        }
        Ty::List(e) | Ty::Set(e) => {
            let cs = cells(&v[4..], usize::MAX).unwrap();
            format!("[{}]", cs.iter().map(|c| value_dump(e, *c)).collect::<Vec<_>>().join(","))
        }
        Ty::Map(k, val) => {
            let cs = cells(&v[4..], usize::MAX).unwrap();
            format!("{{{}}}", cs.chunks(2).map(|kv| format!("{}={}", value_dump(k, kv[0]), value_dump(val, kv[1]))).collect::<Vec<_>>().join(","))
        }
        Ty::Tuple(ts) => {
            let cs = cells(v, ts.len()).unwrap();
            format!("({})", ts.iter().enumerate().map(|(i, t)| value_dump(t, cs.get(i).copied().flatten())).collect::<Vec<_>>().join(","))
        }
        Ty::Udt { fields, .. } => {
            let cs = cells(v, fields.len()).unwrap();
            format!("udt({})", fields.iter().enumerate().map(|(i, (f, t))| format!("{f}={}", value_dump(t, cs.get(i).copied().flatten()))).collect::<Vec<_>>().join(","))
        }
        Ty::Vector(..) | Ty::CustomRaw(_) => "~".into(),
    }
}

pub fn p_hex(b: &[u8]) -> String {
    let mut s = String::with_capacity(b.len() * 2);
    for x in b {
        s.push_str(&format!("{x:02x}"));
    }
    s
}

// ---------------------------------------------------------------------------------------------
// corpus
// ---------------------------------------------------------------------------------------------

#[derive(Debug, Clone)]
pub struct Item {
    /// stable label of the shape (used in case descriptions, not in violation keys)
    pub name: String,
    pub resp: Response,
    /// feature bits the encoding assumes (FEAT_MID / FEAT_RATE); a decoder told otherwise is only checked for robustness
    pub needs: u8,
    /// feature bits under which the encoding would be read differently (so round trip is not expected there)
    pub breaks_under: u8,
}

fn col(name: &str, ty: Ty) -> ColSpec {
    ColSpec { ks: "ks".into(), table: "tbl".into(), name: name.into(), ty }
}

fn meta(cols: Vec<ColSpec>) -> RowsMeta {
    RowsMeta { global: None, paging_state: None, no_metadata: false, new_metadata_id: None, cols }
}

fn rows_of(cols: &[ColSpec], nrows: usize) -> Vec<Vec<Option<Vec<u8>>>> {
    (0..nrows)
        .map(|r| {
            cols.iter()
                .enumerate()
                .map(|(c, cs)| {
                    let s = samples(&cs.ty);
                    // row 0: plainest values; row 1: second sample or null alternating by column
                    if r == 0 {
                        Some(s[0].clone())
                    } else if (r + c) % 2 == 0 {
                        None
                    } else {
                        Some(s[(r) % s.len()].clone())
                    }
                })
                .collect()
        })
        .collect()
}

pub fn all_error_bodies() -> Vec<ErrorBody> {
    let mut v = Vec::new();
    let simple = [0x0000, 0x000A, 0x0100, 0x1001, 0x1002, 0x1003, 0x2000, 0x2100, 0x2200, 0x2300];
    for c in simple {
        v.push(ErrorBody { code: c, message: format!("err {c:#06x} \u{e9}"), extra: ErrExtra::None });
    }
    v.push(ErrorBody { code: 0x0000, message: "".into(), extra: ErrExtra::None });
    v.push(ErrorBody { code: 0x7777, message: "unknown code".into(), extra: ErrExtra::None });
    v.push(ErrorBody { code: -1, message: "negative code".into(), extra: ErrExtra::None });
    for cl in [0u16, 4, 10] {
        v.push(ErrorBody { code: 0x1000, message: "unavailable".into(), extra: ErrExtra::Unavailable { cl, required: 3, alive: 1 } });
    }
    for wt in ["SIMPLE", "BATCH", "UNLOGGED_BATCH", "COUNTER", "BATCH_LOG", "CAS", "VIEW", "CDC", "WEIRD", ""] {
        v.push(ErrorBody { code: 0x1100, message: "wt".into(), extra: ErrExtra::WriteTimeout { cl: 6, received: 1, blockfor: 2, write_type: wt.into() } });
    }
    for dp in [0u8, 1, 2] {
        v.push(ErrorBody { code: 0x1200, message: "rt".into(), extra: ErrExtra::ReadTimeout { cl: 1, received: 0, blockfor: i32::MAX, data_present: dp } });
        v.push(ErrorBody { code: 0x1300, message: "rf".into(), extra: ErrExtra::ReadFailure { cl: 5, received: -1, blockfor: 2, numfailures: 1, data_present: dp } });
    }
    for args in [vec![], vec!["int".to_string(), "text".to_string()]] {
        v.push(ErrorBody { code: 0x1400, message: "ff".into(), extra: ErrExtra::FunctionFailure { ks: "ks".into(), function: "f\u{e9}".into(), arg_types: args } });
    }
    v.push(ErrorBody { code: 0x1500, message: "wf".into(), extra: ErrExtra::WriteFailure { cl: 9, received: 1, blockfor: 2, numfailures: 1, write_type: "CAS".into() } });
    v.push(ErrorBody { code: 0x2400, message: "ae".into(), extra: ErrExtra::AlreadyExists { ks: "ks".into(), table: "".into() } });
    v.push(ErrorBody { code: 0x2400, message: "ae".into(), extra: ErrExtra::AlreadyExists { ks: "ks".into(), table: "t".into() } });
    for id in [vec![], (0..16).collect::<Vec<u8>>()] {
        v.push(ErrorBody { code: 0x2500, message: "unprepared".into(), extra: ErrExtra::Unprepared { id } });
    }
    v
}

fn schema_changes() -> Vec<SchemaChange> {
    let mut v = Vec::new();
    for change in ["CREATED", "UPDATED", "DROPPED", "RENAMED"] {
        for target in [
            SchemaTarget::Keyspace,
            SchemaTarget::Table("t".into()),
            SchemaTarget::Type("ty\u{e9}".into()),
            SchemaTarget::Function("f".into(), vec![]),
            SchemaTarget::Function("f".into(), vec!["int".into(), "list<text>".into()]),
            SchemaTarget::Aggregate("agg".into(), vec!["bigint".into()]),
        ] {
            v.push(SchemaChange { change: change.into(), keyspace: "ks".into(), target });
        }
    }
    v
}

pub fn corpus() -> Vec<Item> {
    let mut out: Vec<Item> = Vec::new();
    let mut push = |name: String, resp: Response, needs: u8, breaks_under: u8| out.push(Item { name, resp, needs, breaks_under });
    // simple kinds
    push("ready".into(), Response::Ready, 0, 0);
    for (i, a) in ["", "org.apache.cassandra.auth.PasswordAuthenticator", "com.scylladb.auth.\u{e9}"].iter().enumerate() {
        push(format!("authenticate/{i}"), Response::Authenticate(a.to_string()), 0, 0);
    }
    let tokens: [Option<Vec<u8>>; 3] = [None, Some(vec![]), Some(b"\0token\xff".to_vec())];
    for (i, t) in tokens.iter().enumerate() {
        push(format!("auth_challenge/{i}"), Response::AuthChallenge(t.clone()), 0, 0);
        push(format!("auth_success/{i}"), Response::AuthSuccess(t.clone()), 0, 0);
    }
    let supported: Vec<Vec<(String, Vec<String>)>> = vec![
        vec![],
        vec![("COMPRESSION".into(), vec!["lz4".into(), "snappy".into()]), ("CQL_VERSION".into(), vec!["3.0.0".into()])],
        vec![
            ("SCYLLA_SHARD".into(), vec!["1".into()]),
            ("SCYLLA_NR_SHARDS".into(), vec!["4".into()]),
            ("SCYLLA_SHARDING_IGNORE_MSB".into(), vec!["12".into()]),
            ("SCYLLA_RATE_LIMIT_ERROR".into(), vec![format!("ERROR_CODE={RATE_LIMIT_CODE}")]),
            ("SCYLLA_LWT_ADD_METADATA_MARK".into(), vec!["LWT_OPTIMIZATION_META_BIT_MASK=2147483648".into()]),
            ("TABLETS_ROUTING_V1".into(), vec![]),
            ("SCYLLA_USE_METADATA_ID".into(), vec!["".into()]),
        ],
        vec![("K".into(), vec!["a".into()]), ("K".into(), vec!["b".into(), "c".into()])], // duplicate key: last one wins in a map
    ];
    for (i, s) in supported.into_iter().enumerate() {
        push(format!("supported/{i}"), Response::Supported(s), 0, 0);
    }
    // errors
    for (i, e) in all_error_bodies().into_iter().enumerate() {
        push(format!("error/{i}"), Response::Error(e), 0, 0);
    }
    for op in [0u8, 1, 7] {
        for rej in [0u8, 1] {
            // the rate-limit code is only an error kind of its own when the extension is negotiated
            push(format!("error/rate/{op}/{rej}"), Response::Error(ErrorBody { code: RATE_LIMIT_CODE, message: "rate".into(), extra: ErrExtra::RateLimit { op_type: op, rejected_by_coordinator: rej } }), 0, 0);
        }
    }
    // events
    let v4 = Inet { addr: vec![10, 0, 0, 9], port: 9042 };
    let v6 = Inet { addr: (1..17).collect(), port: 19042 };
    for a in [&v4, &v6] {
        for ch in ["NEW_NODE", "REMOVED_NODE"] {
            push(format!("event/topology/{ch}/{}", a.addr.len()), Response::Event(Event::Topology { change: ch.into(), addr: a.clone() }), 0, 0);
        }
        for ch in ["UP", "DOWN"] {
            push(format!("event/status/{ch}/{}", a.addr.len()), Response::Event(Event::Status { change: ch.into(), addr: a.clone() }), 0, 0);
        }
    }
    for (i, s) in schema_changes().into_iter().enumerate() {
        push(format!("event/schema/{i}"), Response::Event(Event::Schema(s.clone())), 0, 0);
        push(format!("result/schema_change/{i}"), Response::Result(ResultBody::SchemaChange(s)), 0, 0);
    }
    push("event/routes/0".into(), Response::Event(Event::ClientRoutes { change: "UPDATE_NODES".into(), connection_ids: vec![], host_ids: vec![] }), 0, 0);
    push(
        "event/routes/2".into(),
        Response::Event(Event::ClientRoutes { change: "UPDATE_NODES".into(), connection_ids: vec!["c1".into(), "c2".into()], host_ids: vec!["00000000-0000-0000-0000-000000000001".into(), "FFFFFFFF-ffff-4fff-bfff-ffffffffffff".into()] }),
        0,
        0,
    );
    // results
    push("result/void".into(), Response::Result(ResultBody::Void), 0, 0);
    for (i, ks) in ["", "ks", "K\u{e9}yspace"].iter().enumerate() {
        push(format!("result/set_keyspace/{i}"), Response::Result(ResultBody::SetKeyspace(ks.to_string())), 0, 0);
    }
    // rows: one column of every type x {0,1,2} rows
    for (ti, ty) in type_alphabet().into_iter().enumerate() {
        for nrows in 0..3 {
            let cols = vec![col("c", ty.clone())];
            let rows = rows_of(&cols, nrows);
            push(format!("rows/type{ti}/{nrows}"), Response::Result(ResultBody::Rows(Rows { meta: meta(cols), rows })), 0, 0);
        }
    }
    // one frame well above the 32 KiB initial body capacity of the frame reader (growth path, chunked reads)
    {
        let cols = vec![col("big", n(native::BLOB)), col("k", n(native::INT))];
        let big: Vec<u8> = (0..100_000u32).map(|x| (x * 31 % 251) as u8).collect();
        push("rows/bigcell".into(), Response::Result(ResultBody::Rows(Rows { meta: meta(cols), rows: vec![vec![Some(big), Some(vec![0, 0, 0, 1])], vec![None, None]] })), 0, 0);
    }
    // odd but valid class strings
    for (i, (cls, _)) in odd_class_strings().into_iter().enumerate() {
        let cols = vec![col("c", Ty::CustomRaw(cls))];
        push(format!("rows/oddclass{i}"), Response::Result(ResultBody::Rows(Rows { meta: meta(cols), rows: vec![] })), 0, 0);
    }
    // rows: every metadata flag combination x column sets
    let colsets: Vec<Vec<ColSpec>> = vec![
        vec![],
        vec![col("a", n(native::INT))],
        vec![col("a", n(native::INT)), ColSpec { ks: "other".into(), table: "t2".into(), name: "b\u{e9}".into(), ty: n(native::TEXT) }],
        vec![col("k", n(native::UUID)), col("l", Ty::List(b(n(native::INT)))), col("u", udt3())],
    ];
    for (ci, cols) in colsets.iter().enumerate() {
        for global in [false, true] {
            for (pi, paging) in [None, Some(vec![]), Some(vec![1u8, 2, 3])].into_iter().enumerate() {
                for no_metadata in [false, true] {
                    for new_id in [None, Some(vec![]), Some((0..16).collect::<Vec<u8>>())] {
                        if no_metadata && new_id.is_some() {
                            continue; // the decoder must refuse this combination: covered among the mutations
                        }
                        for nrows in [0usize, 2] {
                            let mut cs = cols.clone();
                            if global {
                                for c in cs.iter_mut() {
                                    c.ks = "gks".into();
                                    c.table = "gtbl".into();
                                }
                            }
                            let m = RowsMeta { global: global.then(|| ("gks".to_string(), "gtbl".to_string())), paging_state: paging.clone(), no_metadata, new_metadata_id: new_id.clone(), cols: cs.clone() };
                            let needs = if new_id.is_some() { FEAT_MID } else { 0 };
                            let rows = rows_of(&cs, nrows);
                            push(format!("rows/meta/c{ci}g{}p{pi}n{}i{}r{nrows}", global as u8, no_metadata as u8, new_id.as_ref().map(|x| x.len() as i32).unwrap_or(-1)), Response::Result(ResultBody::Rows(Rows { meta: m, rows })), needs, 0);
                        }
                    }
                }
            }
        }
    }
    // prepared
    for (ci, cols) in colsets.iter().enumerate() {
        for global in [false, true] {
            for pk in [vec![], vec![0u16], vec![1, 0], vec![2, 0, 1]] {
                if pk.len() > cols.len() {
                    continue;
                }
                for (ri, result) in [
                    RowsMeta { global: None, paging_state: None, no_metadata: true, new_metadata_id: None, cols: vec![] },
                    meta(colsets[1].clone()),
                    RowsMeta { global: Some(("gks".into(), "gtbl".into())), paging_state: None, no_metadata: false, new_metadata_id: None, cols: colsets[3].iter().cloned().map(|mut c| { c.ks = "gks".into(); c.table = "gtbl".into(); c }).collect() },
                ]
                .into_iter()
                .enumerate()
                {
                    let mut cs = cols.clone();
                    if global {
                        for c in cs.iter_mut() {
                            c.ks = "gks".into();
                            c.table = "gtbl".into();
                        }
                    }
                    for mid in [false, true] {
                        let prep = Prepared { id: (0..16).collect(), result_metadata_id: if mid { (16..32).collect() } else { vec![] }, global: global.then(|| ("gks".to_string(), "gtbl".to_string())), pk_indexes: pk.clone(), cols: cs.clone(), result: result.clone() };
                        // with the extension the id is on the wire; without it the same model encodes without it
                        let (needs, breaks) = if mid { (FEAT_MID, 0) } else { (0, FEAT_MID) };
                        push(format!("prepared/c{ci}g{}pk{}r{ri}m{}", global as u8, pk.len(), mid as u8), Response::Result(ResultBody::Prepared(prep)), needs, breaks);
                    }
                }
            }
        }
    }
    // prepared with every type as a bind marker (owned type parser path)
    for (ti, ty) in type_alphabet().into_iter().enumerate() {
        let prep = Prepared { id: vec![1], result_metadata_id: vec![], global: Some(("ks".into(), "tbl".into())), pk_indexes: vec![0], cols: vec![col("p", ty.clone())], result: meta(vec![col("r", ty)]) };
        push(format!("prepared/type{ti}"), Response::Result(ResultBody::Prepared(prep)), 0, FEAT_MID);
    }
    out
}

/// a Rows result with two columns of the given types and two rows
pub fn two_column_item(ta: &Ty, tb: &Ty, a: usize, b_idx: usize) -> Item {
    let cols = vec![col("x", ta.clone()), col("y", tb.clone())];
    let rows = rows_of(&cols, 2);
    Item { name: format!("rows/pair{a}x{b_idx}"), resp: Response::Result(ResultBody::Rows(Rows { meta: meta(cols), rows })), needs: 0, breaks_under: 0 }
}

/// extension subsets (tracing, warnings, custom payload) - all 8, with a second content variant for the non-empty ones
pub fn ext_alphabet() -> Vec<Ext> {
    let mut v = Vec::new();
    for mask in 0..8u8 {
        v.push(Ext {
            tracing: (mask & 1 != 0).then(|| [0xAB; 16]),
            warnings: (mask & 2 != 0).then(|| vec!["warn \u{e9}".to_string(), "".to_string()]),
            payload: (mask & 4 != 0).then(|| vec![("tablets-routing-v1".to_string(), vec![0, 0, 0, 1]), ("k".to_string(), vec![])]),
        });
    }
    v.push(Ext { tracing: None, warnings: Some(vec![]), payload: Some(vec![]) });
    v.push(Ext { tracing: Some([0; 16]), warnings: Some(vec!["w".repeat(300)]), payload: Some(vec![("dup".to_string(), vec![1]), ("dup".to_string(), vec![2])]) });
    v
}

// ---------------------------------------------------------------------------------------------
// expected canonical dump (must match h_cql::decode::actual dump line for line)
// ---------------------------------------------------------------------------------------------

pub const DUMP_MAX_COLS: usize = 256;
/// names longer than 64 bytes are shown as their first 16 characters and their length
pub fn abbrev(s: &str) -> String {
    if s.len() <= 64 { s.to_string() } else { format!("{}..[{} bytes]", s.chars().take(16).collect::<String>(), s.len()) }
}

pub fn dump_colspecs(cols: &[ColSpec], out: &mut String) {
    for c in cols.iter().take(DUMP_MAX_COLS) {
        out.push_str(&format!("  col {}.{}.{} : {}\n", abbrev(&c.ks), abbrev(&c.table), abbrev(&c.name), dump_type_expect(&c.ty)));
    }
    if cols.len() > DUMP_MAX_COLS {
        out.push_str(&format!("  ... {} more columns\n", cols.len() - DUMP_MAX_COLS));
    }
}

fn dump_type_expect(t: &Ty) -> String {
    // odd class strings carry their expectation in the table
    if let Ty::CustomRaw(s) = t {
        if let Some((_, want)) = odd_class_strings().into_iter().find(|(c, _)| c == s) {
            return want;
        }
    }
    type_dump(t)
}

fn schema_change_dump(s: &SchemaChange) -> String {
    let ct = match s.change.as_str() {
        "CREATED" => "Created",
        "UPDATED" => "Updated",
        "DROPPED" => "Dropped",
        _ => "Invalid",
    };
    match &s.target {
        SchemaTarget::Keyspace => format!("schema_change {ct} KEYSPACE ks={}", s.keyspace),
        SchemaTarget::Table(x) => format!("schema_change {ct} TABLE ks={} name={x}", s.keyspace),
        SchemaTarget::Type(x) => format!("schema_change {ct} TYPE ks={} name={x}", s.keyspace),
        SchemaTarget::Function(x, a) => format!("schema_change {ct} FUNCTION ks={} name={x} args={a:?}", s.keyspace),
        SchemaTarget::Aggregate(x, a) => format!("schema_change {ct} AGGREGATE ks={} name={x} args={a:?}", s.keyspace),
    }
}

pub fn inet_dump(a: &Inet) -> String {
    if a.addr.len() == 4 {
        format!("{}.{}.{}.{}:{}", a.addr[0], a.addr[1], a.addr[2], a.addr[3], a.port as u16)
    } else {
        format!("v6[{}]:{}", p_hex(&a.addr), a.port as u16)
    }
}

fn write_type_dump(s: &str) -> String {
    match s {
        "SIMPLE" | "BATCH" | "UNLOGGED_BATCH" | "COUNTER" | "BATCH_LOG" | "CAS" | "VIEW" | "CDC" => s.to_string(),
        other => format!("Other({other})"),
    }
}

fn cl_name(cl: u16) -> &'static str {
    ["Any", "One", "Two", "Three", "Quorum", "All", "LocalQuorum", "EachQuorum", "Serial", "LocalSerial", "LocalOne"][cl as usize]
}

fn error_dump(e: &ErrorBody, feat: u8) -> String {
    let head = format!("ERROR reason={:?} ", e.message);
    let rate = feat & FEAT_RATE != 0 && e.code == RATE_LIMIT_CODE;
    let body = match (&e.extra, e.code) {
        (ErrExtra::RateLimit { op_type, rejected_by_coordinator }, _) if rate => {
            let op = match op_type {
                0 => "Read".to_string(),
                1 => "Write".to_string(),
                o => format!("Other({o})"),
            };
            format!("RateLimitReached op={op} rejected={}", *rejected_by_coordinator != 0)
        }
        (_, 0x0000) => "ServerError".into(),
        (_, 0x000A) => "ProtocolError".into(),
        (_, 0x0100) => "AuthenticationError".into(),
        (ErrExtra::Unavailable { cl, required, alive }, 0x1000) => format!("Unavailable cl={} required={required} alive={alive}", cl_name(*cl)),
        (_, 0x1001) => "Overloaded".into(),
        (_, 0x1002) => "IsBootstrapping".into(),
        (_, 0x1003) => "TruncateError".into(),
        (ErrExtra::WriteTimeout { cl, received, blockfor, write_type }, 0x1100) => format!("WriteTimeout cl={} received={received} required={blockfor} write_type={}", cl_name(*cl), write_type_dump(write_type)),
        (ErrExtra::ReadTimeout { cl, received, blockfor, data_present }, 0x1200) => format!("ReadTimeout cl={} received={received} required={blockfor} data_present={}", cl_name(*cl), *data_present != 0),
        (ErrExtra::ReadFailure { cl, received, blockfor, numfailures, data_present }, 0x1300) => format!("ReadFailure cl={} received={received} required={blockfor} numfailures={numfailures} data_present={}", cl_name(*cl), *data_present != 0),
        (ErrExtra::FunctionFailure { ks, function, arg_types }, 0x1400) => format!("FunctionFailure ks={ks} function={function} args={arg_types:?}"),
        (ErrExtra::WriteFailure { cl, received, blockfor, numfailures, write_type }, 0x1500) => format!("WriteFailure cl={} received={received} required={blockfor} numfailures={numfailures} write_type={}", cl_name(*cl), write_type_dump(write_type)),
        (_, 0x2000) => "SyntaxError".into(),
        (_, 0x2100) => "Unauthorized".into(),
        (_, 0x2200) => "Invalid".into(),
        (_, 0x2300) => "ConfigError".into(),
        (ErrExtra::AlreadyExists { ks, table }, 0x2400) => format!("AlreadyExists ks={ks} table={table}"),
        (ErrExtra::Unprepared { id }, 0x2500) => format!("Unprepared id={}", p_hex(id)),
        (_, c) => format!("Other({c})"),
    };
    head + &body
}

fn rows_meta_dump(m: &RowsMeta, nested_in_prepared: bool, feat: u8, out: &mut String) {
    let mid = feat & FEAT_MID != 0;
    if nested_in_prepared {
        // the id comes from the Prepared header; specs are empty under no_metadata but the count is kept
        out.push_str(&format!(" result_meta col_count={}\n", m.cols.len()));
        if !m.no_metadata {
            dump_colspecs(&m.cols, out);
        }
        return;
    }
    out.push_str(&format!(" paging={}\n", m.paging_state.as_ref().map(|x| p_hex(x)).unwrap_or("none".into())));
    if m.no_metadata {
        out.push_str(" meta id=none col_count=0\n");
    } else {
        let id = if mid { m.new_metadata_id.as_ref().map(|x| p_hex(x)) } else { None };
        out.push_str(&format!(" meta id={} col_count={}\n", id.unwrap_or("none".into()), m.cols.len()));
        dump_colspecs(&m.cols, out);
    }
}

/// What a conforming decoder told `feat` produces for this response (extensions included).
/// None = the encoding assumed other features; only robustness is checked there.
pub fn expected_dump(item: &Item, ext: &Ext, stream: i16, feat: u8, cached: Option<&RowsMeta>) -> Option<String> {
    if item.needs & !feat != 0 || item.breaks_under & feat != 0 {
        return None;
    }
    let mut out = String::new();
    out.push_str(&format!("frame stream={stream} opcode={:#04x}\n", item.resp.opcode()));
    out.push_str(&format!("ext trace={} warnings={:?} payload=", ext.tracing.map(|t| p_hex(&t)).unwrap_or("none".into()), ext.warnings.clone().unwrap_or_default()));
    match &ext.payload {
        None => out.push_str("none\n"),
        Some(p) => {
            let mut m = std::collections::BTreeMap::new();
            for (k, v) in p {
                m.insert(k.clone(), p_hex(v));
            }
            out.push_str(&format!("{m:?}\n"));
        }
    }
    match &item.resp {
        Response::Ready => out.push_str("READY\n"),
        Response::Authenticate(a) => out.push_str(&format!("AUTHENTICATE {a:?}\n")),
        Response::AuthChallenge(t) => out.push_str(&format!("AUTH_CHALLENGE {}\n", t.as_ref().map(|x| p_hex(x)).unwrap_or("null".into()))),
        Response::AuthSuccess(t) => out.push_str(&format!("AUTH_SUCCESS {}\n", t.as_ref().map(|x| p_hex(x)).unwrap_or("null".into()))),
        Response::Supported(s) => {
            let mut m = std::collections::BTreeMap::new();
            for (k, v) in s {
                m.insert(k.clone(), v.clone());
            }
            out.push_str(&format!("SUPPORTED {m:?}\n"));
        }
        Response::Error(e) => {
            out.push_str(&error_dump(e, feat));
            out.push('\n');
        }
        Response::Event(ev) => match ev {
            Event::Topology { change, addr } => out.push_str(&format!("EVENT topology {} {}\n", if change == "NEW_NODE" { "NewNode" } else { "RemovedNode" }, inet_dump(addr))),
            Event::Status { change, addr } => out.push_str(&format!("EVENT status {} {}\n", if change == "UP" { "Up" } else { "Down" }, inet_dump(addr))),
            Event::Schema(s) => out.push_str(&format!("EVENT {}\n", schema_change_dump(s))),
            Event::ClientRoutes { connection_ids, host_ids, .. } => out.push_str(&format!("EVENT routes conns={connection_ids:?} hosts={:?}\n", host_ids.iter().map(|h| h.to_lowercase()).collect::<Vec<_>>())),
        },
        Response::Result(r) => match r {
            ResultBody::Void => out.push_str("RESULT void\n"),
            ResultBody::SetKeyspace(k) => out.push_str(&format!("RESULT set_keyspace {k:?}\n")),
            ResultBody::SchemaChange(s) => out.push_str(&format!("RESULT {}\n", schema_change_dump(s))),
            ResultBody::Prepared(pr) => {
                let mid = feat & FEAT_MID != 0;
                out.push_str(&format!("RESULT prepared id={} result_metadata_id={}\n", p_hex(&pr.id), if mid { p_hex(&pr.result_metadata_id) } else { "none".into() }));
                let mut pk: Vec<(u16, u16)> = pr.pk_indexes.iter().enumerate().map(|(seq, idx)| (*idx, seq as u16)).collect();
                pk.sort();
                out.push_str(&format!(" prepared_meta flags={} col_count={} pk={pk:?}\n", if pr.global.is_some() { 1 } else { 0 }, pr.cols.len()));
                dump_colspecs(&pr.cols, &mut out);
                rows_meta_dump(&pr.result, true, feat, &mut out);
            }
            ResultBody::Rows(rows) => {
                out.push_str("RESULT rows\n");
                // with no_metadata the decoder falls back on the cached metadata it was given (if any)
                let effective: Option<&RowsMeta> = if rows.meta.no_metadata { cached } else { Some(&rows.meta) };
                out.push_str(&format!(" paging={}\n", rows.meta.paging_state.as_ref().map(|x| p_hex(x)).unwrap_or("none".into())));
                match effective {
                    None => out.push_str(" meta id=none col_count=0\n"),
                    Some(m) => {
                        let id = if feat & FEAT_MID != 0 { m.new_metadata_id.as_ref().map(|x| p_hex(x)) } else { None };
                        out.push_str(&format!(" meta id={} col_count={}\n", id.unwrap_or("none".into()), m.cols.len()));
                        dump_colspecs(&m.cols, &mut out);
                    }
                }
                out.push_str(&format!(" rows_count={}\n", rows.rows.len()));
                match effective {
                    Some(m) => {
                        for row in &rows.rows {
                            out.push_str("  raw");
                            for c in row {
                                out.push_str(&format!(" {}", c.as_ref().map(|x| p_hex(x)).unwrap_or("null".into())));
                            }
                            out.push('\n');
                        }
                        for row in &rows.rows {
                            out.push_str("  val");
                            for (c, spec) in row.iter().zip(&m.cols) {
                                out.push_str(&format!(" {}", value_dump(&spec.ty, c.as_deref())));
                            }
                            out.push('\n');
                        }
                    }
                    None => {
                        // no metadata and nothing cached: rows are opaque; a decoder sees rows of zero columns
                        for _ in &rows.rows {
                            out.push_str("  raw\n");
                        }
                        for _ in &rows.rows {
                            out.push_str("  val\n");
                        }
                    }
                }
            }
        },
    }
    Some(out)
}

// ---------------------------------------------------------------------------------------------
// deviations
// ---------------------------------------------------------------------------------------------

/// replacement values of DESIGN.md 2/C08 for a field holding `cur`, truncated to the field width, deduplicated, `cur` itself removed
pub fn mutation_values(f: &Field, cur: i64) -> Vec<(i64, &'static str)> {
    let width_mask: i64 = match f.width {
        1 => 0xff,
        2 => 0xffff,
        _ => 0xffff_ffff,
    };
    let mut cands: Vec<(i64, &'static str)> = vec![(0, "0"), (1, "1"), (-1, "-1"), (-2, "-2"), (cur + 1, "+1"), (cur - 1, "-1rel"), (0x7fff, "0x7fff"), (0xffff, "0xffff"), (i32::MAX as i64, "i32max"), (i32::MIN as i64, "i32min")];
    if f.kind == FieldKind::Flags {
        // flags: every single-bit flip within the low byte plus the extremes
        for bit in 0..8 {
            cands.push((cur ^ (1 << bit), "flip"));
        }
    }
    if f.kind == FieldKind::Id && f.site == "type.id" {
        for id in [0x0000, 0x000A, 0x0016, 0x0020, 0x0021, 0x0022, 0x0030, 0x0031, 0x0032, 0x0080] {
            cands.push((id, "typeid"));
        }
    }
    if f.site == "result.kind" {
        for k in 1..=6 {
            cands.push((k, "kind"));
        }
    }
    if f.site == "header.opcode" {
        for k in 0..=0x11 {
            cands.push((k, "opcode"));
        }
    }
    if f.site == "header.version" {
        for k in [0x04, 0x83, 0x85, 0x84 ^ 0x80, 0xff] {
            cands.push((k, "version"));
        }
    }
    if f.site == "error.code" {
        for k in [0x0000, 0x000A, 0x0100, 0x1000, 0x1001, 0x1002, 0x1003, 0x1100, 0x1200, 0x1300, 0x1400, 0x1500, 0x2000, 0x2100, 0x2200, 0x2300, 0x2400, 0x2500, RATE_LIMIT_CODE as i64] {
            cands.push((k, "code"));
        }
    }
    let mut seen = std::collections::BTreeSet::new();
    let mut out = Vec::new();
    let cur_m = cur & width_mask;
    for (v, label) in cands {
        let m = v & width_mask;
        if m == cur_m || !seen.insert(m) {
            continue;
        }
        out.push((m, label));
    }
    out
}

pub fn read_field(buf: &[u8], f: &Field) -> i64 {
    match f.width {
        1 => buf[f.off] as i8 as i64,
        2 => u16::from_be_bytes([buf[f.off], buf[f.off + 1]]) as i64,
        _ => i32::from_be_bytes([buf[f.off], buf[f.off + 1], buf[f.off + 2], buf[f.off + 3]]) as i64,
    }
}

pub fn write_field(buf: &mut [u8], f: &Field, v: i64) {
    match f.width {
        1 => buf[f.off] = v as u8,
        2 => buf[f.off..f.off + 2].copy_from_slice(&(v as u16).to_be_bytes()),
        _ => buf[f.off..f.off + 4].copy_from_slice(&(v as u32).to_be_bytes()),
    }
}

/// Deep nesting: a Rows (or Prepared) result whose single column type is `shape` nested `depth` times around int.
/// Built directly as bytes (a recursive model would overflow the *harness* stack at 1e6 levels).
pub fn nested_type_body(shape: &str, depth: usize, in_prepared: bool) -> Vec<u8> {
    let mut w: Vec<u8> = Vec::with_capacity(depth * 8 + 128);
    let put_s = |w: &mut Vec<u8>, s: &str| {
        w.extend_from_slice(&(s.len() as u16).to_be_bytes());
        w.extend_from_slice(s.as_bytes());
    };
    if in_prepared {
        w.extend_from_slice(&4i32.to_be_bytes());
        w.extend_from_slice(&[0, 1, 0x42]); // id
        w.extend_from_slice(&1i32.to_be_bytes()); // flags: global
        w.extend_from_slice(&1i32.to_be_bytes()); // col_count
        w.extend_from_slice(&0i32.to_be_bytes()); // pk_count
    } else {
        w.extend_from_slice(&2i32.to_be_bytes());
        w.extend_from_slice(&1i32.to_be_bytes()); // flags: global
        w.extend_from_slice(&1i32.to_be_bytes()); // col_count
    }
    put_s(&mut w, "ks");
    put_s(&mut w, "t");
    put_s(&mut w, "c");
    let int = 0x0009u16.to_be_bytes();
    match shape {
        "list" | "set" => {
            let id: u16 = if shape == "list" { 0x20 } else { 0x22 };
            for _ in 0..depth {
                w.extend_from_slice(&id.to_be_bytes());
            }
            w.extend_from_slice(&int);
        }
        "map-value" => {
            for _ in 0..depth {
                w.extend_from_slice(&0x21u16.to_be_bytes());
                w.extend_from_slice(&int);
            }
            w.extend_from_slice(&int);
        }
        "map-key" => {
            for _ in 0..depth {
                w.extend_from_slice(&0x21u16.to_be_bytes());
            }
            w.extend_from_slice(&int);
            for _ in 0..depth {
                w.extend_from_slice(&int);
            }
        }
        "tuple" => {
            for _ in 0..depth {
                w.extend_from_slice(&0x31u16.to_be_bytes());
                w.extend_from_slice(&1u16.to_be_bytes());
            }
            w.extend_from_slice(&int);
        }
        "udt" => {
            for _ in 0..depth {
                w.extend_from_slice(&0x30u16.to_be_bytes());
                put_s(&mut w, "");
                put_s(&mut w, "");
                w.extend_from_slice(&1u16.to_be_bytes());
                put_s(&mut w, "");
            }
            w.extend_from_slice(&int);
        }
        // class-string nests: one custom type whose string nests `depth` times (capped by the 65535-byte [string])
        s if s.starts_with("class:") => {
            let (open, close, leaf): (&str, &str, &str) = match &s[6..] {
                "list" => ("ListType(", ")", "Int32Type"),
                "frozen" => ("FrozenType(", ")", "Int32Type"),
                "tuple" => ("TupleType(", ")", "Int32Type"),
                "vector" => ("VectorType(", ",1)", "Int32Type"),
                "map-arity" => ("MapType(", ")", "Int32Type"), // one parameter where two are required, at every level
                "list-arity" => ("ListType(Int32Type,", ")", "Int32Type"), // two parameters where one is required
                "udt" => ("UserType(ks,61,61:", ")", "Int32Type"),
                "open-only" => ("ListType(", "", ""),
                _ => ("ListType(", ")", "Int32Type"),
            };
            let mut cls = String::new();
            for _ in 0..depth {
                cls.push_str(open);
            }
            cls.push_str(leaf);
            for _ in 0..depth {
                cls.push_str(close);
            }
            cls.truncate(65535);
            w.extend_from_slice(&0u16.to_be_bytes());
            put_s(&mut w, &cls);
        }
        _ => w.extend_from_slice(&int),
    }
    if in_prepared {
        // result metadata: no_metadata, 0 columns
        w.extend_from_slice(&4i32.to_be_bytes());
        w.extend_from_slice(&0i32.to_be_bytes());
    } else {
        w.extend_from_slice(&0i32.to_be_bytes()); // rows_count
    }
    w
}

/// A Rows (or Prepared) result body whose single column has custom type id 0x0000 with the given class-string bytes
/// (raw bytes: the [string] may deliberately hold invalid UTF-8).
pub fn custom_type_body(class: &[u8], in_prepared: bool) -> Vec<u8> {
    let mut w: Vec<u8> = Vec::with_capacity(class.len() + 64);
    let put_s = |w: &mut Vec<u8>, s: &[u8]| {
        w.extend_from_slice(&(s.len() as u16).to_be_bytes());
        w.extend_from_slice(s);
    };
    if in_prepared {
        w.extend_from_slice(&4i32.to_be_bytes());
        w.extend_from_slice(&[0, 1, 0x42]);
        w.extend_from_slice(&1i32.to_be_bytes());
        w.extend_from_slice(&1i32.to_be_bytes());
        w.extend_from_slice(&0i32.to_be_bytes());
    } else {
        w.extend_from_slice(&2i32.to_be_bytes());
        w.extend_from_slice(&1i32.to_be_bytes());
        w.extend_from_slice(&1i32.to_be_bytes());
    }
    put_s(&mut w, b"ks");
    put_s(&mut w, b"t");
    put_s(&mut w, b"c");
    w.extend_from_slice(&0u16.to_be_bytes());
    put_s(&mut w, class);
    if in_prepared {
        w.extend_from_slice(&4i32.to_be_bytes());
        w.extend_from_slice(&0i32.to_be_bytes());
    } else {
        w.extend_from_slice(&0i32.to_be_bytes());
    }
    w
}

/// A Rows result with one column of custom class `class` and one single-cell row per entry of `cells`
pub fn custom_type_rows_body(class: &[u8], cells: &[Option<Vec<u8>>]) -> Vec<u8> {
    let mut w = custom_type_body(class, false);
    w.truncate(w.len() - 4);
    w.extend_from_slice(&(cells.len() as i32).to_be_bytes());
    for c in cells {
        cell(&mut w, c.as_deref());
    }
    w
}

/// `VectorType(VectorType(...(<leaf>, d)..., d), d)` nested `depth` times
pub fn nested_vector_class(leaf: &str, depth: usize, dim: &str) -> String {
    let mut s = String::new();
    for _ in 0..depth {
        s.push_str("VectorType(");
    }
    s.push_str(leaf);
    for _ in 0..depth {
        s.push_str(&format!(", {dim})"));
    }
    s
}

/// metadata with `ncols` int columns whose keyspace / table names are `name_len` bytes long, with a global
/// table spec or one per column; as a Rows result (borrowed metadata path) or a Prepared result (owned path, twice)
pub fn table_spec_item(ncols: usize, name_len: usize, global: bool, prepared: bool) -> Response {
    let ks = "k".repeat(name_len);
    let tb = "t".repeat(name_len);
    let cols: Vec<ColSpec> = (0..ncols).map(|_| ColSpec { ks: ks.clone(), table: tb.clone(), name: String::new(), ty: Ty::Native(native::INT) }).collect();
    let g = global.then(|| (ks.clone(), tb.clone()));
    let m = RowsMeta { global: g.clone(), paging_state: None, no_metadata: false, new_metadata_id: None, cols: cols.clone() };
    if prepared {
        Response::Result(ResultBody::Prepared(Prepared { id: vec![1], result_metadata_id: vec![], global: g, pk_indexes: vec![], cols, result: m }))
    } else {
        Response::Result(ResultBody::Rows(Rows { meta: m, rows: vec![] }))
    }
}

/// Class-string templates with one hole (`{}`): every identifier / hex / number position of the TypeParser grammar.
pub fn class_templates() -> Vec<(&'static str, &'static str)> {
    vec![
        ("udt.keyspace", "org.apache.cassandra.db.marshal.UserType({},61,62:Int32Type)"),
        ("udt.hexname", "org.apache.cassandra.db.marshal.UserType(ks,{},62:Int32Type)"),
        ("udt.hexfield", "UserType(ks,61,{}:Int32Type)"),
        ("udt.hexfield2", "UserType(ks,61,62:Int32Type,{}:UTF8Type)"),
        ("udt.fieldtype", "UserType(ks,61,62:{})"),
        ("udt.nested.hexname", "ListType(FrozenType(UserType(ks,{},62:MapType(Int32Type,UserType(k2,63,64:Int32Type)))))"),
        ("udt.nested.hexfield", "MapType(Int32Type,UserType(ks,61,62:UserType(k2,63,{}:Int32Type)))"),
        ("hexprefix", "{}:Int32Type"),
        ("identifier", "{}"),
        ("identifier.params", "{}(Int32Type)"),
        ("list.param", "ListType({})"),
        ("map.param2", "MapType(Int32Type,{})"),
        ("tuple.param", "TupleType(Int32Type,{},UTF8Type)"),
        ("vector.dimension", "VectorType(Int32Type,{})"),
        ("vector.param", "VectorType({},3)"),
    ]
}

/// Substitution alphabet: hex digits, non-hex ASCII alphanumerics and identifier punctuation, and 2-, 3-, 4-byte
/// UTF-8 alphanumerics (`char::is_alphanumeric` accepts them), so multi-byte characters land on odd and even offsets.
pub const CLASS_SYMBOLS: [&str; 10] = ["a", "0", "7", "g", "_", ".", "\u{e9}", "\u{663}", "\u{4e2d}", "\u{1d7d8}"];

pub fn plain_frame(opcode: u8, flags: u8, stream: i16, body: &[u8]) -> Vec<u8> {
    let mut f = Vec::with_capacity(9 + body.len());
    f.push(0x84);
    f.push(flags);
    f.extend_from_slice(&stream.to_be_bytes());
    f.push(opcode);
    f.extend_from_slice(&(body.len() as u32).to_be_bytes());
    f.extend_from_slice(body);
    f
}

pub fn comp_code(c: Comp) -> u8 {
    match c {
        Comp::None => 0,
        Comp::Lz4 => 1,
        Comp::Snappy => 2,
    }
}
pub fn comp_from(c: u8) -> Comp {
    match c {
        1 => Comp::Lz4,
        2 => Comp::Snappy,
        _ => Comp::None,
    }
}

pub use p::opcode;
