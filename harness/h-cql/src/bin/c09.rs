//! C09 - request frames on the wire say exactly what the caller asked for.
//! Engine E-ENUM: every request the driver can build (QUERY, PREPARE, EXECUTE, BATCH, STARTUP,
//! REGISTER, OPTIONS, AUTH_RESPONSE) over the option / value-list / length-boundary alphabets of
//! DESIGN.md 2/C09 is serialized with `SerializedRequest::make` and read back by the independent
//! parser `cqlref::proto` (own LZ4 block / Snappy raw decoders). Oversize inputs must be refused.
#![allow(deprecated)]

use cqlref::proto::{self as p, BatchStmt, Comp, QueryParams, Request, Val};
use scylla_cql::frame::request::batch::{BatchStatement, BatchType};
use scylla_cql::frame::request::execute::ExecuteV2;
use scylla_cql::frame::request::query::{PagingState, QueryParameters};
use scylla_cql::frame::request::register::{Register, RegisterV2};
use scylla_cql::frame::request::{AuthResponse, Batch, Execute, Options, Prepare, Query, SerializableRequest, Startup};
use scylla_cql::frame::response::result::cow_bytes::CowBytes;
use scylla_cql::frame::response::result::{ColumnType, NativeType};
use scylla_cql::frame::server_event_type::{EventType, EventTypeV2};
use scylla_cql::frame::types::{Consistency, SerialConsistency};
use scylla_cql::frame::{Compression, SerializedRequest};
use scylla_cql::serialize::row::SerializedValues;
use scylla_cql::value::Unset;
use serde_json::{Value, json};
use std::borrow::Cow;
use std::collections::{BTreeSet, HashMap};
use std::sync::{Mutex, OnceLock};
use vcore::{Report, catch};

// ---------------------------------------------------------------------------------------------
// alphabets
// ---------------------------------------------------------------------------------------------

const CONSISTENCIES: [(Consistency, u16); 11] = [
    (Consistency::Any, 0),
    (Consistency::One, 1),
    (Consistency::Two, 2),
    (Consistency::Three, 3),
    (Consistency::Quorum, 4),
    (Consistency::All, 5),
    (Consistency::LocalQuorum, 6),
    (Consistency::EachQuorum, 7),
    (Consistency::Serial, 8),
    (Consistency::LocalSerial, 9),
    (Consistency::LocalOne, 10),
];
const SERIALS: [(SerialConsistency, u16); 2] = [(SerialConsistency::Serial, 8), (SerialConsistency::LocalSerial, 9)];
const PAGE_SIZES: [i32; 5] = [1, 5000, i32::MAX, 0, -1];
const TIMESTAMPS: [i64; 5] = [0, -1, i64::MIN, i64::MAX, 1_234_567_890_123_456];
const STREAMS: [i16; 5] = [0, 1, -1, i16::MAX, i16::MIN];
const COMPS: [Comp; 3] = [Comp::None, Comp::Lz4, Comp::Snappy];

fn paging_state_alt(i: usize) -> Vec<u8> {
    match i % 3 {
        0 => vec![],
        1 => vec![0xAB],
        _ => (0..300u32).map(|x| (x * 7) as u8).collect(),
    }
}

/// statement texts; byte length differs from char count on purpose (multi-byte UTF-8)
fn texts() -> &'static Vec<String> {
    static T: OnceLock<Vec<String>> = OnceLock::new();
    T.get_or_init(|| {
        vec![
            String::new(),
            "a".to_string(),
            "SELECT \u{e9}\u{4e16} FROM t WHERE k = ?".to_string(),
            format!("a{}", "\u{e9}".repeat(32767)),  // 65535 bytes
            format!("{}", "\u{e9}".repeat(32768)),   // 65536 bytes
        ]
    })
}
fn ids() -> &'static Vec<Vec<u8>> {
    static T: OnceLock<Vec<Vec<u8>>> = OnceLock::new();
    T.get_or_init(|| vec![vec![], vec![7], (0..16).collect(), (0..65535u32).map(|x| (x % 251) as u8).collect()])
}

/// value-list alphabet. 0 = empty (flag absent). 1..=3 one value, 4..=12 two values, 13 = 65535 values,
/// 14 = [empty value, 70000-byte value, null]
const N_VALUE_LISTS: usize = 15;
fn one(k: usize) -> Val {
    match k {
        0 => Val::Bytes(vec![0, 0, 0, 42]),
        1 => Val::Null,
        _ => Val::Unset,
    }
}
fn value_list(i: usize) -> Vec<Val> {
    match i {
        0 => vec![],
        1..=3 => vec![one(i - 1)],
        4..=12 => vec![one((i - 4) / 3), one((i - 4) % 3)],
        13 => (0..65535usize).map(|k| if k % 3 == 0 { Val::Bytes((k as u32).to_be_bytes().to_vec()) } else { one(k % 3) }).collect(),
        _ => vec![Val::Bytes(vec![]), Val::Bytes((0..70000u32).map(|x| (x % 253) as u8).collect()), Val::Null],
    }
}

fn blob() -> ColumnType<'static> {
    ColumnType::Native(NativeType::Blob)
}
fn int() -> ColumnType<'static> {
    ColumnType::Native(NativeType::Int)
}

/// Build the driver's value list for a reference list; Err(text) if the driver refuses.
fn build_values(vals: &[Val]) -> Result<SerializedValues, String> {
    let mut sv = SerializedValues::new();
    for v in vals {
        let r = match v {
            Val::Bytes(b) => sv.add_value(&b.as_slice(), &blob()),
            Val::Null => sv.add_value(&Option::<i32>::None, &int()),
            Val::Unset => sv.add_value(&Unset, &int()),
        };
        r.map_err(|e| e.to_string())?;
    }
    Ok(sv)
}

/// cached driver value lists (the 65535-value list is expensive to rebuild)
fn cached_values(i: usize) -> &'static (Vec<Val>, SerializedValues) {
    static C: OnceLock<Vec<(Vec<Val>, SerializedValues)>> = OnceLock::new();
    &C.get_or_init(|| {
        (0..N_VALUE_LISTS)
            .map(|i| {
                let v = value_list(i);
                let sv = build_values(&v).unwrap_or_else(|e| vcore::machinery_error(&format!("value list {i} refused: {e}")));
                (v, sv)
            })
            .collect()
    })[i]
}

fn comp_of(c: Comp) -> Option<Compression> {
    match c {
        Comp::None => None,
        Comp::Lz4 => Some(Compression::Lz4),
        Comp::Snappy => Some(Compression::Snappy),
    }
}

// ---------------------------------------------------------------------------------------------
// the common oracle: frame bytes vs what was asked
// ---------------------------------------------------------------------------------------------

struct Ctx<'a> {
    r: &'a Report,
    flag_bytes_seen: Mutex<BTreeSet<(u8, u8)>>, // (opcode, query/batch flags byte)
    reported: Mutex<BTreeSet<String>>,
}

/// Serialize with the driver, parse with cqlref, compare with `want`.
fn check_frame<R: SerializableRequest>(cx: &Ctx, kind: &str, req: &R, opcode: u8, want: &Request, tracing: bool, comp: Comp, stream: i16, mid_ext: bool, case: &Value) {
    let r = cx.r;
    r.eval(1);
    r.counters.add(&format!("frames_{kind}"), 1);
    let made = catch(std::panic::AssertUnwindSafe(|| SerializedRequest::make(req, comp_of(comp), tracing)));
    let mut sr = match made {
        Err(pn) => return r.violation(&format!("{kind}:panic"), &format!("SerializedRequest::make panicked ({pn}) at {}", vcore::last_panic_location()), case.clone()),
        Ok(Err(e)) => return r.violation(&format!("{kind}:refused-valid"), &format!("a valid request was refused: {e}"), case.clone()),
        Ok(Ok(sr)) => sr,
    };
    sr.set_stream(stream);
    let frame = sr.get_data();
    let h = match p::parse_header(frame) {
        Ok(h) => h,
        Err(e) => return r.violation(&format!("{kind}:header"), &e, case.clone()),
    };
    if h.version != 4 {
        return r.violation(&format!("{kind}:header-version"), &format!("version byte {:#04x}, want 0x04", h.version), case.clone());
    }
    if h.opcode != opcode {
        return r.violation(&format!("{kind}:header-opcode"), &format!("opcode {:#04x}, want {opcode:#04x}", h.opcode), case.clone());
    }
    if h.stream != stream {
        return r.violation(&format!("{kind}:header-stream"), &format!("stream {}, want {stream}", h.stream), case.clone());
    }
    let want_flags = if comp != Comp::None { p::FLAG_COMPRESSION } else { 0 } | if tracing { p::FLAG_TRACING } else { 0 };
    if h.flags != want_flags {
        return r.violation(&format!("{kind}:header-flags"), &format!("header flags {:#04x}, options used imply {want_flags:#04x}", h.flags), case.clone());
    }
    if h.length as usize != frame.len() - p::HEADER_LEN {
        return r.violation(&format!("{kind}:header-length"), &format!("length field {} but body has {} bytes", h.length, frame.len() - p::HEADER_LEN), case.clone());
    }
    let parsed = match p::parse_request_frame(frame, comp, mid_ext) {
        Ok(f) => f,
        Err(e) => return r.violation(&format!("{kind}:unparseable"), &format!("independent parser rejects the frame: {e}"), case.clone()),
    };
    if &parsed.request != want {
        // (formatting a 65535-value request is expensive: only for the first case of the key)
        let key = format!("{kind}:body-mismatch");
        if cx.reported.lock().unwrap().insert(key.clone()) {
            r.violation(&key, &format!("frame says {} but the caller asked for {}", brief(&parsed.request), brief(want)), case.clone());
        }
        return;
    }
    if comp != Comp::None {
        // compressed body must decompress to exactly the uncompressed serialization
        match catch(std::panic::AssertUnwindSafe(|| SerializedRequest::make(req, None, tracing))) {
            Ok(Ok(plain)) => {
                if plain.get_data()[p::HEADER_LEN..] != parsed.body[..] {
                    return r.violation(&format!("{kind}:compressed-body-differs"), "decompressed body differs from the uncompressed serialization", case.clone());
                }
                r.counters.add("compressed_frames_decompressed_and_compared", 1);
                if frame.len() < plain.get_data().len() {
                    r.counters.add("compressed_frames_actually_smaller", 1);
                }
            }
            _ => return r.violation(&format!("{kind}:refused-valid"), "uncompressed twin was refused", case.clone()),
        }
    }
    match &parsed.request {
        Request::Query { params, .. } | Request::Execute { params, .. } => {
            cx.flag_bytes_seen.lock().unwrap().insert((opcode, params.flags));
            let n_opt = params.flags.count_ones();
            if n_opt >= 2 || comp != Comp::None {
                r.nontrivial(1);
            }
        }
        Request::Batch { flags, statements, .. } => {
            cx.flag_bytes_seen.lock().unwrap().insert((opcode, *flags));
            if statements.len() >= 2 || comp != Comp::None {
                r.nontrivial(1);
            }
        }
        _ => r.nontrivial(1),
    }
}

/// The driver must refuse: no frame may come out.
fn check_refused<R: SerializableRequest>(cx: &Ctx, kind: &str, why: &str, req: &R, tracing: bool, comp: Comp, case: &Value) {
    let r = cx.r;
    r.eval(1);
    r.counters.add("refusal_cases", 1);
    match catch(std::panic::AssertUnwindSafe(|| SerializedRequest::make(req, comp_of(comp), tracing))) {
        Err(pn) => r.violation(&format!("{kind}:panic"), &format!("SerializedRequest::make panicked ({pn}) at {} on {why}", vcore::last_panic_location()), case.clone()),
        Ok(Ok(sr)) => r.violation(&format!("{kind}:oversize-not-refused:{why}"), &format!("{why}: a frame of {} bytes was produced instead of an error", sr.get_data().len()), case.clone()),
        Ok(Err(_)) => {
            r.nontrivial(1);
        }
    }
}

fn brief(q: &Request) -> String {
    let s = format!("{q:?}");
    if s.len() > 400 { format!("{}...[{} chars]", &s[..400], s.len()) } else { s }
}

// ---------------------------------------------------------------------------------------------
// QUERY / EXECUTE
// ---------------------------------------------------------------------------------------------

#[derive(Clone, Copy, Debug)]
struct QCase {
    kind: u8, // 0 QUERY, 1 EXECUTE (ExecuteV2), 2 EXECUTE (deprecated Execute)
    subset: u8, // bit0 values, bit1 skip_metadata, bit2 page size, bit3 paging state, bit4 serial, bit5 timestamp
    vals: u8,
    cons: u8,
    text: u8, // index into texts() / ids()
    mid: u8,  // EXECUTE: 0 none, 1 empty id, 2 16-byte id, 3 65535-byte id
    tracing: bool,
    comp: u8,
    variant: u16, // rotates field contents through their alphabets
}

impl QCase {
    fn to_json(self) -> Value {
        json!({"leg":"qe","kind":self.kind,"subset":self.subset,"vals":self.vals,"cons":self.cons,"text":self.text,"mid":self.mid,"tracing":self.tracing,"comp":self.comp,"variant":self.variant})
    }
    fn from_json(v: &Value) -> QCase {
        let g = |k: &str| v[k].as_u64().unwrap_or(0);
        QCase { kind: g("kind") as u8, subset: g("subset") as u8, vals: g("vals") as u8, cons: g("cons") as u8, text: g("text") as u8, mid: g("mid") as u8, tracing: v["tracing"].as_bool().unwrap_or(false), comp: g("comp") as u8, variant: g("variant") as u16 }
    }
}

fn mid_bytes(mid: u8) -> Option<Vec<u8>> {
    match mid {
        0 => None,
        1 => Some(vec![]),
        2 => Some((100..116).collect()),
        _ => Some((0..65535u32).map(|x| (x % 241) as u8).collect()),
    }
}

fn run_qcase(cx: &Ctx, c: QCase) {
    let v = c.variant as usize;
    let (vals_ref, sv) = cached_values(if c.subset & 1 != 0 { c.vals as usize } else { 0 });
    let (cons, cons_code) = CONSISTENCIES[c.cons as usize];
    let page_size = (c.subset & 4 != 0).then(|| PAGE_SIZES[v % PAGE_SIZES.len()]);
    let paging = (c.subset & 8 != 0).then(|| paging_state_alt(v));
    let serial = (c.subset & 16 != 0).then(|| SERIALS[v % 2]);
    let timestamp = (c.subset & 32 != 0).then(|| TIMESTAMPS[v % TIMESTAMPS.len()]);
    let skip = c.subset & 2 != 0;
    let stream = STREAMS[v % STREAMS.len()];
    let params = QueryParameters {
        consistency: cons,
        serial_consistency: serial.map(|s| s.0),
        timestamp,
        page_size,
        paging_state: match &paging {
            Some(b) => PagingState::new_from_raw_bytes(b.as_slice()),
            None => PagingState::start(),
        },
        skip_metadata: skip,
        values: Cow::Borrowed(sv),
    };
    let mut flags = 0u8;
    if !vals_ref.is_empty() {
        flags |= 0x01;
    }
    if skip {
        flags |= 0x02;
    }
    if page_size.is_some() {
        flags |= 0x04;
    }
    if paging.is_some() {
        flags |= 0x08;
    }
    if serial.is_some() {
        flags |= 0x10;
    }
    if timestamp.is_some() {
        flags |= 0x20;
    }
    let want_params = QueryParams {
        consistency: cons_code,
        flags,
        values: (!vals_ref.is_empty()).then(|| vals_ref.clone()),
        skip_metadata: skip,
        page_size,
        paging_state: paging.clone(),
        serial_consistency: serial.map(|s| s.1),
        timestamp,
    };
    let comp = COMPS[c.comp as usize];
    let case = c.to_json();
    match c.kind {
        0 => {
            let text = &texts()[c.text as usize];
            let q = Query { contents: Cow::Borrowed(text.as_str()), parameters: params };
            let want = Request::Query { text: text.clone(), params: want_params };
            check_frame(cx, "query", &q, p::opcode::QUERY, &want, c.tracing, comp, stream, false, &case);
        }
        1 => {
            let id = &ids()[c.text as usize];
            let mid = mid_bytes(c.mid);
            let e = ExecuteV2 { id: CowBytes::Borrowed(id.as_slice()), result_metadata_id: mid.as_deref().map(CowBytes::Borrowed), parameters: params };
            let want = Request::Execute { id: id.clone(), result_metadata_id: mid.clone(), params: want_params };
            check_frame(cx, "execute", &e, p::opcode::EXECUTE, &want, c.tracing, comp, stream, mid.is_some(), &case);
        }
        _ => {
            let id = &ids()[c.text as usize];
            let e = Execute { id: bytes::Bytes::copy_from_slice(id), parameters: params };
            let want = Request::Execute { id: id.clone(), result_metadata_id: None, params: want_params };
            check_frame(cx, "execute-v1", &e, p::opcode::EXECUTE, &want, c.tracing, comp, stream, false, &case);
        }
    }
}

fn qcases(thorough: bool) -> Vec<QCase> {
    let mut out = Vec::new();
    let mut variant: u16 = 0;
    let mut push = |out: &mut Vec<QCase>, kind: u8, subset: u8, vals: u8, cons: u8, text: u8, mid: u8| {
        // the huge shapes (65535 values / 64 KiB texts and ids) are not multiplied by every consistency in the quick tier
        let huge = vals == 13 || vals == 14 || (kind == 0 && text >= 3) || (kind != 0 && text == 3) || mid == 3;
        if huge && !thorough && !(cons == 1 || cons == 6 || cons == 10) {
            return;
        }
        for tracing in [false, true] {
            for comp in 0..3u8 {
                let n_var = if thorough { 10 } else { 1 };
                for _ in 0..n_var {
                    variant = variant.wrapping_add(1);
                    out.push(QCase { kind, subset, vals, cons, text, mid, tracing, comp, variant });
                }
            }
        }
    };
    // simplest first: subsets in order of population count
    let mut subsets: Vec<u8> = (0..64).collect();
    subsets.sort_by_key(|s| (s.count_ones(), *s));
    for &subset in &subsets {
        let val_range: Vec<u8> = if subset & 1 != 0 { (1..N_VALUE_LISTS as u8).collect() } else { vec![0] };
        for &vals in &val_range {
            for cons in 0..11u8 {
                for text in 0..texts().len() as u8 {
                    push(&mut out, 0, subset, vals, cons, text, 0);
                }
                for id in 0..ids().len() as u8 {
                    push(&mut out, 1, subset, vals, cons, id, 0);
                    if thorough {
                        for mid in 1..4u8 {
                            push(&mut out, 1, subset, vals, cons, id, mid);
                        }
                    }
                }
                if !thorough {
                    for mid in 1..4u8 {
                        push(&mut out, 1, subset, vals, cons, 2, mid);
                    }
                }
                // deprecated Execute struct shares QueryParameters::serialize: ids only
                if vals <= 1 || thorough {
                    for id in 0..ids().len() as u8 {
                        push(&mut out, 2, subset, vals, cons, id, 0);
                    }
                }
            }
        }
    }
    out
}

fn query_execute_refusals(cx: &Ctx, thorough: bool) {
    // 65536 values: the value list itself must refuse the 65536th value and stay intact
    {
        cx.r.eval(1);
        let (_, sv) = cached_values(13);
        let mut sv = sv.clone();
        let before = (sv.element_count(), sv.buffer_size());
        let res = sv.add_value(&1i32, &int());
        if res.is_ok() || (sv.element_count(), sv.buffer_size()) != before {
            cx.r.violation("values:65536-not-refused", &format!("adding value 65536: result ok={}, count/size {:?} -> {:?}", res.is_ok(), before, (sv.element_count(), sv.buffer_size())), json!({"leg":"refuse","what":"values-65536"}));
        } else {
            cx.r.nontrivial(1);
        }
        // (rows of 65536+ values through every SerializeRow / closure / batch path: see value_builders)
    }
    // 65536-byte prepared id / result metadata id
    let big_id: Vec<u8> = vec![9; 65536];
    for tracing in [false, true] {
        for comp in COMPS {
            let e = ExecuteV2 { id: CowBytes::Borrowed(&big_id), result_metadata_id: None, parameters: QueryParameters::default() };
            check_refused(cx, "execute", "prepared id of 65536 bytes", &e, tracing, comp, &json!({"leg":"refuse","what":"execute-id-65536","tracing":tracing,"comp":comp as u8}));
            let e = ExecuteV2 { id: CowBytes::Borrowed(&[1, 2, 3]), result_metadata_id: Some(CowBytes::Borrowed(&big_id)), parameters: QueryParameters::default() };
            check_refused(cx, "execute", "result metadata id of 65536 bytes", &e, tracing, comp, &json!({"leg":"refuse","what":"execute-mid-65536","tracing":tracing,"comp":comp as u8}));
            let e = Execute { id: bytes::Bytes::copy_from_slice(&big_id), parameters: QueryParameters::default() };
            check_refused(cx, "execute-v1", "prepared id of 65536 bytes", &e, tracing, comp, &json!({"leg":"refuse","what":"execute1-id-65536","tracing":tracing,"comp":comp as u8}));
        }
    }
    if thorough {
        // statement text above i32::MAX bytes must be an error, not a wrapped length
        let huge = "x".repeat(i32::MAX as usize + 1);
        let q = Query { contents: Cow::Borrowed(huge.as_str()), parameters: QueryParameters::default() };
        check_refused(cx, "query", "statement text of 2^31 bytes", &q, false, Comp::None, &json!({"leg":"refuse","what":"query-text-2g"}));
        let pr = Prepare { query: huge.as_str() };
        check_refused(cx, "prepare", "statement text of 2^31 bytes", &pr, false, Comp::None, &json!({"leg":"refuse","what":"prepare-text-2g"}));
        let b: Batch<BatchStatement, Vec<SerializedValues>> = Batch {
            statements: Cow::Owned(vec![BatchStatement::Query { text: Cow::Borrowed(huge.as_str()) }]),
            batch_type: BatchType::Logged,
            consistency: Consistency::One,
            serial_consistency: None,
            timestamp: None,
            values: vec![SerializedValues::new()],
        };
        check_refused(cx, "batch", "statement text of 2^31 bytes", &b, false, Comp::None, &json!({"leg":"refuse","what":"batch-text-2g"}));
        drop(huge);
        // paging state / auth token above i32::MAX
        let hb = vec![0u8; i32::MAX as usize + 1];
        let q = Query { contents: Cow::Borrowed("q"), parameters: QueryParameters { paging_state: PagingState::new_from_raw_bytes(hb.as_slice()), ..Default::default() } };
        check_refused(cx, "query", "paging state of 2^31 bytes", &q, false, Comp::None, &json!({"leg":"refuse","what":"query-paging-2g"}));
        let a = AuthResponse { response: Some(hb) };
        check_refused(cx, "auth_response", "token of 2^31 bytes", &a, false, Comp::None, &json!({"leg":"refuse","what":"auth-2g"}));
    }
}

// ---------------------------------------------------------------------------------------------
// value lists at the 16-bit boundary through every public way of building one
// ---------------------------------------------------------------------------------------------

const BUILDERS: [&str; 14] = [
    "vec", "slice", "boxed-vec", "ref-vec", "hashmap-string", "hashmap-str", "btreemap-string", "btreemap-str", "closure-cells", "closure-append-rows", "add-value-loop", "closure-null-unset", "batch-adapter", "batch-serialized-values",
];
const BOUNDARY_COUNTS: [usize; 8] = [0, 1, 65534, 65535, 65536, 65537, 131071, 131072];

/// `n` int values 0..n-1 bound through `builder`; the outcome must be a refusal, or a value list that is
/// faithful: announced count == encoded cells == n, and a QUERY / EXECUTE / BATCH frame carrying exactly them.
fn run_builder_case(cx: &Ctx, builder: &str, n: usize) {
    use scylla_cql::frame::response::result::{ColumnSpec, TableSpec};
    use scylla_cql::serialize::raw_batch::RawBatchValuesAdapter;
    use scylla_cql::serialize::row::RowSerializationContext;
    use std::collections::BTreeMap;
    static NAMES: OnceLock<Vec<String>> = OnceLock::new();
    let names = NAMES.get_or_init(|| (0..131072).map(|i| format!("c{i}")).collect());
    let r = cx.r;
    let case = json!({"leg":"values","builder":builder,"n":n});
    let specs: Vec<ColumnSpec> = (0..n).map(|i| ColumnSpec::borrowed(&names[i], int(), TableSpec::borrowed("ks", "t"))).collect();
    let ctx = RowSerializationContext::from_specs(&specs);
    let ints: Vec<i32> = (0..n as i32).collect();
    let mut want: Vec<Val> = ints.iter().map(|i| Val::Bytes(i.to_be_bytes().to_vec())).collect();
    r.eval(1);
    r.counters.add("value_list_builder_cases", 1);
    // ---- batch builders end in a BATCH frame directly
    if builder == "batch-adapter" || builder == "batch-serialized-values" {
        let stmts = vec![BatchStatement::Prepared { id: Cow::Borrowed(&[9u8][..]) }];
        let want_req = Request::Batch { batch_type: 0, statements: vec![(BatchStmt::Prepared(vec![9]), want.clone())], consistency: 1, flags: 0, serial_consistency: None, timestamp: None };
        let made = if builder == "batch-adapter" {
            let vals = vec![ints.clone()];
            let specs_per_stmt = [specs.as_slice()];
            let ctxs = specs_per_stmt.iter().map(|s| RowSerializationContext::from_specs(s));
            let b = Batch { statements: Cow::Owned(stmts), batch_type: BatchType::Logged, consistency: Consistency::One, serial_consistency: None, timestamp: None, values: RawBatchValuesAdapter::new(&vals, ctxs) };
            catch(std::panic::AssertUnwindSafe(|| SerializedRequest::make(&b, None, false)))
        } else {
            // pre-serialized lists: whatever a public constructor hands out is appended verbatim
            let sv = match catch(std::panic::AssertUnwindSafe(|| SerializedValues::from_serializable(&ctx, &ints))) {
                Ok(Ok(sv)) => sv,
                Ok(Err(_)) => {
                    if n <= 65535 {
                        r.violation(&format!("values:{builder}:refused-valid"), &format!("{n} values refused"), case);
                    } else {
                        r.nontrivial(1);
                    }
                    return;
                }
                Err(pn) => return r.violation(&format!("values:{builder}:panic"), &pn, case),
            };
            let b: Batch<BatchStatement, Vec<SerializedValues>> = Batch { statements: Cow::Owned(stmts), batch_type: BatchType::Logged, consistency: Consistency::One, serial_consistency: None, timestamp: None, values: vec![sv] };
            catch(std::panic::AssertUnwindSafe(|| SerializedRequest::make(&b, None, false)))
        };
        match made {
            Err(pn) => r.violation(&format!("values:{builder}:panic"), &pn, case),
            Ok(Err(e)) => {
                if n <= 65535 {
                    r.violation(&format!("values:{builder}:refused-valid"), &format!("{n} values refused: {e}"), case);
                } else {
                    r.nontrivial(1);
                }
            }
            Ok(Ok(sr)) => match p::parse_request_frame(sr.get_data(), Comp::None, false) {
                Ok(f) if f.request == want_req => r.nontrivial(1),
                Ok(f) => {
                    let got = match &f.request {
                        Request::Batch { statements, .. } => statements.first().map(|s| s.1.len()).unwrap_or(0),
                        _ => 0,
                    };
                    r.violation(&format!("values:{builder}:unfaithful-frame"), &format!("{n} values bound, the BATCH frame announces {got} for the statement"), case)
                }
                Err(e) => r.violation(&format!("values:{builder}:unfaithful-frame"), &format!("{n} values bound, the BATCH frame does not parse: {e}"), case),
            },
        }
        return;
    }
    // ---- row builders: a SerializedValues, then QUERY and EXECUTE frames
    let built: Result<Result<SerializedValues, String>, String> = catch(std::panic::AssertUnwindSafe(|| -> Result<SerializedValues, String> {
        let e = |x: scylla_cql::serialize::SerializationError| x.to_string();
        match builder {
            "vec" => SerializedValues::from_serializable(&ctx, &ints).map_err(e),
            "slice" => SerializedValues::from_serializable(&ctx, &ints.as_slice()).map_err(e),
            "boxed-vec" => SerializedValues::from_serializable(&ctx, &Box::new(ints.clone())).map_err(e),
            "ref-vec" => SerializedValues::from_serializable(&ctx, &&ints).map_err(e),
            "hashmap-string" => SerializedValues::from_serializable(&ctx, &(0..n).map(|i| (names[i].clone(), i as i32)).collect::<HashMap<String, i32>>()).map_err(e),
            "hashmap-str" => SerializedValues::from_serializable(&ctx, &(0..n).map(|i| (names[i].as_str(), i as i32)).collect::<HashMap<&str, i32>>()).map_err(e),
            "btreemap-string" => SerializedValues::from_serializable(&ctx, &(0..n).map(|i| (names[i].clone(), i as i32)).collect::<BTreeMap<String, i32>>()).map_err(e),
            "btreemap-str" => SerializedValues::from_serializable(&ctx, &(0..n).map(|i| (names[i].as_str(), i as i32)).collect::<BTreeMap<&str, i32>>()).map_err(e),
            "closure-cells" => SerializedValues::from_closure(|w| {
                for i in &ints {
                    w.make_cell_writer().set_value(&i.to_be_bytes()).unwrap();
                }
                Ok(())
            })
            .map(|x| x.0)
            .map_err(e),
            "closure-append-rows" => {
                // two pre-built halves appended into one row
                let h = n / 2;
                let a = SerializedValues::from_serializable(&RowSerializationContext::from_specs(&specs[..h]), &ints[..h].to_vec()).map_err(e)?;
                let b = SerializedValues::from_serializable(&RowSerializationContext::from_specs(&specs[h..]), &ints[h..].to_vec()).map_err(e)?;
                SerializedValues::from_closure(|w| {
                    w.append_serialize_row(&a);
                    w.append_serialize_row(&b);
                    Ok(())
                })
                .map(|x| x.0)
                .map_err(e)
            }
            "add-value-loop" => {
                let mut sv = SerializedValues::new();
                for i in &ints {
                    let before = (sv.element_count(), sv.buffer_size());
                    if let Err(x) = sv.add_value(i, &int()) {
                        if (sv.element_count(), sv.buffer_size()) != before {
                            return Err("MODIFIED-ON-REFUSAL".into());
                        }
                        return Err(e(x));
                    }
                }
                Ok(sv)
            }
            _ => SerializedValues::from_closure(|w| {
                for i in 0..n {
                    if i % 2 == 0 {
                        w.make_cell_writer().set_null();
                    } else {
                        w.make_cell_writer().set_unset();
                    }
                }
                Ok(())
            })
            .map(|x| x.0)
            .map_err(e),
        }
    }));
    if builder == "closure-null-unset" {
        want = (0..n).map(|i| if i % 2 == 0 { Val::Null } else { Val::Unset }).collect();
    }
    let sv = match built {
        Err(pn) => return r.violation(&format!("values:{builder}:panic"), &format!("building {n} values panicked: {pn}"), case),
        Ok(Err(e)) => {
            if e == "MODIFIED-ON-REFUSAL" {
                r.violation(&format!("values:{builder}:modified-on-refusal"), &format!("refusing value {n} changed the list"), case);
            } else if n <= 65535 {
                r.violation(&format!("values:{builder}:refused-valid"), &format!("{n} values refused: {e}"), case);
            } else {
                r.counters.add("oversize_value_lists_refused", 1);
                r.nontrivial(1);
            }
            return;
        }
        Ok(Ok(sv)) => sv,
    };
    // accepted: it has to be faithful
    let cells = sv.iter().count();
    if sv.element_count() as usize != n || cells != n {
        // (no return: the frames built from it are judged as well)
        r.violation(&format!("values:{builder}:unfaithful-list"), &format!("{n} values bound, the list announces {} and holds {cells} cells", sv.element_count()), case.clone());
    }
    let params = QueryParameters { consistency: Consistency::One, values: Cow::Borrowed(&sv), ..Default::default() };
    let want_params = QueryParams { consistency: 1, flags: if n > 0 { 1 } else { 0 }, values: (n > 0).then(|| want.clone()), skip_metadata: false, page_size: None, paging_state: None, serial_consistency: None, timestamp: None };
    let q = Query { contents: Cow::Borrowed("q"), parameters: params };
    check_frame(cx, &format!("values:{builder}:query"), &q, p::opcode::QUERY, &Request::Query { text: "q".into(), params: want_params.clone() }, false, if n % 2 == 0 { Comp::None } else { Comp::Lz4 }, 1, false, &case);
    let ex = ExecuteV2 { id: CowBytes::Borrowed(&[1, 2]), result_metadata_id: None, parameters: QueryParameters { consistency: Consistency::One, values: Cow::Borrowed(&sv), ..Default::default() } };
    check_frame(cx, &format!("values:{builder}:execute"), &ex, p::opcode::EXECUTE, &Request::Execute { id: vec![1, 2], result_metadata_id: None, params: want_params }, false, Comp::None, 2, false, &case);
}

const MARKER_BUILDERS: [&str; 10] = ["vec", "slice", "boxed-vec", "ref-vec", "hashmap-string", "hashmap-str", "btreemap-string", "btreemap-str", "tuple", "batch-adapter"];

/// `v` values bound against a statement with `m` bind markers: refusal unless m == v, in which case the frame
/// carries exactly the bound values in order (no silent dropping of surplus values, no padding).
fn run_marker_case(cx: &Ctx, builder: &str, m: usize, v: usize) {
    use scylla_cql::frame::response::result::{ColumnSpec, TableSpec};
    use scylla_cql::serialize::raw_batch::RawBatchValuesAdapter;
    use scylla_cql::serialize::row::RowSerializationContext;
    use std::collections::BTreeMap;
    const NAMES: [&str; 7] = ["c0", "c1", "c2", "c3", "c4", "c5", "c6"];
    let r = cx.r;
    let case = json!({"leg":"markers","builder":builder,"markers":m,"values":v});
    let specs: Vec<ColumnSpec> = (0..m).map(|i| ColumnSpec::borrowed(NAMES[i], int(), TableSpec::borrowed("ks", "t"))).collect();
    let ctx = RowSerializationContext::from_specs(&specs);
    let ints: Vec<i32> = (0..v as i32).map(|i| i + 100).collect();
    let want: Vec<Val> = ints.iter().map(|i| Val::Bytes(i.to_be_bytes().to_vec())).collect();
    r.eval(1);
    r.counters.add("marker_count_cases", 1);
    if builder == "batch-adapter" {
        let vals = vec![ints.clone()];
        let specs_per_stmt = [specs.as_slice()];
        let ctxs = specs_per_stmt.iter().map(|s| RowSerializationContext::from_specs(s));
        let b = Batch { statements: Cow::Owned(vec![BatchStatement::Prepared { id: Cow::Borrowed(&[9u8][..]) }]), batch_type: BatchType::Logged, consistency: Consistency::One, serial_consistency: None, timestamp: None, values: RawBatchValuesAdapter::new(&vals, ctxs) };
        match catch(std::panic::AssertUnwindSafe(|| SerializedRequest::make(&b, None, false))) {
            Err(pn) => r.violation(&format!("markers:{builder}:panic"), &pn, case),
            Ok(Err(_)) if m != v => r.nontrivial(1),
            Ok(Err(e)) => r.violation(&format!("markers:{builder}:refused-valid"), &format!("{v} values for {m} markers refused: {e}"), case),
            Ok(Ok(sr)) => {
                let want_req = Request::Batch { batch_type: 0, statements: vec![(BatchStmt::Prepared(vec![9]), want.clone())], consistency: 1, flags: 0, serial_consistency: None, timestamp: None };
                match p::parse_request_frame(sr.get_data(), Comp::None, false) {
                    Ok(f) if f.request == want_req && m == v => r.nontrivial(1),
                    Ok(f) => {
                        let got = match &f.request {
                            Request::Batch { statements, .. } => statements.first().map(|s| s.1.len()).unwrap_or(0),
                            _ => 0,
                        };
                        r.violation(&format!("markers:{builder}:count-mismatch-accepted"), &format!("{v} values bound to a statement with {m} markers: accepted, the BATCH frame carries {got} values"), case)
                    }
                    Err(e) => r.violation(&format!("markers:{builder}:unfaithful-frame"), &e, case),
                }
            }
        }
        return;
    }
    let built: Result<Result<SerializedValues, String>, String> = catch(std::panic::AssertUnwindSafe(|| -> Result<SerializedValues, String> {
        let e = |x: scylla_cql::serialize::SerializationError| x.to_string();
        match builder {
            "vec" => SerializedValues::from_serializable(&ctx, &ints).map_err(e),
            "slice" => SerializedValues::from_serializable(&ctx, &ints.as_slice()).map_err(e),
            "boxed-vec" => SerializedValues::from_serializable(&ctx, &Box::new(ints.clone())).map_err(e),
            "ref-vec" => SerializedValues::from_serializable(&ctx, &&ints).map_err(e),
            "hashmap-string" => SerializedValues::from_serializable(&ctx, &(0..v).map(|i| (NAMES[i].to_string(), ints[i])).collect::<HashMap<String, i32>>()).map_err(e),
            "hashmap-str" => SerializedValues::from_serializable(&ctx, &(0..v).map(|i| (NAMES[i], ints[i])).collect::<HashMap<&str, i32>>()).map_err(e),
            "btreemap-string" => SerializedValues::from_serializable(&ctx, &(0..v).map(|i| (NAMES[i].to_string(), ints[i])).collect::<BTreeMap<String, i32>>()).map_err(e),
            "btreemap-str" => SerializedValues::from_serializable(&ctx, &(0..v).map(|i| (NAMES[i], ints[i])).collect::<BTreeMap<&str, i32>>()).map_err(e),
            _ => match v {
                0 => SerializedValues::from_serializable(&ctx, &()).map_err(e),
                1 => SerializedValues::from_serializable(&ctx, &(ints[0],)).map_err(e),
                2 => SerializedValues::from_serializable(&ctx, &(ints[0], ints[1])).map_err(e),
                3 => SerializedValues::from_serializable(&ctx, &(ints[0], ints[1], ints[2])).map_err(e),
                4 => SerializedValues::from_serializable(&ctx, &(ints[0], ints[1], ints[2], ints[3])).map_err(e),
                5 => SerializedValues::from_serializable(&ctx, &(ints[0], ints[1], ints[2], ints[3], ints[4])).map_err(e),
                _ => SerializedValues::from_serializable(&ctx, &(ints[0], ints[1], ints[2], ints[3], ints[4], ints[5])).map_err(e),
            },
        }
    }));
    let sv = match built {
        Err(pn) => return r.violation(&format!("markers:{builder}:panic"), &pn, case),
        Ok(Err(e)) => {
            if m == v {
                r.violation(&format!("markers:{builder}:refused-valid"), &format!("{v} values for {m} markers refused: {e}"), case);
            } else {
                r.counters.add("marker_count_mismatches_refused", 1);
                r.nontrivial(1);
            }
            return;
        }
        Ok(Ok(sv)) => sv,
    };
    // accepted: the frame has to carry exactly what was bound - which is only possible when the counts agree
    let got: Vec<Val> = sv.iter().map(|rv| match rv.as_value() { Some(b) => Val::Bytes(b.to_vec()), None => Val::Null }).collect();
    if m != v || got != want || sv.element_count() as usize != v {
        return r.violation(&format!("markers:{builder}:count-mismatch-accepted"), &format!("{v} values bound to a statement with {m} markers: accepted, the value list carries {} values ({} announced)", got.len(), sv.element_count()), case);
    }
    let want_params = QueryParams { consistency: 1, flags: if v > 0 { 1 } else { 0 }, values: (v > 0).then(|| want.clone()), skip_metadata: false, page_size: None, paging_state: None, serial_consistency: None, timestamp: None };
    let ex = ExecuteV2 { id: CowBytes::Borrowed(&[1, 2]), result_metadata_id: None, parameters: QueryParameters { consistency: Consistency::One, values: Cow::Borrowed(&sv), ..Default::default() } };
    check_frame(cx, &format!("markers:{builder}:execute"), &ex, p::opcode::EXECUTE, &Request::Execute { id: vec![1, 2], result_metadata_id: None, params: want_params.clone() }, false, Comp::None, 2, false, &case);
    let q = Query { contents: Cow::Borrowed("q"), parameters: QueryParameters { consistency: Consistency::One, values: Cow::Borrowed(&sv), ..Default::default() } };
    check_frame(cx, &format!("markers:{builder}:query"), &q, p::opcode::QUERY, &Request::Query { text: "q".into(), params: want_params }, false, Comp::Snappy, 1, false, &case);
}

fn value_builders(cx: &Ctx, jobs: usize) {
    let mut work: Vec<(&'static str, usize)> = Vec::new();
    for n in BOUNDARY_COUNTS {
        for b in BUILDERS {
            work.push((b, n));
        }
    }
    vcore::par::for_each(jobs, 1, work.into_iter(), |(b, n)| run_builder_case(cx, b, n));
    for b in MARKER_BUILDERS {
        for m in 0..=4usize {
            for v in 0..=6usize {
                run_marker_case(cx, b, m, v);
            }
        }
    }
}

// ---------------------------------------------------------------------------------------------
// BATCH
// ---------------------------------------------------------------------------------------------

#[derive(Clone, Debug)]
struct BCase {
    btype: u8,
    /// per statement: (prepared?, value list alternative 0..3)
    stmts: Vec<(bool, u8)>,
    /// 0 equal, 1 one fewer value list, 2 one more value list
    count_mode: u8,
    opt: u8, // bit0 serial, bit1 timestamp
    cons: u8,
    tracing: bool,
    comp: u8,
    variant: u16,
}
impl BCase {
    fn to_json(&self) -> Value {
        json!({"leg":"batch","btype":self.btype,"stmts":self.stmts.iter().map(|(p,v)| json!([p,v])).collect::<Vec<_>>(),"count_mode":self.count_mode,"opt":self.opt,"cons":self.cons,"tracing":self.tracing,"comp":self.comp,"variant":self.variant})
    }
    fn from_json(v: &Value) -> BCase {
        let g = |k: &str| v[k].as_u64().unwrap_or(0);
        BCase {
            btype: g("btype") as u8,
            stmts: v["stmts"].as_array().map(|a| a.iter().map(|e| (e[0].as_bool().unwrap_or(false), e[1].as_u64().unwrap_or(0) as u8)).collect()).unwrap_or_default(),
            count_mode: g("count_mode") as u8,
            opt: g("opt") as u8,
            cons: g("cons") as u8,
            tracing: v["tracing"].as_bool().unwrap_or(false),
            comp: g("comp") as u8,
            variant: g("variant") as u16,
        }
    }
}

/// value-list count modes of a BATCH: 0 equal; 1 / 6 / 7 short by one / two / all; 2..=5 and 8 surplus lists of every shape
/// (value-list alternatives as in `batch_vals`: 0 = empty list, 1 = one value, 2 = null + unset)
const COUNT_MODES: u8 = 9;
fn count_mode_plan(mode: u8, n: usize) -> Option<(usize, Vec<u8>, &'static str)> {
    // (lists to drop from the end, surplus lists to append, description)
    match mode {
        0 => Some((0, vec![], "as many value lists as statements")),
        1 if n >= 1 => Some((1, vec![], "one value list fewer than statements")),
        2 => Some((0, vec![1], "one surplus value list (non-empty)")),
        3 => Some((0, vec![0], "one surplus value list (empty)")),
        4 => Some((0, vec![0, 1], "two surplus value lists (empty, then non-empty)")),
        5 => Some((0, vec![2, 0], "two surplus value lists (non-empty, then empty)")),
        6 if n >= 2 => Some((2, vec![], "two value lists fewer than statements")),
        7 if n >= 2 => Some((n, vec![], "no value lists at all for the statements")),
        8 => Some((0, vec![0, 0, 0], "three surplus value lists (all empty)")),
        _ => None,
    }
}

fn batch_vals(alt: u8) -> Vec<Val> {
    match alt {
        0 => vec![],
        1 => vec![Val::Bytes(vec![1, 2, 3])],
        _ => vec![Val::Null, Val::Unset],
    }
}

fn run_bcase(cx: &Ctx, c: &BCase) {
    let v = c.variant as usize;
    let btypes = [BatchType::Logged, BatchType::Unlogged, BatchType::Counter];
    let mut statements = Vec::new();
    let mut want_stmts = Vec::new();
    let mut values: Vec<SerializedValues> = Vec::new();
    for (i, (prepared, alt)) in c.stmts.iter().enumerate() {
        let vals = batch_vals(*alt);
        if *prepared {
            let id: Vec<u8> = (0..(i as u8 * 5 + 1)).collect();
            statements.push(BatchStatement::Prepared { id: Cow::Owned(id.clone()) });
            want_stmts.push((BatchStmt::Prepared(id), vals.clone()));
        } else {
            let text = format!("INSERT INTO t\u{e9}{i} (a) VALUES (?)");
            statements.push(BatchStatement::Query { text: Cow::Owned(text.clone()) });
            want_stmts.push((BatchStmt::Query(text), vals.clone()));
        }
        values.push(build_values(&vals).unwrap());
    }
    let Some((drop_n, surplus, mode_text)) = count_mode_plan(c.count_mode, c.stmts.len()) else { return };
    for _ in 0..drop_n {
        values.pop();
    }
    for alt in &surplus {
        values.push(build_values(&batch_vals(*alt)).unwrap());
    }
    let serial = (c.opt & 1 != 0).then(|| SERIALS[v % 2]);
    let timestamp = (c.opt & 2 != 0).then(|| TIMESTAMPS[v % TIMESTAMPS.len()]);
    let (cons, cons_code) = CONSISTENCIES[c.cons as usize];
    let b: Batch<BatchStatement, Vec<SerializedValues>> = Batch {
        statements: Cow::Owned(statements),
        batch_type: btypes[c.btype as usize],
        consistency: cons,
        serial_consistency: serial.map(|s| s.0),
        timestamp,
        values,
    };
    let comp = COMPS[c.comp as usize];
    let case = c.to_json();
    if c.count_mode != 0 {
        check_refused(cx, "batch", mode_text, &b, c.tracing, comp, &case);
        return;
    }
    let flags = if serial.is_some() { 0x10 } else { 0 } | if timestamp.is_some() { 0x20 } else { 0 };
    let want = Request::Batch { batch_type: c.btype, statements: want_stmts, consistency: cons_code, flags, serial_consistency: serial.map(|s| s.1), timestamp };
    check_frame(cx, "batch", &b, p::opcode::BATCH, &want, c.tracing, comp, STREAMS[v % STREAMS.len()], false, &case);
}

/// The same BATCH shapes through `RawBatchValuesAdapter` (typed `BatchValues` + per-statement serialization
/// contexts), which is how a session feeds a batch: covers serialize/raw_batch.rs.
fn run_bcase_adapter(cx: &Ctx, c: &BCase) {
    use scylla_cql::frame::response::result::{ColumnSpec, TableSpec};
    use scylla_cql::serialize::raw_batch::RawBatchValuesAdapter;
    use scylla_cql::serialize::row::RowSerializationContext;
    use scylla_cql::value::MaybeUnset;
    let v = c.variant as usize;
    let btypes = [BatchType::Logged, BatchType::Unlogged, BatchType::Counter];
    let typed_vals = |alt: u8| -> (Vec<MaybeUnset<Option<i32>>>, Vec<Val>) {
        match alt {
            0 => (vec![], vec![]),
            1 => (vec![MaybeUnset::Set(Some(7))], vec![Val::Bytes(vec![0, 0, 0, 7])]),
            _ => (vec![MaybeUnset::Set(None), MaybeUnset::Unset], vec![Val::Null, Val::Unset]),
        }
    };
    let mut statements = Vec::new();
    let mut want_stmts = Vec::new();
    let mut values: Vec<Vec<MaybeUnset<Option<i32>>>> = Vec::new();
    let mut specs: Vec<Vec<ColumnSpec<'static>>> = Vec::new();
    for (i, (prepared, alt)) in c.stmts.iter().enumerate() {
        let (tv, wv) = typed_vals(*alt);
        specs.push((0..tv.len()).map(|k| ColumnSpec::borrowed(["a", "b"][k], int(), TableSpec::borrowed("ks", "t"))).collect());
        if *prepared {
            let id: Vec<u8> = (0..(i as u8 * 5 + 1)).collect();
            statements.push(BatchStatement::Prepared { id: Cow::Owned(id.clone()) });
            want_stmts.push((BatchStmt::Prepared(id), wv));
        } else {
            let text = format!("INSERT INTO t\u{e9}{i} (a) VALUES (?)");
            statements.push(BatchStatement::Query { text: Cow::Owned(text.clone()) });
            want_stmts.push((BatchStmt::Query(text), wv));
        }
        values.push(tv);
    }
    let Some((drop_n, surplus, mode_text)) = count_mode_plan(c.count_mode, c.stmts.len()) else { return };
    for _ in 0..drop_n {
        values.pop();
    }
    for alt in &surplus {
        values.push(typed_vals(*alt).0);
    }
    let serial = (c.opt & 1 != 0).then(|| SERIALS[v % 2]);
    let timestamp = (c.opt & 2 != 0).then(|| TIMESTAMPS[v % TIMESTAMPS.len()]);
    let (cons, cons_code) = CONSISTENCIES[c.cons as usize];
    let ctxs = specs.iter().map(|s| RowSerializationContext::from_specs(s.as_slice()));
    let b = Batch { statements: Cow::Owned(statements), batch_type: btypes[c.btype as usize], consistency: cons, serial_consistency: serial.map(|s| s.0), timestamp, values: RawBatchValuesAdapter::new(&values, ctxs) };
    let comp = COMPS[c.comp as usize];
    let mut case = c.to_json();
    case["leg"] = json!("batch-adapter");
    if c.count_mode != 0 {
        check_refused(cx, "batch-adapter", mode_text, &b, c.tracing, comp, &case);
        return;
    }
    let flags = if serial.is_some() { 0x10 } else { 0 } | if timestamp.is_some() { 0x20 } else { 0 };
    let want = Request::Batch { batch_type: c.btype, statements: want_stmts, consistency: cons_code, flags, serial_consistency: serial.map(|s| s.1), timestamp };
    check_frame(cx, "batch-adapter", &b, p::opcode::BATCH, &want, c.tracing, comp, STREAMS[v % STREAMS.len()], false, &case);
}

fn bcases(thorough: bool) -> Vec<BCase> {
    let mut out = Vec::new();
    let mut variant = 0u16;
    for n in 0..=(if thorough { 4usize } else { 3 }) {
        // all prepared/unprepared mixes x all value-list alternatives per statement
        let shapes = 6usize.pow(n as u32);
        for shape in 0..shapes {
            let mut s = shape;
            let stmts: Vec<(bool, u8)> = (0..n)
                .map(|_| {
                    let d = s % 6;
                    s /= 6;
                    (d / 3 == 1, (d % 3) as u8)
                })
                .collect();
            for count_mode in 0..COUNT_MODES {
                if count_mode_plan(count_mode, n).is_none() {
                    continue;
                }
                for btype in 0..3u8 {
                    for opt in 0..4u8 {
                        for cons in 0..11u8 {
                            // the additional mismatch shapes (modes 3..) do not multiply with every consistency / option subset in the quick tier
                            if count_mode >= 3 && !thorough && !(cons == 1 && (opt == 0 || opt == 3)) {
                                continue;
                            }
                            // four-statement batches (thorough only): one consistency, two option subsets
                            if n == 4 && !(cons == 1 && (opt == 0 || opt == 3)) {
                                continue;
                            }
                            if thorough {
                                for tracing in [false, true] {
                                    for comp in 0..3u8 {
                                        variant = variant.wrapping_add(1);
                                        out.push(BCase { btype, stmts: stmts.clone(), count_mode, opt, cons, tracing, comp, variant });
                                    }
                                }
                            } else {
                                // quick: tracing x compression rotate with the case number instead of multiplying
                                variant = variant.wrapping_add(1);
                                out.push(BCase { btype, stmts: stmts.clone(), count_mode, opt, cons, tracing: variant % 2 == 0, comp: (variant % 3) as u8, variant });
                            }
                        }
                    }
                }
            }
        }
    }
    out
}

fn batch_boundaries(cx: &Ctx) {
    // 65535 statements accepted, 65536 refused
    for n in [65535usize, 65536] {
        for prepared in [false, true] {
            let st = if prepared { BatchStatement::Prepared { id: Cow::Borrowed(&[1u8, 2][..]) } } else { BatchStatement::Query { text: Cow::Borrowed("q") } };
            let b: Batch<BatchStatement, Vec<SerializedValues>> = Batch {
                statements: Cow::Owned(vec![st; n]),
                batch_type: BatchType::Unlogged,
                consistency: Consistency::Quorum,
                serial_consistency: Some(SerialConsistency::LocalSerial),
                timestamp: Some(-5),
                values: vec![SerializedValues::new(); n],
            };
            for comp in COMPS {
                let case = json!({"leg":"batch-boundary","n":n,"prepared":prepared,"comp":comp as u8});
                if n == 65536 {
                    check_refused(cx, "batch", "65536 statements", &b, false, comp, &case);
                } else {
                    let one = if prepared { BatchStmt::Prepared(vec![1, 2]) } else { BatchStmt::Query("q".into()) };
                    let want = Request::Batch { batch_type: 1, statements: vec![(one, vec![]); n], consistency: 4, flags: 0x30, serial_consistency: Some(9), timestamp: Some(-5) };
                    check_frame(cx, "batch", &b, p::opcode::BATCH, &want, true, comp, 77, false, &case);
                }
            }
        }
    }
    // a statement with 65535 values is accepted
    {
        let (vals, sv) = cached_values(13);
        let b: Batch<BatchStatement, Vec<SerializedValues>> = Batch {
            statements: Cow::Owned(vec![BatchStatement::Query { text: Cow::Borrowed("q") }]),
            batch_type: BatchType::Logged,
            consistency: Consistency::One,
            serial_consistency: None,
            timestamp: None,
            values: vec![sv.clone()],
        };
        let want = Request::Batch { batch_type: 0, statements: vec![(BatchStmt::Query("q".into()), vals.clone())], consistency: 1, flags: 0, serial_consistency: None, timestamp: None };
        check_frame(cx, "batch", &b, p::opcode::BATCH, &want, false, Comp::Lz4, 3, false, &json!({"leg":"batch-boundary","n":1,"values":65535}));
    }
    // prepared id of 65536 bytes inside a batch
    {
        let big = vec![3u8; 65536];
        let b: Batch<BatchStatement, Vec<SerializedValues>> = Batch {
            statements: Cow::Owned(vec![BatchStatement::Prepared { id: Cow::Borrowed(&big[..]) }]),
            batch_type: BatchType::Logged,
            consistency: Consistency::One,
            serial_consistency: None,
            timestamp: None,
            values: vec![SerializedValues::new()],
        };
        check_refused(cx, "batch", "prepared id of 65536 bytes", &b, false, Comp::None, &json!({"leg":"batch-boundary","what":"id-65536"}));
    }
}

// ---------------------------------------------------------------------------------------------
// PREPARE / STARTUP / REGISTER / OPTIONS / AUTH_RESPONSE
// ---------------------------------------------------------------------------------------------

fn small_requests(cx: &Ctx, only: Option<&Value>) {
    let run = |name: &str, idx: usize| -> bool { only.map(|o| o["what"] == name && o["idx"].as_u64() == Some(idx as u64)).unwrap_or(true) };
    let mut idx = 0usize;
    // PREPARE
    let mut prepare_texts: Vec<String> = texts().clone();
    prepare_texts.push("\u{1F600}".repeat(1 << 18)); // 1 MiB of 4-byte characters
    for text in &prepare_texts {
        for tracing in [false, true] {
            for comp in COMPS {
                for stream in STREAMS {
                    idx += 1;
                    if !run("prepare", idx) {
                        continue;
                    }
                    let pr = Prepare { query: text.as_str() };
                    check_frame(cx, "prepare", &pr, p::opcode::PREPARE, &Request::Prepare { text: text.clone() }, tracing, comp, stream, false, &json!({"leg":"small","what":"prepare","idx":idx}));
                }
            }
        }
    }
    // STARTUP: option maps (HashMap iteration order is the driver's business: compared as sorted lists)
    let k65535 = "k".repeat(65535);
    let v65535 = "\u{e9}".repeat(32767) + "v";
    let k65536 = "K".repeat(65536);
    let maps: Vec<(Vec<(String, String)>, bool)> = vec![
        (vec![], true),
        (vec![("CQL_VERSION".into(), "4.0.0".into())], true),
        (vec![("CQL_VERSION".into(), "4.0.0".into()), ("COMPRESSION".into(), "lz4".into()), ("DRIVER_NAME".into(), "ScyllaDB Rust Driver \u{e9}".into()), ("".into(), "".into())], true),
        (vec![(k65535.clone(), v65535.clone())], true),
        (vec![("CQL_VERSION".into(), "4.0.0".into()), (k65536.clone(), "v".into())], false),
        (vec![("k".into(), k65536.clone())], false),
        ((0..65535u32).map(|i| (format!("k{i}"), String::new())).collect(), true),
        ((0..65536u32).map(|i| (format!("k{i}"), String::new())).collect(), false),
    ];
    for (m, valid) in &maps {
        for tracing in [false, true] {
            for comp in COMPS {
                idx += 1;
                if !run("startup", idx) {
                    continue;
                }
                let case = json!({"leg":"small","what":"startup","idx":idx});
                let options: HashMap<Cow<str>, Cow<str>> = m.iter().map(|(k, v)| (Cow::Borrowed(k.as_str()), Cow::Borrowed(v.as_str()))).collect();
                let s = Startup { options };
                if !valid {
                    check_refused(cx, "startup", "option key/value of 65536 bytes or 65536 options", &s, tracing, comp, &case);
                    continue;
                }
                // order-insensitive comparison: parse, sort, compare
                cx.r.eval(1);
                cx.r.counters.add("frames_startup", 1);
                match catch(std::panic::AssertUnwindSafe(|| SerializedRequest::make(&s, comp_of(comp), tracing))) {
                    Ok(Ok(sr)) => match p::parse_request_frame(sr.get_data(), comp, false) {
                        Ok(f) => {
                            let want_flags = if comp != Comp::None { 1 } else { 0 } | if tracing { 2 } else { 0 };
                            let mut got = match f.request {
                                Request::Startup(l) => l,
                                _ => vec![],
                            };
                            got.sort();
                            let mut want = m.clone();
                            want.sort();
                            if got != want || f.header.opcode != p::opcode::STARTUP || f.header.flags != want_flags {
                                cx.r.violation("startup:body-mismatch", &format!("STARTUP frame carries {} options / opcode {:#x} / flags {:#x}; asked for {} options, flags {want_flags:#x}", got.len(), f.header.opcode, f.header.flags, want.len()), case);
                            } else {
                                cx.r.nontrivial(1);
                            }
                        }
                        Err(e) => cx.r.violation("startup:unparseable", &e, case),
                    },
                    Ok(Err(e)) => cx.r.violation("startup:refused-valid", &e.to_string(), case),
                    Err(pn) => cx.r.violation("startup:panic", &pn, case),
                }
            }
        }
    }
    // REGISTER: every subset (in every order of up to 3 elements would add nothing: the list is written in the given order; one reversed order is included)
    let ev1 = |i: usize| match i { 0 => EventType::TopologyChange, 1 => EventType::StatusChange, _ => EventType::SchemaChange };
    let ev2 = |i: usize| match i { 0 => EventTypeV2::TopologyChange, 1 => EventTypeV2::StatusChange, 2 => EventTypeV2::SchemaChange, _ => EventTypeV2::ClientRoutesChange };
    let names = p::KNOWN_EVENT_TYPES;
    for mask in 0..8u32 {
        for rev in [false, true] {
            for tracing in [false, true] {
                for comp in COMPS {
                    idx += 1;
                    if !run("register", idx) {
                        continue;
                    }
                    let mut l: Vec<usize> = (0..3).filter(|i| mask & (1 << i) != 0).collect();
                    if rev {
                        l.reverse();
                    }
                    let rq = Register { event_types_to_register_for: l.iter().map(|i| ev1(*i)).collect() };
                    let want = Request::Register(l.iter().map(|i| names[*i].to_string()).collect());
                    check_frame(cx, "register", &rq, p::opcode::REGISTER, &want, tracing, comp, 5, false, &json!({"leg":"small","what":"register","idx":idx}));
                }
            }
        }
    }
    for mask in 0..16u32 {
        for rev in [false, true] {
            for tracing in [false, true] {
                for comp in COMPS {
                    idx += 1;
                    if !run("register2", idx) {
                        continue;
                    }
                    let mut l: Vec<usize> = (0..4).filter(|i| mask & (1 << i) != 0).collect();
                    if rev {
                        l.reverse();
                    }
                    let rq = RegisterV2 { event_types_to_register_for: l.iter().map(|i| ev2(*i)).collect() };
                    let want = Request::Register(l.iter().map(|i| names[*i].to_string()).collect());
                    check_frame(cx, "register", &rq, p::opcode::REGISTER, &want, tracing, comp, -3, false, &json!({"leg":"small","what":"register2","idx":idx}));
                }
            }
        }
    }
    // OPTIONS
    for tracing in [false, true] {
        for comp in COMPS {
            for stream in STREAMS {
                idx += 1;
                if !run("options", idx) {
                    continue;
                }
                check_frame(cx, "options", &Options, p::opcode::OPTIONS, &Request::Options, tracing, comp, stream, false, &json!({"leg":"small","what":"options","idx":idx}));
            }
        }
    }
    // AUTH_RESPONSE: none / empty / non-empty / 70000 bytes
    let tokens: Vec<Option<Vec<u8>>> = vec![None, Some(vec![]), Some(b"\0user\0pass".to_vec()), Some((0..70000u32).map(|x| (x % 255) as u8).collect())];
    for t in &tokens {
        for tracing in [false, true] {
            for comp in COMPS {
                for stream in STREAMS {
                    idx += 1;
                    if !run("auth", idx) {
                        continue;
                    }
                    let a = AuthResponse { response: t.clone() };
                    check_frame(cx, "auth_response", &a, p::opcode::AUTH_RESPONSE, &Request::AuthResponse(t.clone()), tracing, comp, stream, false, &json!({"leg":"small","what":"auth","idx":idx}));
                }
            }
        }
    }
}

// ---------------------------------------------------------------------------------------------
// reference self-test: the parser and the decompressors on hand-written spec examples
// ---------------------------------------------------------------------------------------------

fn self_test() {
    // QUERY "SELECT" at ONE with page size 100 and timestamp 5, written by hand from the spec
    let mut f: Vec<u8> = vec![0x04, 0x02, 0x00, 0x09, 0x07, 0, 0, 0, 0];
    let body: Vec<u8> = [&[0u8, 0, 0, 6][..], b"SELECT", &[0x00, 0x01], &[0x24], &[0, 0, 0, 100], &[0, 0, 0, 0, 0, 0, 0, 5]].concat();
    f[5..9].copy_from_slice(&(body.len() as u32).to_be_bytes());
    f.extend(&body);
    let want = Request::Query { text: "SELECT".into(), params: QueryParams { consistency: 1, flags: 0x24, values: None, skip_metadata: false, page_size: Some(100), paging_state: None, serial_consistency: None, timestamp: Some(5) } };
    match p::parse_request_frame(&f, Comp::None, false) {
        Ok(fr) if fr.request == want && fr.header.stream == 9 && fr.header.flags == 2 => {}
        other => vcore::machinery_error(&format!("cqlref::proto fails its hand-written QUERY vector: {other:?}")),
    }
    // the LZ4 vector pinned in the repo's unit test and a snappy literal from the format description
    if p::cql_lz4_decompress(&[0, 0, 0, 8, 128, 44, 32, 87, 111, 114, 108, 100, 33]).ok().as_deref() != Some(b", World!") {
        vcore::machinery_error("cqlref lz4 decoder fails the pinned vector");
    }
    if p::snappy_decompress(&[3, 0x08, b'a', b'b', b'c']).ok().as_deref() != Some(b"abc") {
        vcore::machinery_error("cqlref snappy decoder fails the literal vector");
    }
    // decoders against the production-grade encoders (reference side only) on a repetitive and a random buffer
    let mut rng = vcore::Rng::new(7);
    let mut bufs: Vec<Vec<u8>> = vec![b"abcabcabcabcabcabcabcabcabcabcabcabcabc-0123456789".repeat(40), vec![0; 100_000]];
    let mut rnd = vec![0u8; 5000];
    rng.fill(&mut rnd);
    bufs.push(rnd);
    for b in &bufs {
        let l = lz4_flex::compress(b);
        if p::lz4_block_decompress(&l, b.len()).ok().as_ref() != Some(b) {
            vcore::machinery_error("cqlref lz4 decoder disagrees with lz4_flex's encoder");
        }
        let s = snap::raw::Encoder::new().compress_vec(b).unwrap();
        if p::snappy_decompress(&s).ok().as_ref() != Some(b) {
            vcore::machinery_error("cqlref snappy decoder disagrees with snap's encoder");
        }
    }
}

fn replay(cx: &Ctx, case: &Value) {
    match case["leg"].as_str() {
        Some("qe") => run_qcase(cx, QCase::from_json(case)),
        Some("values") => run_builder_case(cx, BUILDERS.iter().find(|b| Some(**b) == case["builder"].as_str()).copied().unwrap_or("vec"), case["n"].as_u64().unwrap_or(0) as usize),
        Some("markers") => run_marker_case(cx, MARKER_BUILDERS.iter().find(|b| Some(**b) == case["builder"].as_str()).copied().unwrap_or("vec"), case["markers"].as_u64().unwrap_or(0) as usize, case["values"].as_u64().unwrap_or(0) as usize),
        Some("batch") => run_bcase(cx, &BCase::from_json(case)),
        Some("batch-adapter") => run_bcase_adapter(cx, &BCase::from_json(case)),
        Some("batch-boundary") => batch_boundaries(cx),
        Some("refuse") => query_execute_refusals(cx, case["what"].as_str().map(|w| w.ends_with("2g")).unwrap_or(false)),
        Some("small") => small_requests(cx, Some(case)),
        _ => vcore::machinery_error("unknown replay leg"),
    }
}

fn main() {
    vcore::quiet_panics();
    let r = Report::new("C09", "enum", "exploration", "E-ENUM");
    let cx = Ctx { r: &r, flag_bytes_seen: Mutex::new(BTreeSet::new()), reported: Mutex::new(BTreeSet::new()) };
    if let Some(case) = r.replay_case() {
        replay(&cx, &case);
        drop(cx);
        r.finish_replay();
    }
    self_test();
    let thorough = r.tier().is_thorough();
    let jobs = r.args.jobs;

    let qc = qcases(thorough);
    r.note("query_execute_cases", json!(qc.len()));
    let _ = cached_values(0);
    let cxr = &cx;
    vcore::par::for_each(jobs, 64, qc.into_iter(), |c| run_qcase(cxr, c));

    let bc = bcases(thorough);
    r.note("batch_cases", json!(bc.len()));
    vcore::par::for_each(jobs, 64, bc.into_iter(), |c| {
        run_bcase(cxr, &c);
        run_bcase_adapter(cxr, &c);
    });
    batch_boundaries(&cx);
    value_builders(&cx, jobs);
    query_execute_refusals(&cx, thorough);
    small_requests(&cx, None);

    let seen = cx.flag_bytes_seen.lock().unwrap().clone();
    let q_flags = seen.iter().filter(|(o, _)| *o == p::opcode::QUERY).count();
    let e_flags = seen.iter().filter(|(o, _)| *o == p::opcode::EXECUTE).count();
    let b_flags = seen.iter().filter(|(o, _)| *o == p::opcode::BATCH).count();
    r.counters.add("distinct_query_flag_bytes", q_flags as u64);
    r.counters.add("distinct_execute_flag_bytes", e_flags as u64);
    r.counters.add("distinct_batch_flag_bytes", b_flags as u64);
    if (q_flags != 64 || e_flags != 64 || b_flags != 4) && r.violation_count() == 0 {
        vcore::machinery_error(&format!("vacuity: expected all 64/64/4 flag bytes to be produced, saw {q_flags}/{e_flags}/{b_flags}"));
    }
    drop(cx);
    r.set_rule("E-ENUM. QUERY and EXECUTE (ExecuteV2 with/without result-metadata id; deprecated Execute): all 64 subsets of {values, skip_metadata, page size, paging state, serial consistency, timestamp} x value lists {1 and 2 values over value/null/unset, 65535 values, empty+70000-byte value} x all 11 consistencies x texts {0,1,multi-byte,65535,65536 bytes} / ids {0,1,16,65535 bytes} x tracing x {none,LZ4,Snappy}; field contents (page size, paging state, serial, timestamp, stream id) rotate through boundary alphabets (thorough: 10 rotations each, all consistencies for the huge shapes; quick: huge shapes at 3 consistencies). BATCH: 3 types x every 0..3-statement mix (thorough: 0..4) of prepared/unprepared x {0,1,2 values} per statement x {equal; short by 1 / 2 / all; surplus non-empty / empty / empty+non-empty / non-empty+empty / 3 empty value lists -> refused exactly when counts differ} x 4 optional-field subsets x 11 consistencies (thorough: x tracing x compression; quick: rotating); 65535 statements accepted, 65536 refused; every BATCH shape both with pre-serialized value lists and through RawBatchValuesAdapter (typed BatchValues + serialization contexts). Value lists of {0,1,65534,65535,65536,65537,131071,131072} values through every public builder (SerializeRow for Vec / slice / Box / & / HashMap and BTreeMap with String and &str keys via from_serializable, from_closure with cell writers and with appended pre-built rows, add_value loop, null/unset cells, BATCH through RawBatchValuesAdapter and through pre-serialized lists): refusal, or announced count == encoded cells == bound values in the QUERY, EXECUTE and BATCH frames. Bind-marker count vs value count: 0..4 markers x 0..6 values through Vec / slice / Box / & / HashMap / BTreeMap (String and &str keys) / tuples / RawBatchValuesAdapter: refusal unless the counts agree, then exactly the bound values in order. PREPARE, STARTUP (incl. 65535-byte keys, 65535 options; 65536 refused), REGISTER (all subsets, both structs), OPTIONS, AUTH_RESPONSE (null/empty/short/70000 bytes). Thorough adds > 2 GiB strings/bytes (must be errors). Oracle: header (version 4, opcode, stream, flags == options used, length == body size), body parsed by cqlref::proto equals the request in order, compressed body decompresses (cqlref's own LZ4/Snappy decoders) to the uncompressed serialization. distinct_nontrivial = frames with >= 2 optional fields or compression, multi-statement batches, refusals, small requests.");
    r.set_exhaustive(true);
    r.sample(json!({"leg":"qe","kind":0,"subset":63,"vals":7,"cons":6,"text":2,"tracing":true,"comp":1,"meaning":"QUERY with all six optional fields, two values (null, value), LOCAL_QUORUM, LZ4, tracing"}));
    r.sample(json!({"leg":"batch","btype":0,"stmts":[[false,1],[true,2]],"count_mode":1,"meaning":"2 statements, 1 value list: must be refused"}));
    r.assume("cqlref::proto is the reference for CQL v4 request layout (self-tested on a hand-written QUERY frame and against lz4_flex/snap encoders)");
    r.assume("session-level fields (timestamps from generators, page size defaults, cached result metadata) are the E-MOCK leg's business; this leg drives scylla-cql's request structs directly");
    r.finish();
}
