//! C08 - decoding any bytes returns a value or an error, never a crash.
//! Engine E-ENUM with deviation bounding (DESIGN.md 2/C08): a corpus of well-formed response frames
//! of every kind (0 deviations: decoded content must equal what cqlref encoded), every truncation and
//! every field-aware single mutation (1 deviation), same-region pairs (2 deviations, thorough),
//! deep type nesting, damaged compressed streams, and a labelled *sampled* sweep of random bodies.
//! Every case runs in a child process of this binary (`--child`) with a counting global allocator:
//! panic / abort / signal / stack overflow / timeout / allocation out of proportion are results.
use cqlref::proto::resp::{self, Ext, Response, ResultBody, RowsMeta};
use cqlref::proto::{self as p, Comp, Field};
use h_cql::decode::{self, CountingAlloc};
use h_cql::frames::{self, FEAT_LWT, FEAT_MID, FEAT_RATE, FEAT_TABLETS, Item};
use serde_json::{Value, json};
use std::collections::{BTreeMap, BTreeSet};
use std::sync::atomic::{AtomicU32, AtomicU64, Ordering};
use std::sync::{Arc, Mutex};
use std::time::Duration;
use vcore::Report;

#[global_allocator]
static ALLOC: CountingAlloc = CountingAlloc;

// ---------------------------------------------------------------------------------------------
// cases
// ---------------------------------------------------------------------------------------------

#[derive(Clone)]
struct Case {
    frame: FrameSrc,
    comp: u8,
    feat: u8,
    opts: u8,
    /// Rows body with full metadata the decoder gets as cached metadata (decoded outside the measured window)
    cached: Option<Arc<Vec<u8>>>,
    /// expected canonical dump (0-deviation cases under the features the encoding assumed)
    expect: Option<Arc<String>>,
    /// deviation class: wellformed | truncate-stream | truncate-body | field | field2 | nest | comp-stream | badclass | random
    class: &'static str,
    /// stable name of what was deviated (field site(s), nest shape, response kind for wellformed)
    site: String,
    /// human description of the origin (corpus item, value)
    origin: String,
}

#[derive(Clone)]
enum FrameSrc {
    Bytes(Arc<Vec<u8>>),
    /// generated on demand (deep nests are megabytes; the replay artefact stays small)
    Nest { shape: String, depth: usize, prepared: bool, comp: u8 },
}

impl FrameSrc {
    fn bytes(&self) -> Arc<Vec<u8>> {
        match self {
            FrameSrc::Bytes(b) => b.clone(),
            FrameSrc::Nest { shape, depth, prepared, comp } => {
                let body = frames::nested_type_body(shape, *depth, *prepared);
                Arc::new(resp::frame(0, 1, p::opcode::RESULT, &body, frames::comp_from(*comp), true))
            }
        }
    }
}

impl Case {
    fn to_json(&self) -> Value {
        let mut v = json!({"comp": self.comp, "feat": self.feat, "opts": self.opts, "class": self.class, "site": self.site, "origin": self.origin,
            "cached_hex": self.cached.as_ref().map(|c| vcore::hex(c)), "expect_dump": self.expect.as_ref().map(|e| e.to_string())});
        match &self.frame {
            FrameSrc::Bytes(b) => v["frame_hex"] = json!(vcore::hex(b)),
            FrameSrc::Nest { shape, depth, prepared, comp } => v["nest"] = json!({"shape": shape, "depth": depth, "prepared": prepared, "comp": comp}),
        }
        v
    }
    fn from_json(v: &Value) -> Case {
        let frame = if let Some(h) = v["frame_hex"].as_str() {
            FrameSrc::Bytes(Arc::new(vcore::unhex(h)))
        } else {
            let n = &v["nest"];
            FrameSrc::Nest { shape: n["shape"].as_str().unwrap_or("list").to_string(), depth: n["depth"].as_u64().unwrap_or(1) as usize, prepared: n["prepared"].as_bool().unwrap_or(false), comp: n["comp"].as_u64().unwrap_or(0) as u8 }
        };
        let class: &'static str = match v["class"].as_str().unwrap_or("") {
            "wellformed" => "wellformed",
            "truncate-stream" => "truncate-stream",
            "truncate-body" => "truncate-body",
            "field" => "field",
            "field2" => "field2",
            "nest" => "nest",
            "comp-stream" => "comp-stream",
            "badclass" => "badclass",
            "classfuzz" => "classfuzz",
            "tablespec" => "tablespec",
            _ => "random",
        };
        Case {
            frame,
            comp: v["comp"].as_u64().unwrap_or(0) as u8,
            feat: v["feat"].as_u64().unwrap_or(0) as u8,
            opts: v["opts"].as_u64().unwrap_or(0) as u8,
            cached: v["cached_hex"].as_str().map(|h| Arc::new(vcore::unhex(h))),
            expect: v["expect_dump"].as_str().map(|s| Arc::new(s.to_string())),
            class,
            site: v["site"].as_str().unwrap_or("").to_string(),
            origin: v["origin"].as_str().unwrap_or("").to_string(),
        }
    }
}

// ---------------------------------------------------------------------------------------------
// child: decode a batch of cases read from stdin, one record line per finished case
// ---------------------------------------------------------------------------------------------

fn put_u32(out: &mut Vec<u8>, v: u32) {
    out.extend_from_slice(&v.to_le_bytes());
}

fn serialize_batch(cases: &[&Case]) -> Vec<u8> {
    let mut out = Vec::new();
    put_u32(&mut out, cases.len() as u32);
    for c in cases {
        out.push(c.comp);
        out.push(c.feat);
        out.push(c.opts);
        match &c.cached {
            None => put_u32(&mut out, u32::MAX),
            Some(b) => {
                put_u32(&mut out, b.len() as u32);
                out.extend_from_slice(b);
            }
        }
        let f = c.frame.bytes();
        put_u32(&mut out, f.len() as u32);
        out.extend_from_slice(&f);
    }
    out
}

static CHILD_CASE_STARTED_MS: AtomicU64 = AtomicU64::new(u64::MAX);
static CHILD_CASE: AtomicU32 = AtomicU32::new(0);
/// CPU time one decode may consume (a correct decode of the largest input here needs a few ms)
const CASE_TIMEOUT_MS: u64 = 4000;

/// CPU time consumed by this process, in ms (insensitive to machine load, unlike wall-clock)
fn cpu_ms() -> u64 {
    let mut ts = libc::timespec { tv_sec: 0, tv_nsec: 0 };
    unsafe {
        libc::clock_gettime(libc::CLOCK_PROCESS_CPUTIME_ID, &mut ts);
    }
    ts.tv_sec as u64 * 1000 + ts.tv_nsec as u64 / 1_000_000
}

fn raw_write(s: &str) {
    unsafe {
        libc::write(1, s.as_ptr() as *const libc::c_void, s.len());
    }
}

fn child_main(verbose: bool) -> ! {
    use std::io::Read;
    vcore::sandbox::limit_address_space(2 << 30);
    vcore::quiet_panics();
    decode::VERBOSE.store(verbose, Ordering::Relaxed);
    let mut input = Vec::new();
    std::io::stdin().read_to_end(&mut input).expect("stdin");
    // watchdog: a case that runs longer than CASE_TIMEOUT_MS is reported and the process ends
    std::thread::spawn(move || {
        loop {
            std::thread::sleep(Duration::from_millis(25));
            let st = CHILD_CASE_STARTED_MS.load(Ordering::Relaxed);
            if decode::CAPTURING.load(Ordering::Relaxed) {
                // symbolizing a backtrace for an oversize report: restart the clock of this case
                CHILD_CASE_STARTED_MS.store(cpu_ms(), Ordering::Relaxed);
                continue;
            }
            if st != u64::MAX && cpu_ms().saturating_sub(st) > CASE_TIMEOUT_MS {
                raw_write(&format!("\nT {} {}\n", CHILD_CASE.load(Ordering::Relaxed), decode::STAGE.load(Ordering::Relaxed)));
                unsafe { libc::_exit(3) };
            }
        }
    });
    // the decode runs on a thread with the stack size of a tokio worker (2 MiB), where the driver runs it
    let worker = std::thread::Builder::new().name("decode".into()).stack_size(2 << 20).spawn(move || {
        let mut pos = 0usize;
        let rd_u32 = |pos: &mut usize| -> u32 {
            let v = u32::from_le_bytes(input[*pos..*pos + 4].try_into().unwrap());
            *pos += 4;
            v
        };
        let n = rd_u32(&mut pos);
        // the canonical text of a decode is harness memory: reserved once, outside every measured window
        let mut dump_buf = String::with_capacity(8 << 20);
        for idx in 0..n {
            let comp = input[pos];
            let feat = input[pos + 1];
            let opts = input[pos + 2];
            pos += 3;
            let cl = rd_u32(&mut pos);
            let cached = if cl == u32::MAX {
                None
            } else {
                let b = &input[pos..pos + cl as usize];
                pos += cl as usize;
                decode::cached_metadata_from(b, feat)
            };
            let fl = rd_u32(&mut pos) as usize;
            let frame = &input[pos..pos + fl];
            pos += fl;
            CHILD_CASE.store(idx, Ordering::Relaxed);
            CHILD_CASE_STARTED_MS.store(cpu_ms(), Ordering::Relaxed);
            let started = std::time::Instant::now();
            raw_write(&format!("I {idx}\n"));
            decode::counting_begin(idx, frame.len());
            dump_buf.clear();
            let buf = std::mem::take(&mut dump_buf);
            let res = std::panic::catch_unwind(std::panic::AssertUnwindSafe(|| decode::decode(frame, comp, feat, opts, cached.as_ref(), buf)));
            decode::counting_pause();
            CHILD_CASE_STARTED_MS.store(u64::MAX, Ordering::Relaxed);
            let micros = started.elapsed().as_micros();
            let max_single = decode::MAX_SINGLE.load(Ordering::Relaxed);
            let peak = decode::PEAK.load(Ordering::Relaxed).max(0);
            let stage = decode::STAGE.load(Ordering::Relaxed);
            match res {
                Ok(d) => {
                    let h = vcore::fnv64(d.dump.as_bytes());
                    raw_write(&format!("R {idx} {} {stage} {max_single} {peak} {h:016x} {} {} {micros}\n", if d.all_ok { 0 } else { 1 }, d.typed_targets_passed, d.rows_seen));
                    if verbose {
                        for l in d.dump.lines() {
                            raw_write(&format!("D {l}\n"));
                        }
                    }
                    dump_buf = d.dump;
                }
                Err(e) => {
                    let msg = if let Some(s) = e.downcast_ref::<&str>() {
                        s.to_string()
                    } else if let Some(s) = e.downcast_ref::<String>() {
                        s.clone()
                    } else {
                        "panic".into()
                    };
                    let msg: String = msg.replace('\n', " ").chars().take(200).collect();
                    raw_write(&format!("P {idx} {} | {msg}\nR {idx} 2 {stage} {max_single} {peak} 0 0 0 {micros}\n", vcore::last_panic_location()));
                    dump_buf = String::with_capacity(8 << 20);
                }
            }
        }
    });
    match worker.expect("spawn decode thread").join() {
        Ok(()) => std::process::exit(0),
        Err(_) => std::process::exit(4),
    }
}

// ---------------------------------------------------------------------------------------------
// parent: run batches, classify
// ---------------------------------------------------------------------------------------------

#[derive(Debug, Clone, Default)]
struct Outcome {
    /// 0 all stages Ok, 1 clean error, 2 panic, 3 crash (abort/signal), 4 timeout, 5 stack overflow
    status: u8,
    stage: u32,
    max_single: u64,
    peak: u64,
    hash: u64,
    typed: u32,
    #[allow(dead_code)]
    rows: u32,
    #[allow(dead_code)]
    micros: u64,
    /// oversize allocation report: (size, "single"|"total", stage, allocation site)
    oversize: Option<(u64, String, u32, String)>,
    /// the cap in force when the oversize request was made
    oversize_cap: u64,
    detail: String,
    dump: Option<String>,
}

fn parse_child_output(stdout: &[u8], n: usize) -> (Vec<Option<Outcome>>, BTreeMap<usize, (u64, String, u32, String)>, BTreeMap<usize, String>, Option<(usize, u32)>, BTreeMap<usize, String>, BTreeMap<usize, u32>, BTreeMap<usize, u64>) {
    let text = String::from_utf8_lossy(stdout);
    let mut recs: Vec<Option<Outcome>> = vec![None; n];
    let mut allocs = BTreeMap::new();
    let mut caps: BTreeMap<usize, u64> = BTreeMap::new();
    let mut panics = BTreeMap::new();
    let mut timeout = None;
    let mut dumps: BTreeMap<usize, String> = BTreeMap::new();
    let mut stages: BTreeMap<usize, u32> = BTreeMap::new();
    let mut cur_idx: Option<usize> = None;
    let mut last_r: Option<usize> = None;
    for line in text.lines() {
        let mut it = line.split(' ');
        match it.next() {
            Some("R") => {
                let f: Vec<&str> = it.collect();
                if f.len() >= 9 {
                    let idx: usize = f[0].parse().unwrap_or(usize::MAX);
                    if idx < n {
                        recs[idx] = Some(Outcome {
                            status: f[1].parse().unwrap_or(9),
                            stage: f[2].parse().unwrap_or(0),
                            max_single: f[3].parse().unwrap_or(0),
                            peak: f[4].parse().unwrap_or(0),
                            hash: u64::from_str_radix(f[5], 16).unwrap_or(0),
                            typed: f[6].parse().unwrap_or(0),
                            rows: f[7].parse().unwrap_or(0),
                            micros: f[8].parse().unwrap_or(0),
                            ..Default::default()
                        });
                        last_r = Some(idx);
                    }
                }
            }
            Some("A") => {
                let f: Vec<&str> = it.collect();
                if f.len() >= 4 {
                    let idx: usize = f[0].parse().unwrap_or(usize::MAX);
                    allocs.entry(idx).or_insert((f[2].parse().unwrap_or(0), f[3].to_string(), f[1].parse().unwrap_or(0), format!("stage-{}", decode::stage_name(f[1].parse().unwrap_or(0)))));
                    caps.entry(idx).or_insert(f.get(4).and_then(|x| x.parse::<u64>().ok()).unwrap_or(0));
                }
            }
            Some("B") => {
                let f: Vec<&str> = it.collect();
                if f.len() >= 2 {
                    if let Some(a) = allocs.get_mut(&f[0].parse::<usize>().unwrap_or(usize::MAX)) {
                        a.3 = f[1].to_string();
                    }
                }
            }
            Some("P") => {
                let rest: Vec<&str> = it.collect();
                if let Some(idx) = rest.first().and_then(|s| s.parse::<usize>().ok()) {
                    panics.insert(idx, rest[1..].join(" "));
                }
            }
            Some("T") => {
                let f: Vec<&str> = it.collect();
                if f.len() >= 2 {
                    timeout = Some((f[0].parse().unwrap_or(0), f[1].parse().unwrap_or(0)));
                }
            }
            Some("D") => {
                if let Some(idx) = last_r {
                    let e = dumps.entry(idx).or_default();
                    e.push_str(line.get(2..).unwrap_or(""));
                    e.push('\n');
                }
            }
            Some("I") => {
                cur_idx = it.next().and_then(|x| x.parse().ok());
            }
            Some("S") => {
                if let (Some(i), Some(st)) = (cur_idx, it.next().and_then(|x| x.parse::<u32>().ok())) {
                    stages.insert(i, st);
                }
            }
            _ => {}
        }
    }
    (recs, allocs, panics, timeout, dumps, stages, caps)
}

struct Runner {
    spawned: AtomicU64,
    crashes: AtomicU64,
    wall_backstop_hits: AtomicU64,
}

impl Runner {
    /// Run cases in child processes; returns one Outcome per case. A child that dies is restarted after the fatal case.
    fn run(&self, cases: &[&Case], verbose: bool) -> Vec<Outcome> {
        let mut outcomes: Vec<Outcome> = Vec::with_capacity(cases.len());
        let mut start = 0usize;
        while start < cases.len() {
            let slice = &cases[start..];
            let input = serialize_batch(slice);
            self.spawned.fetch_add(1, Ordering::Relaxed);
            // wall-clock backstop only (the verdict clock is CPU time inside the child): generous, and hitting it is a machinery error
            let wall = Duration::from_millis(600_000 + 200 * slice.len() as u64);
            let args: &[&str] = if verbose { &["--child", "--verbose"] } else { &["--child"] };
            let cr = vcore::sandbox::run_self(args, &input, wall);
            let (recs, allocs, panics, timeout, mut dumps, stages, caps) = parse_child_output(&cr.stdout, slice.len());
            let mut done = 0usize;
            for (i, r) in recs.into_iter().enumerate() {
                match r {
                    Some(mut o) => {
                        if let Some(a) = allocs.get(&i) {
                            o.oversize = Some(a.clone());
                            o.oversize_cap = caps.get(&i).copied().unwrap_or(0);
                        }
                        if let Some(pm) = panics.get(&i) {
                            o.detail = pm.clone();
                        }
                        o.dump = dumps.remove(&i);
                        outcomes.push(o);
                        done += 1;
                    }
                    None => break,
                }
            }
            if done == slice.len() {
                break;
            }
            // the child died (or was killed) while running case `done`
            self.crashes.fetch_add(1, Ordering::Relaxed);
            let mut o = Outcome { status: 3, ..Default::default() };
            if let Some(a) = allocs.get(&done) {
                o.oversize = Some(a.clone());
                o.oversize_cap = caps.get(&done).copied().unwrap_or(0);
                o.stage = a.2;
            }
            if let Some(st) = stages.get(&done) {
                o.stage = *st;
            }
            let tail = cr.stderr_tail.replace('\n', " ");
            if let Some((ti, ts)) = timeout {
                if ti == done {
                    o.status = 4;
                    o.stage = ts;
                }
            }
            if cr.timed_out && o.status != 4 {
                self.wall_backstop_hits.fetch_add(1, Ordering::Relaxed);
                o.status = 4;
            }
            if tail.contains("overflowed its stack") {
                o.status = 5;
            }
            o.detail = format!("child exit_code={:?} signal={:?} stderr: {}", cr.exit_code, cr.signal, tail.chars().rev().take(240).collect::<String>().chars().rev().collect::<String>());
            outcomes.push(o);
            start += done + 1;
        }
        outcomes
    }
}

/// source location of a panic, made independent of where the repository is checked out
fn panic_site(detail: &str) -> String {
    let loc = detail.split(" | ").next().unwrap_or("?").trim();
    if let Some(i) = loc.find("/scylla-cql") {
        return loc[i + 1..].to_string();
    }
    if let Some(i) = loc.find("/registry/src/") {
        let rest = &loc[i + "/registry/src/".len()..];
        return rest.split_once('/').map(|x| x.1).unwrap_or(rest).to_string();
    }
    loc.rsplit('/').next().unwrap_or(loc).to_string()
}

fn feat_name(f: u8) -> String {
    let mut v = Vec::new();
    if f & FEAT_MID != 0 {
        v.push("metadata_id");
    }
    if f & FEAT_RATE != 0 {
        v.push("rate_limit");
    }
    if f & FEAT_LWT != 0 {
        v.push("lwt_mark");
    }
    if f & FEAT_TABLETS != 0 {
        v.push("tablets");
    }
    if v.is_empty() { "none".into() } else { v.join("+") }
}

struct Oracle<'a> {
    r: &'a Report,
    runner: Runner,
    outcome_classes: Mutex<BTreeSet<(u8, u32, &'static str)>>,
    max_legit_single: AtomicU64,
    max_legit_peak: AtomicU64,
    max_legit_ratio_x1000: AtomicU64,
    unreproduced: AtomicU64,
    pinned: Mutex<BTreeSet<String>>,
}

impl Oracle<'_> {
    /// run a set of cases (batched) and judge each
    fn run_and_judge(&self, cases: Vec<Case>, batch: usize) {
        for chunk in cases.chunks(batch.max(1)) {
            let refs: Vec<&Case> = chunk.iter().collect();
            let outs = self.runner.run(&refs, false);
            for (c, o) in chunk.iter().zip(outs) {
                self.judge(c, o, false);
            }
        }
    }

    fn judge(&self, c: &Case, o: Outcome, is_rerun: bool) {
        let r = self.r;
        if !is_rerun {
            r.eval(1);
            r.counters.add(&format!("cases_{}", c.class), 1);
            self.outcome_classes.lock().unwrap().insert((o.status, o.stage, c.class));
            if o.typed > 0 {
                r.counters.add("typed_target_x_frame_combinations_passing_type_check", o.typed as u64);
            }
        }
        let flen = match &c.frame {
            FrameSrc::Bytes(b) => b.len(),
            FrameSrc::Nest { depth, .. } => depth * 2,
        };
        let stage = decode::stage_name(o.stage);
        let shape = if c.class == "field" || c.class == "field2" || c.class == "nest" || c.class == "badclass" || c.class == "classfuzz" || c.class == "tablespec" { c.site.clone() } else if c.class == "wellformed" { format!("wellformed:{}", c.site) } else { c.class.to_string() };
        let mismatch = c.expect.is_some() && (o.status != 0 || Some(o.hash) != c.expect.as_ref().map(|e| vcore::fnv64(e.as_bytes())));
        // violation key: failure class + decode site (+ deviated field for failures that have no allocation site)
        let key: Option<String> = if let Some((_, what, _, site)) = &o.oversize {
            if c.class == "tablespec" && c.site == "prepared+global-table-spec" && what == "total" {
                // owned metadata of a Prepared result: the global keyspace / table names are copied into every column spec
                Some("alloc:prepared-metadata:global-table-spec-cloned-per-column".to_string())
            } else {
                Some(format!("alloc:{site}"))
            }
        } else {
            match o.status {
                2 => Some(format!("panic:{stage}:{}", panic_site(&o.detail))),
                5 => Some(format!("stack-overflow:{stage}:{shape}")),
                4 => Some(format!("timeout:{stage}:{shape}")),
                3 => Some(format!("abort:{stage}:{shape}")),
                _ if mismatch => Some(format!("mismatch:{}", c.site)),
                _ => None,
            }
        };
        let what_input = format!("{} [{}; {} bytes of input; features {}; compression {}]", c.origin, c.class, flen, feat_name(c.feat), c.comp);
        let Some(key) = key else {
            if c.expect.is_some() {
                r.counters.add("round_trips_equal", 1);
                r.nontrivial(1);
                // what a legitimate decode asks of the allocator (printed; shows the cap is far above it)
                self.max_legit_single.fetch_max(o.max_single, Ordering::Relaxed);
                self.max_legit_peak.fetch_max(o.peak, Ordering::Relaxed);
                self.max_legit_ratio_x1000.fetch_max(o.peak.max(o.max_single) * 1000 / decode::alloc_cap(flen) as u64, Ordering::Relaxed);
            } else if o.status == 1 {
                r.counters.add("deviations_rejected_with_error", 1);
                r.nontrivial(1);
            } else {
                r.counters.add("deviations_decoded_ok", 1);
            }
            return;
        };
        if !is_rerun {
            r.counters.add("cases_flagged", 1);
            r.counters.add(&format!("flagged_{}", key.split(':').next().unwrap_or("?")), 1);
            // the first case of every key is re-run alone (verbosely) to confirm it and to collect the decoded text
            if !self.pinned.lock().unwrap().insert(key.clone()) {
                return;
            }
            let outs = self.runner.run(&[c], true);
            let o2 = outs.into_iter().next().unwrap_or_default();
            let same = (o2.status >= 2) == (o.status >= 2) && o2.oversize.is_some() == o.oversize.is_some();
            if !same {
                self.unreproduced.fetch_add(1, Ordering::Relaxed);
                eprintln!("UNREPRODUCED: [{key}] batch outcome status {} oversize {:?} vs alone status {} oversize {:?}: {what_input}", o.status, o.oversize, o2.status, o2.oversize);
                return;
            }
            return self.judge(c, o2, true);
        }
        let text = if let Some((size, what, st, site)) = &o.oversize {
            format!("oversize allocation in {site}: {what} request of {size} bytes for {flen} bytes of input (cap {} bytes), stage {}{} on {what_input}", o.oversize_cap, decode::stage_name(*st), if o.status == 3 { "; request refused -> process abort" } else { "" })
        } else {
            match o.status {
                2 => format!("decode panicked at {} on {what_input}", o.detail),
                5 => format!("stack overflow (2 MiB decode thread) in stage {stage} on {what_input}; {}", o.detail),
                4 => format!("decode still running after {CASE_TIMEOUT_MS} ms of CPU time in stage {stage} on {what_input}"),
                3 => format!("decoder process died in stage {stage} on {what_input}; {}", o.detail),
                _ => {
                    let exp = c.expect.clone().unwrap_or_default();
                    let got = o.dump.clone().unwrap_or_default();
                    let diff = exp.lines().zip(got.lines().chain(std::iter::repeat("<missing>"))).find(|(a, b)| a != b).map(|(a, b)| format!("expected line `{a}` but decoded `{b}`")).unwrap_or_else(|| format!("decoded text has extra lines: {:?}", got.lines().nth(exp.lines().count())));
                    format!("well-formed frame decoded differently from what was encoded: {diff}; {what_input}")
                }
            }
        };
        r.violation(&key, &text, c.to_json());
    }
}

// ---------------------------------------------------------------------------------------------
// case generators
// ---------------------------------------------------------------------------------------------

fn cached_twin(item: &Item) -> Option<(Arc<Vec<u8>>, RowsMeta)> {
    // a no_metadata Rows result can be decoded with the metadata of its with-metadata twin
    if let Response::Result(ResultBody::Rows(rows)) = &item.resp {
        if rows.meta.no_metadata {
            let mut m = rows.meta.clone();
            m.no_metadata = false;
            m.new_metadata_id = None;
            m.paging_state = None;
            let twin = Response::Result(ResultBody::Rows(resp::Rows { meta: m.clone(), rows: vec![] }));
            let w = resp::encode_ext_body(&Ext::default(), &twin, false);
            return Some((Arc::new(w.buf), m));
        }
    }
    None
}

fn wellformed_cases(item: &Item, exts: &[Ext], feats: &[u8], comps: &[(Comp, bool)], typed: bool, chunked_every: usize, out: &mut Vec<Case>) {
    let mut k = 0usize;
    for ext in exts {
        for &feat in feats {
            // the server encodes for the features that were negotiated
            let w = resp::encode_ext_body(ext, &item.resp, feat & FEAT_MID != 0);
            for &(comp, matches) in comps {
                let stream: i16 = [0, 1, -1, 32767][k % 4];
                let frame = Arc::new(resp::frame(ext.flags(), stream, item.resp.opcode(), &w.buf, comp, matches));
                let twin = cached_twin(item);
                for use_cached in [false, true] {
                    if use_cached && twin.is_none() {
                        continue;
                    }
                    k += 1;
                    let cached_model = if use_cached { twin.as_ref().map(|t| &t.1) } else { None };
                    let expect = frames::expected_dump(item, ext, stream, feat, cached_model).map(Arc::new);
                    out.push(Case {
                        frame: FrameSrc::Bytes(frame.clone()),
                        comp: frames::comp_code(comp),
                        feat,
                        opts: if typed { decode::OPT_TYPED } else { 0 } | if chunked_every > 0 && k % chunked_every == 0 { decode::OPT_CHUNKED } else { 0 },
                        cached: if use_cached { twin.as_ref().map(|t| t.0.clone()) } else { None },
                        expect,
                        class: "wellformed",
                        site: item.resp.kind_name().to_string(),
                        origin: format!("{} ext_flags={:#x} stream={stream} comp={comp:?}/{matches}", item.name, ext.flags()),
                    });
                }
            }
        }
    }
}

fn mutated_frame(ext_flags: u8, opcode: u8, body: &[u8], comp: Comp) -> Arc<Vec<u8>> {
    Arc::new(resp::frame(ext_flags, 1, opcode, body, comp, true))
}

fn deviation_cases(item: &Item, ext: &Ext, feat: u8, comp: Comp, pairs: u8, typed: bool, cached: Option<Arc<Vec<u8>>>, out: &mut Vec<Case>) {
    let w = resp::encode_ext_body(ext, &item.resp, feat & FEAT_MID != 0);
    let opcode = item.resp.opcode();
    let base = |class: &'static str, site: String, origin: String, frame: Arc<Vec<u8>>| Case { frame: FrameSrc::Bytes(frame), comp: frames::comp_code(comp), feat, opts: if typed { decode::OPT_TYPED } else { 0 }, cached: cached.clone(), expect: None, class, site, origin };
    // every truncation point of the frame as a byte stream (the connection ends early)
    let whole = mutated_frame(ext.flags(), opcode, &w.buf, comp);
    // (frames above 4 KiB: 64 evenly spaced cuts plus the first and last 64 positions instead of every position)
    let cuts_of = |len: usize| -> Vec<usize> {
        if len <= 4096 { (0..len).collect() } else { (0..64).chain((64..len - 64).step_by(len / 64)).chain(len - 64..len).collect() }
    };
    for cut in cuts_of(whole.len()) {
        let mut c = base("truncate-stream", "truncate-stream".into(), format!("{} cut at {cut}/{}", item.name, whole.len()), Arc::new(whole[..cut].to_vec()));
        if cut % 2 == 1 {
            c.opts |= decode::OPT_CHUNKED; // short reads (3 bytes per poll, Pending in between) before the early EOF
        }
        out.push(c);
    }
    // every truncation point of the body with a consistent header (a peer that sends a short body)
    for cut in cuts_of(w.buf.len()) {
        out.push(base("truncate-body", "truncate-body".into(), format!("{} body cut at {cut}/{}", item.name, w.buf.len()), mutated_frame(ext.flags(), opcode, &w.buf[..cut], comp)));
    }
    // every field-aware single mutation
    let mut singles: Vec<(usize, i64, &'static str)> = Vec::new();
    for (fi, f) in w.fields.iter().enumerate() {
        let cur = frames::read_field(&w.buf, f);
        for (v, label) in frames::mutation_values(f, cur) {
            let mut b = w.buf.clone();
            frames::write_field(&mut b, f, v);
            out.push(base("field", f.site.to_string(), format!("{} field#{fi} {} at body offset {}: {cur} -> {label} ({v:#x})", item.name, f.site, f.off), mutated_frame(ext.flags(), opcode, &b, comp)));
            singles.push((fi, v, label));
        }
    }
    // header fields, on the final frame
    for f in resp::header_fields() {
        let cur = frames::read_field(&whole, &f);
        for (v, label) in frames::mutation_values(&f, cur) {
            let mut b = whole.to_vec();
            frames::write_field(&mut b, &f, v);
            out.push(base("field", f.site.to_string(), format!("{} {}: {cur:#x} -> {label} ({v:#x})", item.name, f.site), Arc::new(b)));
        }
    }
    if pairs > 0 {
        // 2 deviations: pairs of fields of the same frame region (same site prefix) or close to each other.
        // level 1: reduced value alphabet, same region or adjacent, distance <= 6; level 2: full alphabet, every pair of fields of the frame
        let region = |f: &Field| f.site.split('.').next().unwrap_or("").to_string();
        let small = |label: &str| pairs >= 2 || matches!(label, "0" | "-1" | "+1" | "i32max" | "0xffff" | "flip" | "typeid");
        let maxdist = 6;
        for (i, fa) in w.fields.iter().enumerate() {
            for (j, fb) in w.fields.iter().enumerate().skip(i + 1) {
                let near = if pairs >= 2 { true } else { (region(fa) == region(fb) || j == i + 1) && j - i <= maxdist };
                if !near {
                    continue;
                }
                let ca = frames::read_field(&w.buf, fa);
                let cb = frames::read_field(&w.buf, fb);
                for (va, la) in frames::mutation_values(fa, ca).into_iter().filter(|(_, l)| small(l)) {
                    for (vb, lb) in frames::mutation_values(fb, cb).into_iter().filter(|(_, l)| small(l)) {
                        let mut b = w.buf.clone();
                        frames::write_field(&mut b, fa, va);
                        frames::write_field(&mut b, fb, vb);
                        out.push(base("field2", format!("{}+{}", fa.site, fb.site), format!("{} fields #{i} {} -> {la}, #{j} {} -> {lb}", item.name, fa.site, fb.site), mutated_frame(ext.flags(), opcode, &b, comp)));
                    }
                }
            }
        }
        // 2 deviations: a field mutation plus a body truncation shortly after the field / shortly before the end
        for (fi, f) in w.fields.iter().enumerate() {
            let cur = frames::read_field(&w.buf, f);
            for (v, label) in frames::mutation_values(f, cur).into_iter().filter(|(_, l)| small(l)) {
                let mut b = w.buf.clone();
                frames::write_field(&mut b, f, v);
                let after = f.off + f.width as usize;
                let mut cuts: BTreeSet<usize> = if pairs >= 2 && b.len() <= 4096 { (after..b.len()).collect() } else { (after..(after + 6).min(b.len())).collect() };
                for k in 1..4 {
                    if b.len() > after + k {
                        cuts.insert(b.len() - k);
                    }
                }
                for cut in cuts {
                    out.push(base("field2", format!("{}+truncate", f.site), format!("{} field#{fi} {} -> {label}, body cut at {cut}/{}", item.name, f.site, b.len()), mutated_frame(ext.flags(), opcode, &b[..cut], comp)));
                }
            }
        }
    }
}

/// deviations *inside* cell values (collection counts, element lengths, extreme scalars): every offset of the rows
/// content overwritten with boundary integers, decoded as raw cells, CqlValue and every typed target that passes type_check
fn cell_content_cases(item: &Item, feat: u8, thorough: bool, out: &mut Vec<Case>) {
    let Response::Result(ResultBody::Rows(rows)) = &item.resp else { return };
    if rows.rows.is_empty() || rows.meta.no_metadata {
        return;
    }
    let w = resp::encode_ext_body(&Ext::default(), &item.resp, feat & FEAT_MID != 0);
    if w.buf.len() > 4096 {
        return;
    }
    let Some(start) = w.fields.iter().find(|f| f.site == "rows.cell.len").map(|f| f.off) else { return };
    let mk = |origin: String, b: Vec<u8>| Case { frame: FrameSrc::Bytes(mutated_frame(0, p::opcode::RESULT, &b, Comp::None)), comp: 0, feat, opts: decode::OPT_TYPED, cached: None, expect: None, class: "field", site: "rows.cell.content".into(), origin };
    let v32: &[i32] = if thorough { &[0, 1, -1, -2, 0x7fff, 0xffff, i32::MAX, i32::MIN, 0x0100_0000] } else { &[0, -1, 1, i32::MAX, i32::MIN] };
    for off in start..w.buf.len().saturating_sub(3) {
        for v in v32 {
            if w.buf[off..off + 4] == v.to_be_bytes() {
                continue;
            }
            let mut b = w.buf.clone();
            b[off..off + 4].copy_from_slice(&v.to_be_bytes());
            out.push(mk(format!("{} rows content offset {off}: 4 bytes <- {v}", item.name), b));
        }
    }
    let v64: &[i64] = if thorough { &[i64::MIN, i64::MAX, -1, 86_400_000_000_000, i64::MIN + 1] } else { &[i64::MIN, i64::MAX] };
    for off in start..w.buf.len().saturating_sub(7) {
        for v in v64 {
            let mut b = w.buf.clone();
            b[off..off + 8].copy_from_slice(&v.to_be_bytes());
            out.push(mk(format!("{} rows content offset {off}: 8 bytes <- {v}", item.name), b));
        }
    }
    // single bytes: 0x00 / 0x7f / 0x80 / 0xff (vints, booleans, UTF-8 continuation bytes, inet lengths)
    for off in start..w.buf.len() {
        for v in [0x00u8, 0x7f, 0x80, 0xff] {
            if w.buf[off] == v || (!thorough && v == 0x7f) {
                continue;
            }
            let mut b = w.buf.clone();
            b[off] = v;
            out.push(mk(format!("{} rows content offset {off}: byte <- {v:#x}", item.name), b));
        }
    }
}

/// a cell value cut short *consistently* (its [bytes] length says what is there): every prefix of every cell of the first row,
/// decoded as raw cells, CqlValue, typed targets and through the iterator API exercise
fn cell_truncation_cases(item: &Item, feat: u8, out: &mut Vec<Case>) {
    let Response::Result(ResultBody::Rows(rows)) = &item.resp else { return };
    if rows.rows.is_empty() || rows.meta.no_metadata {
        return;
    }
    for (ci, cell) in rows.rows[0].iter().enumerate() {
        let Some(v) = cell else { continue };
        if v.len() > 512 {
            continue;
        }
        for cut in 0..v.len() {
            let mut m = rows.clone();
            m.rows[0][ci] = Some(v[..cut].to_vec());
            let r = Response::Result(ResultBody::Rows(m));
            let w = resp::encode_ext_body(&Ext::default(), &r, feat & FEAT_MID != 0);
            out.push(Case { frame: FrameSrc::Bytes(mutated_frame(0, p::opcode::RESULT, &w.buf, Comp::None)), comp: 0, feat, opts: decode::OPT_TYPED, cached: None, expect: None, class: "field", site: "rows.cell.truncated".into(), origin: format!("{} cell {ci} of row 0 shortened to its first {cut} of {} bytes (length prefix consistent)", item.name, v.len()) });
        }
    }
}

/// damage to the compressed representation itself (malformed compression)
fn comp_stream_cases(item: &Item, feat: u8, out: &mut Vec<Case>) {
    let w = resp::encode_ext_body(&Ext::default(), &item.resp, feat & FEAT_MID != 0);
    for (comp, matches) in [(Comp::Lz4, true), (Comp::Lz4, false), (Comp::Snappy, true), (Comp::Snappy, false)] {
        let cbody = p::cql_compress(comp, &w.buf, matches);
        let mk = |site: &str, origin: String, b: Vec<u8>| Case { frame: FrameSrc::Bytes(Arc::new(frames::plain_frame(item.resp.opcode(), p::FLAG_COMPRESSION, 1, &b))), comp: frames::comp_code(comp), feat, opts: 0, cached: None, expect: None, class: "comp-stream", site: site.to_string(), origin };
        // every truncation of the compressed stream
        for cut in 0..cbody.len() {
            out.push(mk("comp-stream", format!("{} {comp:?} stream cut at {cut}/{}", item.name, cbody.len()), cbody[..cut].to_vec()));
        }
        // every byte set to 0x00 / 0xff / flipped
        for i in 0..cbody.len() {
            for (how, f) in [("zero", 0u8), ("ones", 0xff), ("xor", cbody[i] ^ 0xff), ("inc", cbody[i].wrapping_add(1))] {
                if f == cbody[i] {
                    continue;
                }
                let mut b = cbody.clone();
                b[i] = f;
                out.push(mk("comp-stream", format!("{} {comp:?} stream byte {i} {how}", item.name), b));
            }
        }
        // the announced uncompressed length
        let lens: [u64; 9] = [0, 1, w.buf.len() as u64 + 1, w.buf.len().saturating_sub(1) as u64, 0x7fff, 0xffff, 0x7fff_ffff, 0x8000_0000, 0xffff_ffff];
        for l in lens {
            let b = match comp {
                Comp::Lz4 => {
                    let mut b = cbody.clone();
                    b[0..4].copy_from_slice(&(l as u32).to_be_bytes());
                    b
                }
                _ => {
                    // replace the varint preamble
                    let mut i = 0;
                    while cbody[i] & 0x80 != 0 {
                        i += 1;
                    }
                    let mut b = Vec::new();
                    let mut n = l;
                    loop {
                        let x = (n & 0x7f) as u8;
                        n >>= 7;
                        if n == 0 {
                            b.push(x);
                            break;
                        }
                        b.push(x | 0x80);
                    }
                    b.extend_from_slice(&cbody[i + 1..]);
                    b
                }
            };
            out.push(Case { site: if comp == Comp::Lz4 { "lz4.uncompressed_len".into() } else { "snappy.uncompressed_len".into() }, class: "field", ..mk("", format!("{} {comp:?} announced length {} -> {l}", item.name, w.buf.len()), b) });
        }
        // compression flag set on a connection that negotiated none / the other algorithm
        for other in [Comp::None, Comp::Lz4, Comp::Snappy] {
            if other != comp {
                out.push(Case { comp: frames::comp_code(other), ..mk("comp-stream", format!("{} {comp:?} body decoded as {other:?}", item.name), cbody.clone()) });
            }
        }
    }
}

fn nest_cases(thorough: bool, out: &mut Vec<Case>) {
    let depths: &[usize] = &[100, 1000, 10_000, 100_000, 1_000_000];
    for shape in ["list", "set", "map-value", "map-key", "tuple", "udt"] {
        for &depth in depths {
            for prepared in [false, true] {
                for comp in if thorough { vec![0u8, 1, 2] } else { vec![0u8] } {
                    out.push(Case { frame: FrameSrc::Nest { shape: shape.into(), depth, prepared, comp }, comp, feat: 0, opts: 0, cached: None, expect: None, class: "nest", site: format!("nest/{shape}"), origin: format!("column type {shape} nested {depth} deep in {}", if prepared { "Prepared" } else { "Rows" }) });
                }
            }
        }
    }
    for shape in ["class:list", "class:frozen", "class:tuple", "class:vector", "class:map-arity", "class:list-arity", "class:udt", "class:open-only"] {
        for &depth in &[4usize, 8, 12, 16, 20, 24, 28, 32, 100, 1000, 3000, 7000] {
            for prepared in [false, true] {
                out.push(Case { frame: FrameSrc::Nest { shape: shape.into(), depth, prepared, comp: 0 }, comp: 0, feat: 0, opts: 0, cached: None, expect: None, class: "nest", site: format!("nest/{shape}"), origin: format!("custom class string {shape} nested {depth} deep in {}", if prepared { "Prepared" } else { "Rows" }) });
            }
        }
    }
}

fn badclass_cases(out: &mut Vec<Case>) {
    for (i, cls) in frames::bad_class_strings().into_iter().enumerate() {
        for prepared in [false, true] {
            let cols = vec![resp::ColSpec { ks: "ks".into(), table: "t".into(), name: "c".into(), ty: resp::Ty::CustomRaw(cls.clone()) }];
            let meta = RowsMeta { global: None, paging_state: None, no_metadata: false, new_metadata_id: None, cols: cols.clone() };
            let r = if prepared {
                Response::Result(ResultBody::Prepared(resp::Prepared { id: vec![1], result_metadata_id: vec![], global: None, pk_indexes: vec![], cols, result: meta }))
            } else {
                Response::Result(ResultBody::Rows(resp::Rows { meta, rows: vec![] }))
            };
            let w = resp::encode_ext_body(&Ext::default(), &r, false);
            out.push(Case { frame: FrameSrc::Bytes(mutated_frame(0, p::opcode::RESULT, &w.buf, Comp::None)), comp: 0, feat: 0, opts: 0, cached: None, expect: None, class: "badclass", site: "type.custom.class".into(), origin: format!("class string #{i} {cls:?} in {}", if prepared { "Prepared" } else { "Rows" }) });
        }
    }
}

/// every hole of every class-string template x every string of length 0..=maxlen over CLASS_SYMBOLS (+ invalid UTF-8)
fn classfuzz_cases(template: usize, maxlen: usize, first: Option<usize>, out: &mut Vec<Case>) {
    let (name, tpl) = frames::class_templates()[template];
    let (pre, post) = tpl.split_once("{}").unwrap();
    let syms = frames::CLASS_SYMBOLS;
    // `first`: only the strings that start with that symbol (the empty string and the invalid-UTF-8 strings go with symbol 0)
    let mut subs: Vec<Vec<u8>> = if first.unwrap_or(0) == 0 { vec![vec![]] } else { vec![] };
    let mut layer: Vec<Vec<u8>> = vec![vec![]];
    for pos in 0..maxlen {
        let mut next = Vec::with_capacity(layer.len() * syms.len());
        for s in &layer {
            for (yi, y) in syms.iter().enumerate() {
                if pos == 0 && first.is_some_and(|f| f != yi) {
                    continue;
                }
                let mut t = s.clone();
                t.extend_from_slice(y.as_bytes());
                next.push(t);
            }
        }
        subs.extend(next.iter().cloned());
        layer = next;
    }
    // invalid UTF-8 inside the [string]: lone continuation / lead bytes, truncated and overlong sequences, at both parities
    let bads: &[&[u8]] = if first.unwrap_or(0) == 0 { &[&[0xffu8], &[0xc3], &[0x80], &[b'a', 0xc3], &[0xe4, 0xb8], &[b'a', 0xe4, 0xb8], &[0xf0, 0x9d, 0x9f], &[0xc0, 0xaf], &[b'6', 0xed, 0xa0, 0x80]] } else { &[] };
    for bad in bads.iter().copied().chain(std::iter::empty::<&[u8]>()) {
        subs.push(bad.to_vec());
    }
    for sub in subs {
        let cls: Vec<u8> = [pre.as_bytes(), &sub, post.as_bytes()].concat();
        for prepared in [false, true] {
            // the owned (Prepared) and borrowed (Rows) parser entry points share the class parser: Prepared for a third of the cases
            if prepared && sub.len() % 3 != 0 {
                continue;
            }
            out.push(Case {
                frame: FrameSrc::Bytes(Arc::new(frames::plain_frame(p::opcode::RESULT, 0, 1, &frames::custom_type_body(&cls, prepared)))),
                comp: 0,
                feat: 0,
                opts: 0,
                cached: None,
                expect: None,
                class: "classfuzz",
                site: format!("type.custom.class/{name}"),
                origin: format!("class string {:?} ({name} <- {:?}) in {}", String::from_utf8_lossy(&cls), String::from_utf8_lossy(&sub), if prepared { "Prepared" } else { "Rows" }),
            });
        }
    }
}

/// nested fixed-size vectors: the element size is a product of the dimensions (depth 1..8 x boundary dimensions),
/// metadata parsing and decoding null / empty / short / plausible cells against the type, typed targets on
fn vector_nest_cases(out: &mut Vec<Case>) {
    for leaf in ["Int32Type", "FloatType", "UUIDType", "BooleanType", "UTF8Type", "ListType(Int32Type)"] {
        for depth in 1..=8usize {
            for dim in ["0", "1", "2", "255", "65535", "65536", "2147483647"] {
                let cls = frames::nested_vector_class(leaf, depth, dim);
                let cells: Vec<Option<Vec<u8>>> = vec![None, Some(vec![]), Some(vec![0, 0, 0, 1]), Some(vec![0x7f; 64]), Some((0..=255).collect())];
                for (which, body) in [("Rows", frames::custom_type_rows_body(cls.as_bytes(), &cells)), ("Rows/no rows", frames::custom_type_body(cls.as_bytes(), false)), ("Prepared", frames::custom_type_body(cls.as_bytes(), true))] {
                    out.push(Case { frame: FrameSrc::Bytes(Arc::new(frames::plain_frame(p::opcode::RESULT, 0, 1, &body))), comp: 0, feat: 0, opts: decode::OPT_TYPED, cached: None, expect: None, class: "nest", site: "nest/class:vector-dimensions".into(), origin: format!("{leaf} in {depth} nested vectors of dimension {dim}, {which}") });
                }
            }
        }
    }
}

/// long keyspace / table names x many columns, global or per-column table spec, Rows and Prepared
fn table_spec_cases(thorough: bool, out: &mut Vec<Case>) {
    for prepared in [false, true] {
        for global in [true, false] {
            for name_len in [1usize, 255, 4096, 65535] {
                for ncols in [1usize, 100, 10_000, 30_000] {
                    // per-column specs repeat the names on the wire: keep the frame under 8 MiB (quick: 2 MiB)
                    let limit = if thorough { 8 << 20 } else { 2 << 20 };
                    let n = if global { ncols } else { ncols.min(limit / (2 * name_len + 8)).max(1) };
                    let r = frames::table_spec_item(n, name_len, global, prepared);
                    let w = resp::encode_ext_body(&Ext::default(), &r, false);
                    out.push(Case {
                        frame: FrameSrc::Bytes(Arc::new(frames::plain_frame(p::opcode::RESULT, 0, 1, &w.buf))),
                        comp: 0,
                        feat: 0,
                        opts: 0,
                        cached: None,
                        expect: None,
                        class: "tablespec",
                        site: format!("{}+{}", if prepared { "prepared" } else { "rows" }, if global { "global-table-spec" } else { "per-column-table-spec" }),
                        origin: format!("{n} columns, keyspace and table names of {name_len} bytes, {} table spec, {}", if global { "global" } else { "per-column" }, if prepared { "Prepared" } else { "Rows" }),
                    });
                }
            }
        }
    }
}

fn random_cases(seed: u64, n: usize, out: &mut Vec<Case>) {
    let mut rng = vcore::Rng::new(seed ^ 0xC08);
    let ops = [0x00u8, 0x02, 0x03, 0x06, 0x08, 0x0C, 0x0E, 0x10];
    for i in 0..n {
        let len = rng.below(96) as usize;
        let mut body = vec![0u8; len];
        rng.fill(&mut body);
        if rng.below(2) == 0 && len >= 4 {
            // steer half of the RESULT bodies into the five result kinds
            body[0..4].copy_from_slice(&((rng.below(5) + 1) as u32).to_be_bytes());
        }
        let op = ops[rng.below(ops.len() as u64) as usize];
        let flags = (rng.below(16) as u8) & if rng.below(4) == 0 { 0x0f } else { 0x0e };
        let comp = rng.below(3) as u8;
        out.push(Case { frame: FrameSrc::Bytes(Arc::new(frames::plain_frame(op, flags, 1, &body))), comp, feat: rng.below(16) as u8, opts: 0, cached: None, expect: None, class: "random", site: "random".into(), origin: format!("random body #{i} behind a valid header (sampled)") });
    }
}

// ---------------------------------------------------------------------------------------------
// stream-level sub-leg: several well-formed frames back to back in ONE reader
// ---------------------------------------------------------------------------------------------

const STREAM_FIRST_SIZES: [usize; 16] = [0, 1, 9, 8191, 8192, 32767, 32768, 32769, 40000, 49152, 65535, 65536, 65537, 100_000, 131_073, 300_001];
/// max bytes the reader hands out per poll (0 = everything at once, a plain slice)
const STREAM_CHUNKS: [usize; 5] = [0, 1, 7, 4096, 65_537];

/// header fields and body bytes of frame `idx` of a stream; the body is written straight into `out`
fn stream_frame_into(idx: usize, size: usize, out: &mut Vec<u8>) -> (u8, i16, u8, usize) {
    let ops = [0x08u8, 0x00, 0x06, 0x0C, 0x02, 0x10];
    let opcode = ops[idx % ops.len()];
    let flags = [0u8, 0x02, 0x08, 0x0e][idx % 4];
    let stream = [0i16, 1, -1, 32767, -32768][idx % 5].wrapping_add(idx as i16);
    out.push(0x84);
    out.push(flags);
    out.extend_from_slice(&stream.to_be_bytes());
    out.push(opcode);
    out.extend_from_slice(&(size as u32).to_be_bytes());
    let start = out.len();
    // position- and frame-dependent content: a read that starts or ends in the wrong place cannot match
    out.extend((0..size).map(|i| ((i as u32).wrapping_mul(2654435761).wrapping_add(idx as u32 * 97) >> 13) as u8));
    (flags, stream, opcode, start)
}

/// Decode `sizes.len()` concatenated frames by repeated `read_response_frame` calls on one reader.
fn stream_case(sizes: &[usize], chunk: usize) -> Result<(), (String, String)> {
    use scylla_cql::frame::read_response_frame;
    let mut all = Vec::with_capacity(sizes.iter().sum::<usize>() + 9 * sizes.len());
    let mut want = Vec::new();
    for (i, &sz) in sizes.iter().enumerate() {
        let (flags, stream, opcode, start) = stream_frame_into(i, sz, &mut all);
        want.push((flags, stream, opcode, start, sz));
    }
    let mut slice_rd: &[u8] = &all;
    let mut chunk_rd = decode::ChunkReader { data: &all, chunk: chunk.max(1), pending_next: false };
    for (i, (flags, stream, opcode, start, sz)) in want.iter().enumerate() {
        let body = &all[*start..*start + *sz];
        let got = if chunk == 0 { decode::block_on(read_response_frame(&mut slice_rd)) } else { decode::block_on(read_response_frame(&mut chunk_rd)) };
        let (params, op, b) = match got {
            None => return Err(("stream:never-completes".into(), format!("frame {i}: the read future never completed"))),
            // a frame too large for the decoder may be refused - but only the first oversize one, and then the stream ends there
            Some(Err(e)) if *sz > (64 << 20) => {
                let _ = e;
                return Ok(());
            }
            Some(Err(e)) => return Err(("stream:error-on-well-formed-stream".into(), format!("frame {i} of {sizes:?}: {e}"))),
            Some(Ok(x)) => x,
        };
        if params.version != 0x84 || params.flags != *flags || params.stream != *stream || op as u8 != *opcode {
            return Err(("stream:frame-header-mismatch".into(), format!("frame {i} of {sizes:?}: header decoded as version {:#x} flags {:#x} stream {} opcode {:#x}, encoded {:#x} {} {:#x}", params.version, params.flags, params.stream, op as u8, flags, stream, opcode)));
        }
        if b.len() != body.len() {
            return Err(("stream:frame-body-length".into(), format!("frame {i} of {sizes:?}: {} bytes announced and encoded, {} bytes returned", body.len(), b.len())));
        }
        if b[..] != body[..] {
            let at = b.iter().zip(body.iter()).position(|(x, y)| x != y).unwrap_or(0);
            return Err(("stream:frame-body-mismatch".into(), format!("frame {i} of {sizes:?}: body differs from what was encoded at offset {at}")));
        }
    }
    let left = if chunk == 0 { slice_rd.len() } else { chunk_rd.data.len() };
    if left != 0 {
        return Err(("stream:reader-not-exhausted".into(), format!("{left} bytes left in the reader after the last frame of {sizes:?}")));
    }
    // one more read: clean EOF error, nothing else
    let extra = if chunk == 0 { decode::block_on(read_response_frame(&mut slice_rd)) } else { decode::block_on(read_response_frame(&mut chunk_rd)) };
    match extra {
        Some(Err(_)) => Ok(()),
        Some(Ok(_)) => Err(("stream:frame-from-nothing".into(), format!("a frame was returned after the end of {sizes:?}"))),
        None => Err(("stream:never-completes".into(), "read at end of stream never completed".into())),
    }
}

fn stream_cases(thorough: bool) -> Vec<(Vec<usize>, usize)> {
    let mut seqs: Vec<Vec<usize>> = Vec::new();
    let seconds: &[usize] = if thorough { &[0, 1, 9, 8192, 32768, 32769, 40000, 65537, 100_000] } else { &[0, 1, 9, 32769, 40000, 65537] };
    for &a in &STREAM_FIRST_SIZES {
        seqs.push(vec![a]);
        for &b2 in seconds {
            seqs.push(vec![a, b2]);
            seqs.push(vec![b2, a, 9]);
        }
        seqs.push(vec![a, a, a]);
    }
    let mut out = Vec::new();
    for s in seqs {
        for &c in &STREAM_CHUNKS {
            // one byte per poll over the largest streams only in thorough
            if c == 1 && !thorough && s.iter().sum::<usize>() > 140_000 {
                continue;
            }
            out.push((s.clone(), c));
        }
    }
    out
}

/// child: cases on stdin as lines "chunk size size ...", one line of verdict per case on stdout
fn stream_child() -> ! {
    use std::io::Read;
    vcore::sandbox::limit_address_space(2 << 30);
    vcore::quiet_panics();
    let mut input = String::new();
    std::io::stdin().read_to_string(&mut input).expect("stdin");
    for (idx, line) in input.lines().enumerate() {
        let nums: Vec<usize> = line.split_whitespace().filter_map(|x| x.parse().ok()).collect();
        if nums.is_empty() {
            continue;
        }
        raw_write(&format!("I {idx}\n"));
        match std::panic::catch_unwind(|| stream_case(&nums[1..], nums[0])) {
            Ok(Ok(())) => raw_write(&format!("K {idx}\n")),
            Ok(Err((key, text))) => raw_write(&format!("V {idx} {key} | {}\n", text.replace('\n', " "))),
            Err(_) => raw_write(&format!("V {idx} stream:panic | panicked at {}\n", vcore::last_panic_location())),
        }
    }
    std::process::exit(0)
}

fn run_stream_cases(r: &Report, cases: &[(Vec<usize>, usize)]) {
    let input: String = cases.iter().map(|(s, c)| format!("{c} {}\n", s.iter().map(|x| x.to_string()).collect::<Vec<_>>().join(" "))).collect();
    let cr = vcore::sandbox::run_self(&["--stream-child"], input.as_bytes(), Duration::from_secs(900));
    let text = String::from_utf8_lossy(&cr.stdout);
    let mut done = vec![false; cases.len()];
    let mut started: Option<usize> = None;
    let case_json = |i: usize| json!({"leg": "stream", "sizes": cases[i].0, "chunk": cases[i].1});
    for line in text.lines() {
        let mut it = line.splitn(3, ' ');
        match (it.next(), it.next().and_then(|x| x.parse::<usize>().ok())) {
            (Some("I"), Some(i)) => started = Some(i),
            (Some("K"), Some(i)) if i < cases.len() => {
                done[i] = true;
                r.eval(1);
                r.nontrivial(1);
                r.counters.add("cases_stream", 1);
                r.counters.add("stream_sequences_decoded_exactly", 1);
            }
            (Some("V"), Some(i)) if i < cases.len() => {
                done[i] = true;
                r.eval(1);
                r.counters.add("cases_stream", 1);
                let rest = it.next().unwrap_or("");
                let (key, what) = rest.split_once(" | ").unwrap_or((rest, ""));
                r.violation(key, &format!("{what} [reader chunk {}]", if cases[i].1 == 0 { "unlimited".to_string() } else { cases[i].1.to_string() }), case_json(i));
            }
            _ => {}
        }
    }
    if cr.timed_out {
        vcore::machinery_error("stream sub-leg hit its wall-clock backstop");
    }
    if done.iter().any(|d| !d) {
        // the child died: the case it had started is the culprit
        let i = started.unwrap_or(0).min(cases.len() - 1);
        r.eval(1);
        r.violation("abort:stream", &format!("decoder process died reading the frame sequence {:?} (chunk {}): exit {:?} signal {:?} {}", cases[i].0, cases[i].1, cr.exit_code, cr.signal, cr.stderr_tail.replace('\n', " ")), case_json(i));
    }
}

// ---------------------------------------------------------------------------------------------
// compression round trip: VALID compressed frames of highly compressible content must be decoded, not refused
// ---------------------------------------------------------------------------------------------

const COMPRT_PATTERNS: [&str; 6] = ["zeros", "ab", "7-byte", "40-byte row", "random", "1000-byte block"];

fn comprt_content(pattern: usize, size: usize) -> Vec<u8> {
    let mut rng = vcore::Rng::new(0xC0 + pattern as u64);
    match pattern {
        0 => vec![0u8; size],
        1 => (0..size).map(|i| b"ab"[i % 2]).collect(),
        2 => (0..size).map(|i| b"\x01row\x00\xffz"[i % 7]).collect(),
        3 => {
            let row: Vec<u8> = [&[0u8, 0, 0, 4, 0, 0, 0, 7][..], &[0, 0, 0, 24], b"the same text in every r", &[0xff, 0xff, 0xff, 0xff, 0, 0, 0, 0]].concat();
            (0..size).map(|i| row[i % row.len()]).collect()
        }
        4 => {
            let mut v = vec![0u8; size];
            rng.fill(&mut v);
            v
        }
        _ => {
            let mut block = vec![0u8; 1000];
            rng.fill(&mut block);
            (0..size).map(|i| block[i % 1000]).collect()
        }
    }
}

/// comp: 1 LZ4, 2 Snappy; encoder: 0 the driver's own compress_append (lz4_flex / snap encoders), 1 cqlref's greedy encoders
fn comprt_case(comp: u8, encoder: u8, pattern: usize, size: usize) -> Result<(), (String, String)> {
    use scylla_cql::frame::response::ResponseV2;
    use scylla_cql::frame::{compress_append, decompress, parse_response_body_extensions, read_response_frame};
    let cname = if comp == 1 { "lz4" } else { "snappy" };
    let content = comprt_content(pattern, size);
    let mut plain = (size as i32).to_be_bytes().to_vec();
    plain.extend_from_slice(&content);
    let compression = decode::compression_of(comp).unwrap();
    let compressed = if encoder == 0 {
        let mut out = Vec::new();
        compress_append(&plain, compression, &mut out).map_err(|e| ("comprt:compress-failed".to_string(), e.to_string()))?;
        out
    } else {
        p::cql_compress(frames::comp_from(comp), &plain, true)
    };
    let what = format!("{} bytes of {:?} compressed with {} by {} to {} bytes (ratio {:.1})", plain.len(), COMPRT_PATTERNS[pattern], cname, if encoder == 0 { "the driver's compress_append" } else { "cqlref" }, compressed.len(), plain.len() as f64 / compressed.len().max(1) as f64);
    // reference side: the stream is valid (cqlref's own decoder reproduces the body)
    if p::cql_decompress(frames::comp_from(comp), &compressed).ok().as_deref() != Some(&plain[..]) {
        return Err(("comprt:reference-rejects-stream".into(), format!("cqlref's decoder does not reproduce {what}")));
    }
    match decompress(&compressed, compression) {
        Err(e) => return Err((format!("comprt:valid-frame-refused:{cname}"), format!("decompress() refuses a valid body: {e}; {what}"))),
        Ok(b) if b != plain => return Err((format!("comprt:body-differs:{cname}"), format!("decompress() returns a different body; {what}"))),
        Ok(_) => {}
    }
    // the whole path: frame reader -> extensions (decompression) -> AUTH_SUCCESS body
    let frame = frames::plain_frame(p::opcode::AUTH_SUCCESS, p::FLAG_COMPRESSION, 5, &compressed);
    let mut rd: &[u8] = &frame;
    let (params, opcode, body) = match decode::block_on(read_response_frame(&mut rd)) {
        Some(Ok(x)) => x,
        other => return Err(("comprt:frame-read-failed".into(), format!("{:?}; {what}", other.map(|r| r.map(|_| ()).map_err(|e| e.to_string()))))),
    };
    let ext = parse_response_body_extensions(params.flags, Some(compression), body).map_err(|e| (format!("comprt:valid-frame-refused:{cname}"), format!("parse_response_body_extensions refuses a valid frame: {e}; {what}")))?;
    if ext.body[..] != plain[..] {
        return Err((format!("comprt:body-differs:{cname}"), format!("inflated body differs; {what}")));
    }
    match ResponseV2::deserialize(&decode::features_of(0), opcode, ext.body, None) {
        Ok(ResponseV2::AuthSuccess(a)) if a.success_message.as_deref() == Some(&content[..]) => Ok(()),
        Ok(_) => Err((format!("comprt:body-differs:{cname}"), format!("decoded AUTH_SUCCESS token differs; {what}"))),
        Err(e) => Err((format!("comprt:valid-frame-refused:{cname}"), format!("AUTH_SUCCESS refused: {e}; {what}"))),
    }
}

fn comprt_sizes(thorough: bool) -> Vec<usize> {
    let mut v = BTreeSet::new();
    for e in 0..=(if thorough { 24 } else { 22 }) {
        let p2 = 1usize << e;
        v.insert(p2 - 1);
        v.insert(p2);
        v.insert(p2 + 1);
    }
    v.extend([65_535usize * 3, 100_000, 1_000_000]);
    v.into_iter().collect()
}

fn comprt_child() -> ! {
    use std::io::Read;
    vcore::sandbox::limit_address_space(2 << 30);
    vcore::quiet_panics();
    let mut input = String::new();
    std::io::stdin().read_to_string(&mut input).expect("stdin");
    for (idx, line) in input.lines().enumerate() {
        let n: Vec<usize> = line.split_whitespace().filter_map(|x| x.parse().ok()).collect();
        if n.len() < 4 {
            continue;
        }
        raw_write(&format!("I {idx}\n"));
        match std::panic::catch_unwind(|| comprt_case(n[0] as u8, n[1] as u8, n[2], n[3])) {
            Ok(Ok(())) => raw_write(&format!("K {idx}\n")),
            Ok(Err((key, text))) => raw_write(&format!("V {idx} {key} | {}\n", text.replace('\n', " "))),
            Err(_) => raw_write(&format!("V {idx} comprt:panic | panicked at {}\n", vcore::last_panic_location())),
        }
    }
    std::process::exit(0)
}

/// one child per (pattern, compression): every size x both encoders
fn run_comprt(r: &Report, pattern: usize, comp: u8, thorough: bool) {
    let mut cases: Vec<[usize; 4]> = Vec::new();
    for size in comprt_sizes(thorough) {
        for enc in 0..2usize {
            cases.push([comp as usize, enc, pattern, size]);
        }
    }
    let input: String = cases.iter().map(|c| format!("{} {} {} {}\n", c[0], c[1], c[2], c[3])).collect();
    let cr = vcore::sandbox::run_self(&["--comprt-child"], input.as_bytes(), Duration::from_secs(1800));
    let text = String::from_utf8_lossy(&cr.stdout);
    let case_json = |i: usize| json!({"leg": "comprt", "comp": cases[i][0], "encoder": cases[i][1], "pattern": cases[i][2], "size": cases[i][3]});
    let mut done = vec![false; cases.len()];
    let mut started = None;
    for line in text.lines() {
        let mut it = line.splitn(3, ' ');
        match (it.next(), it.next().and_then(|x| x.parse::<usize>().ok())) {
            (Some("I"), Some(i)) => started = Some(i),
            (Some("K"), Some(i)) if i < cases.len() => {
                done[i] = true;
                r.eval(1);
                r.nontrivial(1);
                r.counters.add("cases_comprt", 1);
                r.counters.add("compressed_valid_frames_decoded_identically", 1);
            }
            (Some("V"), Some(i)) if i < cases.len() => {
                done[i] = true;
                r.eval(1);
                r.counters.add("cases_comprt", 1);
                let rest = it.next().unwrap_or("");
                let (key, what) = rest.split_once(" | ").unwrap_or((rest, ""));
                if key == "comprt:reference-rejects-stream" {
                    vcore::machinery_error(what);
                }
                r.violation(key, what, case_json(i));
            }
            _ => {}
        }
    }
    if cr.timed_out {
        vcore::machinery_error("compression round-trip child hit its wall-clock backstop");
    }
    if done.iter().any(|d| !d) {
        let i = started.unwrap_or(0).min(cases.len() - 1);
        r.eval(1);
        r.violation("abort:comprt", &format!("decoder process died on case {:?}: exit {:?} signal {:?} {}", cases[i], cr.exit_code, cr.signal, cr.stderr_tail.replace('\n', " ")), case_json(i));
    }
}

// ---------------------------------------------------------------------------------------------
// main
// ---------------------------------------------------------------------------------------------

fn self_test() {
    // the response encoder against a frame laid out by hand from the spec (RESULT Rows, global spec, one int column, one row)
    let r = Response::Result(ResultBody::Rows(resp::Rows {
        meta: RowsMeta { global: Some(("ks".into(), "t".into())), paging_state: None, no_metadata: false, new_metadata_id: None, cols: vec![resp::ColSpec { ks: "ks".into(), table: "t".into(), name: "a".into(), ty: resp::Ty::Native(resp::native::INT) }] },
        rows: vec![vec![Some(vec![0, 0, 0, 7])]],
    }));
    let w = resp::encode_ext_body(&Ext::default(), &r, false);
    let want: Vec<u8> = [&[0, 0, 0, 2][..], &[0, 0, 0, 1], &[0, 0, 0, 1], &[0, 2], b"ks", &[0, 1], b"t", &[0, 1], b"a", &[0, 9], &[0, 0, 0, 1], &[0, 0, 0, 4], &[0, 0, 0, 7]].concat();
    if w.buf != want {
        vcore::machinery_error("cqlref::proto::resp fails its hand-written Rows vector");
    }
    // ERROR Unavailable by hand
    let e = Response::Error(resp::ErrorBody { code: 0x1000, message: "x".into(), extra: resp::ErrExtra::Unavailable { cl: 4, required: 3, alive: 1 } });
    let w = resp::encode_ext_body(&Ext::default(), &e, false);
    if w.buf != [0, 0, 0x10, 0, 0, 1, b'x', 0, 4, 0, 0, 0, 3, 0, 0, 0, 1] {
        vcore::machinery_error("cqlref::proto::resp fails its hand-written ERROR vector");
    }
    // own compressors against own and production-grade decompressors
    let data = b"abcabcabcabcabcabcabcabc-0123456789-abcabcabcabc".repeat(9);
    for m in [false, true] {
        let l = p::lz4_block_compress(&data, m);
        if p::lz4_block_decompress(&l, data.len()).ok().as_deref() != Some(&data[..]) || lz4_flex::decompress(&l, data.len()).ok().as_deref() != Some(&data[..]) {
            vcore::machinery_error("cqlref lz4 encoder output is not a valid block");
        }
        let s = p::snappy_compress(&data, m);
        if p::snappy_decompress(&s).ok().as_deref() != Some(&data[..]) || snap::raw::Decoder::new().decompress_vec(&s).ok().as_deref() != Some(&data[..]) {
            vcore::machinery_error("cqlref snappy encoder output is not a valid stream");
        }
    }
}

fn main() {
    let argv: Vec<String> = std::env::args().collect();
    if argv.iter().any(|a| a == "--child") {
        child_main(argv.iter().any(|a| a == "--verbose"));
    }
    if argv.iter().any(|a| a == "--stream-child") {
        stream_child();
    }
    if argv.iter().any(|a| a == "--comprt-child") {
        comprt_child();
    }
    vcore::quiet_panics();
    let r = Report::new("C08", "enum", "exploration", "E-ENUM");
    let oracle = Oracle { r: &r, runner: Runner { spawned: AtomicU64::new(0), crashes: AtomicU64::new(0), wall_backstop_hits: AtomicU64::new(0) }, outcome_classes: Mutex::new(BTreeSet::new()), max_legit_single: AtomicU64::new(0), max_legit_peak: AtomicU64::new(0), max_legit_ratio_x1000: AtomicU64::new(0), unreproduced: AtomicU64::new(0), pinned: Mutex::new(BTreeSet::new()) };
    if let Some(case) = r.replay_case() {
        if case["leg"] == "comprt" {
            let g = |k: &str| case[k].as_u64().unwrap_or(0) as usize;
            match comprt_case(g("comp") as u8, g("encoder") as u8, g("pattern"), g("size")) {
                Ok(()) => {}
                Err((key, what)) => r.violation(&key, &what, case.clone()),
            }
            drop(oracle);
            r.finish_replay();
        }
        if case["leg"] == "stream" {
            let sizes: Vec<usize> = case["sizes"].as_array().map(|a| a.iter().filter_map(|x| x.as_u64()).map(|x| x as usize).collect()).unwrap_or_default();
            run_stream_cases(&r, &[(sizes, case["chunk"].as_u64().unwrap_or(0) as usize)]);
            drop(oracle);
            r.finish_replay();
        }
        let c = Case::from_json(&case);
        let outs = oracle.runner.run(&[&c], true);
        let o = outs.into_iter().next().unwrap_or_default();
        println!("REPLAY outcome: status={} stage={} max_single={} peak={} oversize={:?} {}", o.status, decode::stage_name(o.stage), o.max_single, o.peak, o.oversize, o.detail);
        if let Some(d) = &o.dump {
            println!("decoded:\n{d}");
        }
        oracle.judge(&c, o, true);
        drop(oracle);
        r.finish_replay();
    }
    self_test();
    let thorough = r.tier().is_thorough();
    let jobs = r.args.jobs;
    let batch = 1500usize;
    let corpus = frames::corpus();
    let exts = frames::ext_alphabet();
    r.note("corpus_items", json!(corpus.len()));
    let kinds: BTreeSet<&str> = corpus.iter().map(|i| i.resp.kind_name()).collect();
    r.note("corpus_response_kinds", json!(kinds));
    let all_feats: Vec<u8> = (0..16).collect();
    let quick_feats: Vec<u8> = vec![0, FEAT_MID, FEAT_RATE, FEAT_MID | FEAT_RATE | FEAT_LWT | FEAT_TABLETS];
    let comps_all: Vec<(Comp, bool)> = vec![(Comp::None, false), (Comp::Lz4, true), (Comp::Lz4, false), (Comp::Snappy, true), (Comp::Snappy, false)];
    // one representative per response kind gets the full extension x compression treatment in the deviation rounds
    let mut reps: BTreeMap<&str, usize> = BTreeMap::new();
    for (i, it) in corpus.iter().enumerate() {
        reps.entry(it.resp.kind_name()).or_insert(i);
    }
    let rep_idx: BTreeSet<usize> = reps.values().copied().collect();

    // work units: (corpus index, what)
    #[derive(Clone, Copy)]
    enum Unit {
        Well(usize),
        WellPairs(usize),
        Dev(usize),
        DevExt(usize),
        CompStream(usize),
        Nest,
        BadClass,
        Random(u64),
        Stream,
        ClassFuzz(usize, Option<usize>),
        StreamHuge,
        CompRt(usize),
        VectorNest,
        TableSpec,
    }
    let mut units: Vec<Unit> = Vec::new();
    for i in 0..corpus.len() {
        units.push(Unit::Well(i));
    }
    for k in 0..16 {
        units.push(Unit::WellPairs(k));
    }
    for i in 0..corpus.len() {
        units.push(Unit::Dev(i));
    }
    for &i in &rep_idx {
        units.push(Unit::DevExt(i));
        units.push(Unit::CompStream(i));
    }
    if thorough {
        for i in (0..corpus.len()).step_by(7) {
            if !rep_idx.contains(&i) {
                units.push(Unit::CompStream(i));
            }
        }
    }
    units.insert(0, Unit::TableSpec); // sequential, one child per case: started first so that it overlaps with everything else
    units.push(Unit::VectorNest);
    units.push(Unit::Stream);
    units.insert(1, Unit::StreamHuge);
    for k in 0..COMPRT_PATTERNS.len() * 2 {
        units.insert(2, Unit::CompRt(k));
    }
    for t in 0..frames::class_templates().len() {
        if thorough {
            for f in 0..frames::CLASS_SYMBOLS.len() {
                units.push(Unit::ClassFuzz(t, Some(f)));
            }
        } else {
            units.push(Unit::ClassFuzz(t, None));
        }
    }
    units.push(Unit::Nest);
    units.push(Unit::BadClass);
    let n_random = if thorough { 20_000_000 } else { 100_000 };
    for k in 0..(n_random / 10_000) {
        units.push(Unit::Random(k as u64));
    }
    if let Some(only) = r.args.extra_value("--only") {
        let only = only.to_string();
        units.retain(|u| match u {
            Unit::Well(_) => only == "well",
            Unit::WellPairs(_) => only == "wellpairs",
            Unit::Dev(_) => only == "dev",
            Unit::DevExt(_) => only == "devext",
            Unit::CompStream(_) => only == "compstream",
            Unit::Nest => only == "nest",
            Unit::BadClass => only == "badclass",
            Unit::Random(_) => only == "random",
            Unit::Stream => only == "stream",
            Unit::StreamHuge => only == "streamhuge",
            Unit::CompRt(_) => only == "comprt",
            Unit::ClassFuzz(..) => only == "classfuzz",
            Unit::VectorNest => only == "vectornest",
            Unit::TableSpec => only == "tablespec",
        });
    }
    let oref = &oracle;
    let corpus_ref = &corpus;
    let exts_ref = &exts;
    let seed = r.args.seed;
    vcore::par::for_each(jobs, 1, units.into_iter(), |u| {
        let mut cases: Vec<Case> = Vec::new();
        let t_unit = std::time::Instant::now();
        let uname = match u {
            Unit::Well(_) => "well",
            Unit::WellPairs(_) => "wellpairs",
            Unit::Dev(_) => "dev",
            Unit::DevExt(_) => "devext",
            Unit::CompStream(_) => "compstream",
            Unit::Nest => "nest",
            Unit::BadClass => "badclass",
            Unit::Random(_) => "random",
            Unit::Stream => "stream",
            Unit::StreamHuge => "streamhuge",
            Unit::CompRt(_) => "comprt",
            Unit::ClassFuzz(..) => "classfuzz",
            Unit::VectorNest => "vectornest",
            Unit::TableSpec => "tablespec",
        };
        match u {
            Unit::Well(i) => {
                let item = &corpus_ref[i];
                let feats = if thorough { &all_feats } else { &quick_feats };
                // full extension x compression product for the representatives (and everything in thorough); others: no ext x all comps + all ext x no comp
                if thorough || rep_idx.contains(&i) {
                    wellformed_cases(item, exts_ref, feats, &comps_all, true, 5, &mut cases);
                } else {
                    wellformed_cases(item, &exts_ref[..1], feats, &comps_all, true, 5, &mut cases);
                    wellformed_cases(item, &exts_ref[1..], &feats[..1.max(feats.len().min(2))], &comps_all[..1], false, 0, &mut cases);
                }
            }
            Unit::Dev(i) => {
                let item = &corpus_ref[i];
                let feat = item.needs;
                let level = if thorough { 2 } else { 1 };
                deviation_cases(item, &exts_ref[0], feat, Comp::None, level, false, None, &mut cases);
                cell_content_cases(item, feat, thorough, &mut cases);
                cell_truncation_cases(item, feat, &mut cases);
                // a no_metadata result decoded with the cached metadata of its twin: rows content is then typed
                if let Some((twin, _)) = cached_twin(item) {
                    deviation_cases(item, &exts_ref[0], feat, Comp::None, if thorough { 1 } else { 0 }, true, Some(twin), &mut cases);
                }
                // the same single deviations decoded with every other feature negotiated and typed targets on
                if thorough {
                    for f in [FEAT_MID, FEAT_RATE, FEAT_MID | FEAT_RATE, 0x0f, FEAT_LWT | FEAT_TABLETS] {
                        if f != feat {
                            deviation_cases(item, &exts_ref[0], f, Comp::None, 0, true, None, &mut cases);
                        }
                    }
                } else if i % 2 == 0 {
                    deviation_cases(item, &exts_ref[0], 0x0f & !item.breaks_under, Comp::None, 0, true, None, &mut cases);
                }
                if thorough {
                    deviation_cases(item, &exts_ref[7], feat, Comp::None, 2, false, None, &mut cases);
                }
            }
            Unit::DevExt(i) => {
                let item = &corpus_ref[i];
                // extension regions and compressed carriers
                for e in [&exts_ref[7], &exts_ref[9]] {
                    deviation_cases(item, e, item.needs, Comp::None, if thorough { 2 } else { 1 }, false, None, &mut cases);
                }
                deviation_cases(item, &exts_ref[2], item.needs, Comp::Lz4, 0, false, None, &mut cases);
                deviation_cases(item, &exts_ref[4], item.needs, Comp::Snappy, 0, false, None, &mut cases);
            }
            Unit::WellPairs(k) => {
                // two-column rows over all ordered pairs of the type alphabet (slice k of 16), typed targets on
                let types = frames::type_alphabet();
                let n = types.len();
                for a in (k..n).step_by(16) {
                    for b in 0..n {
                        if !thorough && (a + b) % 3 != 0 {
                            continue;
                        }
                        let item = frames::two_column_item(&types[a], &types[b], a, b);
                        wellformed_cases(&item, &exts_ref[..1], &[0], &[(Comp::None, false), (Comp::Lz4, true)], true, 0, &mut cases);
                    }
                }
            }
            Unit::CompStream(i) => comp_stream_cases(&corpus_ref[i], corpus_ref[i].needs, &mut cases),
            Unit::Nest => nest_cases(thorough, &mut cases),
            Unit::BadClass => badclass_cases(&mut cases),
            Unit::Random(k) => random_cases(seed.wrapping_mul(1000).wrapping_add(k), 10_000, &mut cases),
            Unit::Stream => run_stream_cases(oref.r, &stream_cases(thorough)),
            Unit::CompRt(k) => run_comprt(oref.r, k / 2, (k % 2 + 1) as u8, thorough),
            Unit::StreamHuge => {
                // one frame above 256 MiB followed by a small one, in a child of its own (no allocation cap there: the stream
                // children only compare what comes back); both frames must come back exactly, or the first be refused
                let t = std::time::Instant::now();
                run_stream_cases(oref.r, &[(vec![(256 << 20) + 16, 9], 0)]);
                if thorough {
                    run_stream_cases(oref.r, &[(vec![(256 << 20) + 16, 40000, 9], 65_537)]);
                }
                oref.r.note("stream_huge_frame_wall_ms", json!(t.elapsed().as_millis() as u64));
            }
            Unit::ClassFuzz(t, f) => classfuzz_cases(t, if thorough { 6 } else { 4 }, f, &mut cases),
            Unit::VectorNest => vector_nest_cases(&mut cases),
            Unit::TableSpec => table_spec_cases(thorough, &mut cases),
        }
        // nests are megabytes each: small batches
        let b = if matches!(u, Unit::Nest) { 8 } else if matches!(u, Unit::TableSpec) { 1 } else { batch };
        let t_gen = t_unit.elapsed().as_millis() as u64;
        oref.run_and_judge(cases, b);
        oref.r.counters.add(&format!("cpu_ms_generate_{uname}"), t_gen);
        oref.r.counters.add(&format!("cpu_ms_total_{uname}"), t_unit.elapsed().as_millis() as u64);
    });

    r.counters.add("child_processes_spawned", oracle.runner.spawned.load(Ordering::Relaxed));
    r.counters.add("child_processes_died", oracle.runner.crashes.load(Ordering::Relaxed));
    let classes = oracle.outcome_classes.lock().unwrap().clone();
    r.counters.add("distinct_(status,stage,class)_outcomes", classes.len() as u64);
    r.note("largest_single_request_in_a_well_formed_decode_bytes", json!(oracle.max_legit_single.load(Ordering::Relaxed)));
    r.note("largest_peak_in_a_well_formed_decode_bytes", json!(oracle.max_legit_peak.load(Ordering::Relaxed)));
    r.note("largest_fraction_of_the_cap_used_by_a_well_formed_decode", json!(oracle.max_legit_ratio_x1000.load(Ordering::Relaxed) as f64 / 1000.0));
    r.note("allocation_cap", json!("64 KiB + 256 x frame length; single request and peak live bytes above the pre-decode level"));
    let unrep = oracle.unreproduced.load(Ordering::Relaxed);
    if oracle.runner.wall_backstop_hits.load(Ordering::Relaxed) > 0 {
        vcore::machinery_error("a child process hit the wall-clock backstop without consuming its CPU budget (machine overloaded or blocked child): no verdict");
    }
    if classes.len() < 8 && r.args.extra_value("--only").is_none() {
        vcore::machinery_error("vacuity: fewer than 8 distinct (status, stage, class) outcomes");
    }
    drop(oracle);
    if unrep > 0 && r.args.extra_value("--only").is_none() {
        vcore::machinery_error(&format!("{unrep} fatal outcomes did not reproduce when the case was re-run alone"));
    }
    r.set_rule("E-ENUM with deviation bounding. 0 deviations: corpus of well-formed frames of every response kind (ERROR all 19 codes with extras, READY, AUTHENTICATE, SUPPORTED, RESULT void/rows/set_keyspace/prepared/schema_change, EVENT all kinds, AUTH_CHALLENGE/SUCCESS; rows over a depth-2 type alphabet incl. class-string forms and vectors, every metadata flag combination, 0..2 rows, cached-metadata twin for no_metadata) x extension subsets x {none, LZ4, Snappy} x {matches, literal-only} x feature combinations (quick: 4; thorough: all 16), decoded through read_response_frame -> parse_response_body_extensions -> ResponseV2::deserialize (+ legacy Response for events) -> deserialize_metadata -> rows as raw cells, as Row/CqlValue and as every typed tuple of the target alphabet that passes type_check; decoded text must equal the text derived from the cqlref model. 1 deviation: every stream truncation, every body truncation with consistent header, every length/count/flag/id field x {0,1,-1,-2,+1,-1,0x7fff,0xffff,i32::MAX,i32::MIN, bit flips, all type ids / result kinds / opcodes / error codes}, header fields, every consistently shortened cell value (each prefix of each cell, length prefix adjusted), the iterator API of ListlikeIterator / MapIterator / VectorIterator / UdtIterator targets (nth(k) for k in 0..=len+2 after 0..3 next() calls, size_hint, last, count, skip, step_by on a fresh iterator each) whenever typed targets are on, every offset of the rows content x boundary 4-byte / 8-byte / 1-byte values (counts and lengths inside cell values, extreme scalars; typed targets on), damaged compressed streams (every cut, every byte x 4 values, announced length), bad class strings, class-string grammar holes (UDT keyspace / hex type name / hex field names / nested parameters / hex prefix / identifiers / vector dimension: 15 templates x every string of length 0..4 (thorough 0..6) over {hex digits, non-hex ASCII, '_', '.', 2-/3-/4-byte UTF-8 alphanumerics} + invalid UTF-8), nested fixed-size vectors (6 leaf types x depth 1..8 x dimension {0,1,2,255,65535,65536,2^31-1}, cells null/empty/short/long, typed targets), metadata of {1,100,10000,30000} columns x keyspace/table names of {1,255,4096,65535} bytes x global / per-column table spec in Rows and Prepared, type nesting 1e2..1e6 (binary) and 4..7000 (class strings). 2 deviations: field pairs (quick: same region or adjacent, reduced value alphabet; thorough: every pair of fields of the frame, full alphabet) and field mutation + body truncation (quick: right after the field / right before the end; thorough: every cut after the field); thorough also repeats the single deviations under 6 feature sets with typed targets. Two-column rows over ordered pairs of the type alphabet (quick: a third; thorough: all). Stream level: sequences of 1-3 well-formed frames back to back in one reader, first-frame body sizes {0,1,9,8191,8192,32767,32768,32769,40000,49152,65535,65536,65537,100000,131073,300001}, reader handing out {everything, 1, 7, 4096, 65537} bytes per poll with Pending in between, decoded by repeated read_response_frame: every (params, opcode, body) equals what was encoded, in order, the reader is exhausted exactly at the end and one more read is an error; plus one frame of 256 MiB + 16 bytes followed by small frames, in a child of its own without allocation cap (~0.6 GB for about a second): both come back exactly or the big one is refused - never a truncated body followed by frames nobody sent. Compression round trip: AUTH_SUCCESS frames whose token is all-zero / 2-byte / 7-byte / 40-byte-row / 1000-byte-block repetition or random, sizes 2^e-1, 2^e, 2^e+1 up to 4 MiB (thorough 16 MiB), compressed with LZ4 and Snappy by the driver's own compress_append and by cqlref's encoders: decompress(), the frame path and the decoded token must reproduce the content exactly (valid frames are decoded, not refused). Sampled (labelled): random bodies behind valid headers. Oracle per case in a child process: no panic/abort/signal/stack overflow (2 MiB thread)/more than 4 s of CPU time for one decode; largest single request and peak live bytes above the pre-decode level <= 64 KiB + 256 x frame length (x decompressed body length once a compressed body has been inflated) by a counting allocator that reports before the request is served and refuses > 64 MiB. distinct_nontrivial = round trips that matched + deviations rejected with a clean error.");
    r.set_exhaustive(true);
    r.assume("row iteration is consumer-driven: the harness pulls at most 4096 rows per iterator and stops at the first error; every step is checked");
    r.assume("the decode runs on a 2 MiB thread (tokio worker default), RLIMIT_AS 2 GiB protects the checker only; verdicts come from the counting allocator");
    r.assume("random bodies are a sampled dimension; no coverage claim rests on them");
    r.sample(json!({"class":"field","site":"rows.meta.col_count","meaning":"RESULT/Rows with columns_count replaced by i32::MAX"}));
    r.sample(json!({"class":"nest","site":"nest/list","meaning":"column type list<list<...<int>>> 100000 deep"}));
    r.finish();
}
