//! C16 - derived row/UDT mappings bind fields by name regardless of database order.
//! Engine E-ENUM. For every struct of the fixed family (h_cql::c16_family) and every derive it carries:
//!   database shapes = every subset of the struct's fields missing x every permutation of the rest
//!                     x {no extra, one extra at every position, two extras at every position pair}
//!                     + one field retyped + (renamed structs) the Rust name offered instead of the database name
//!   serialization   : x value rows x every null pattern of the Option fields
//!   deserialization : x value rows x null patterns of the database cells (thorough: every pattern of the first 8
//!                     cells; quick: <=2 nulls or all null), + (UDT) every truncation point
//! Oracle: cqlref::binder (written from the macro documentation): verdict MustAccept / MustReject /
//! Either / Unspecified, expected cell per database position, expected value per struct field.
//! Round trip: real serializer output fed to the real deserializer of the same struct.
use bytes::Bytes;
use cqlref::binder::{self as rb, Cell, DbField, Kind, Target, Val, Verdict};
use h_cql::c16_drive::*;
use scylla_cql::frame::response::result::{ColumnSpec, ColumnType};
use serde_json::{Value, json};
use vcore::Report;

#[derive(Clone, Copy, PartialEq, Eq, Debug)]
enum Op {
    SerValue,
    DeValue,
    SerRow,
    DeRow,
}

impl Op {
    fn name(self) -> &'static str {
        match self {
            Op::SerValue => "ser-value",
            Op::DeValue => "de-value",
            Op::SerRow => "ser-row",
            Op::DeRow => "de-row",
        }
    }
    fn from_name(s: &str) -> Option<Op> {
        [Op::SerValue, Op::DeValue, Op::SerRow, Op::DeRow].into_iter().find(|o| o.name() == s)
    }
    fn target(self) -> Target {
        match self {
            Op::SerValue | Op::DeValue => Target::Udt,
            Op::SerRow | Op::DeRow => Target::Row,
        }
    }
    fn is_ser(self) -> bool {
        matches!(self, Op::SerValue | Op::SerRow)
    }
}

fn ops_of(e: &Entry) -> Vec<Op> {
    let mut v = Vec::new();
    if e.ser_value.is_some() {
        v.push(Op::SerValue);
    }
    if e.de_value.is_some() {
        v.push(Op::DeValue);
    }
    if e.ser_row.is_some() {
        v.push(Op::SerRow);
    }
    if e.de_row.is_some() {
        v.push(Op::DeRow);
    }
    v
}

// ---------------------------------------------------------------------------------------------
// alphabets
// ---------------------------------------------------------------------------------------------
fn alphabet(kind: Kind) -> Vec<Val> {
    // non-default values first: row 0 never contains a value equal to Default::default()
    match kind {
        Kind::Int => vec![Val::Int(7), Val::Int(-1), Val::Int(i32::MIN), Val::Int(0)],
        Kind::Text => vec![Val::Text("s".into()), Val::Text("h\u{e9}llo w\u{f6}rld".into()), Val::Text("x".repeat(300)), Val::Text(String::new())],
        Kind::Boolean => vec![Val::Boolean(true), Val::Boolean(false)],
        Kind::BigInt => vec![Val::BigInt(9), Val::BigInt(-1), Val::BigInt(i64::MAX), Val::BigInt(0)],
        Kind::Double => vec![Val::Double(1.5f64.to_bits()), Val::Double((-0.0f64).to_bits()), Val::Double(f64::NAN.to_bits()), Val::Double(0)],
        Kind::Udt => unreachable!("nested values come from pick_leaf / pick_cell"),
        Kind::ListInt => vec![Val::ListInt(vec![1, 2]), Val::ListInt(vec![-1]), Val::ListInt(vec![i32::MAX, 0, i32::MIN]), Val::ListInt(vec![])],
    }
}

/// value for "thing number `id`" of `kind` in value row `row` (same-kind neighbours get different values)
fn pick(kind: Kind, id: usize, row: usize) -> Val {
    let a = alphabet(kind);
    a[(row + id) % a.len()].clone()
}

/// struct-side value of a leaf (nested struct: every leaf of the nested model, skipped ones included)
fn pick_leaf(l: &rb::Leaf, id: usize, row: usize) -> Val {
    match &l.nested {
        Some(nm) => Val::Udt(nm.leaves.iter().enumerate().map(|(i, il)| pick_leaf(il, id + i + 1, row)).collect()),
        None => pick(l.kind, id, row),
    }
}

/// database-side content of a field (nested UDT: one cell per nested field)
fn pick_cell(f: &DbField, row: usize) -> Cell {
    match f.kind {
        Kind::Udt => Cell::Udt(f.fields.iter().map(|g| pick_cell(g, row + 1)).collect()),
        k => Cell::Value(pick(k, name_id(&f.name), row)),
    }
}

/// the database field a leaf binds to when the database declares exactly what the struct declares
fn leaf_dbfield(l: &rb::Leaf) -> DbField {
    DbField {
        name: l.db_name.clone(),
        kind: l.kind,
        fields: l.nested.as_ref().map(|nm| nm.leaves.iter().filter(|x| !x.skip).map(leaf_dbfield).collect()).unwrap_or_default(),
    }
}

/// Further struct values: every non-empty null pattern of the Option fields of each nested struct value.
fn nested_ser_variants(m: &rb::Model, base: &[Val]) -> Vec<Vec<Val>> {
    let mut out = Vec::new();
    for (i, l) in m.leaves.iter().enumerate() {
        let (Some(nm), Val::Udt(inner)) = (&l.nested, &base[i]) else { continue };
        let optional: Vec<usize> = (0..nm.leaves.len()).filter(|k| nm.leaves[*k].optional).collect();
        let mut inner_variants: Vec<Vec<Val>> = Vec::new();
        for mask in 1..(1u32 << optional.len()) {
            let mut v = inner.clone();
            for (bit, &li) in optional.iter().enumerate() {
                if mask & (1 << bit) != 0 {
                    v[li] = Val::Null;
                }
            }
            inner_variants.push(v);
        }
        inner_variants.extend(nested_ser_variants(nm, inner));
        for v in inner_variants {
            let mut vals = base.to_vec();
            vals[i] = Val::Udt(v);
            out.push(vals);
        }
    }
    out
}

/// Further database contents: inside each nested UDT cell every null pattern and every truncation point.
fn nested_de_variants(db: &[DbField], base: &[Cell]) -> Vec<Vec<Cell>> {
    let mut out = Vec::new();
    for (j, f) in db.iter().enumerate() {
        let Cell::Udt(inner) = &base[j] else { continue };
        let mut inner_variants: Vec<Vec<Cell>> = Vec::new();
        let bits = inner.len().min(6);
        for mask in 1..(1u32 << bits) {
            let mut v = inner.clone();
            for k in 0..bits {
                if mask & (1 << k) != 0 {
                    v[k] = Cell::Null;
                }
            }
            inner_variants.push(v);
        }
        for cut in 0..inner.len() {
            let mut v = inner.clone();
            for c in v.iter_mut().skip(cut) {
                *c = Cell::Absent;
            }
            inner_variants.push(v);
        }
        inner_variants.extend(nested_de_variants(&f.fields, inner));
        for v in inner_variants {
            let mut cells = base.to_vec();
            cells[j] = Cell::Udt(v);
            out.push(cells);
        }
    }
    out
}

fn name_id(name: &str) -> usize {
    name.bytes().map(|b| b as usize).sum()
}

// ---------------------------------------------------------------------------------------------
// database shapes
// ---------------------------------------------------------------------------------------------
fn permutations(n: usize) -> Vec<Vec<usize>> {
    fn rec(n: usize, cur: &mut Vec<usize>, used: &mut Vec<bool>, out: &mut Vec<Vec<usize>>) {
        if cur.len() == n {
            out.push(cur.clone());
            return;
        }
        for i in 0..n {
            if !used[i] {
                used[i] = true;
                cur.push(i);
                rec(n, cur, used, out);
                cur.pop();
                used[i] = false;
            }
        }
    }
    let mut out = Vec::new();
    rec(n, &mut Vec::new(), &mut vec![false; n], &mut out);
    out
}

struct ShapeBounds {
    /// two extras are inserted into bases that miss at most this many fields
    two_extras_max_missing: usize,
    /// one extra is inserted into bases that miss at most this many fields
    one_extra_max_missing: usize,
    /// two extras in both relative orders (x1 before x2 and x2 before x1)
    two_extras_both_orders: bool,
    /// SerializeRow structs: every field name (not only the first) offered a second time at every position,
    /// and a third time / two different names twice at every position pair (a named bind marker may repeat)
    repeat_every_field: bool,
    /// retype variants on every permutation (else identity + reverse only)
    retype_all_perms: bool,
}

/// All database shapes for a struct whose active (non-skip) leaves are `fields` (declared order).
/// Simplest first: nothing missing, declared order, no extras.
fn shapes(e: &Entry, b: &ShapeBounds) -> Vec<Vec<DbField>> {
    shapes_model(&e.model, b)
}

fn shapes_model(m: &rb::Model, b: &ShapeBounds) -> Vec<Vec<DbField>> {
    let fields: Vec<DbField> = m.leaves.iter().filter(|l| !l.skip).map(leaf_dbfield).collect();
    let n = fields.len();
    // extra candidates for the one-extra dimension
    let mut extras1: Vec<DbField> = vec![DbField::leaf("x1", fields.first().map(|f| f.kind).filter(|k| *k != Kind::Udt).unwrap_or(Kind::Int))];
    for l in &m.leaves {
        if l.skip {
            // a database field that carries the name of a skipped Rust field
            extras1.push(leaf_dbfield(l));
        } else if l.db_name != l.rust_name && !m.leaves.iter().any(|o| !o.skip && o.db_name == l.rust_name) {
            // the Rust name of a renamed field (must not be bound)
            extras1.push(DbField { name: l.rust_name.clone(), ..leaf_dbfield(l) });
        }
    }
    let x1 = extras1[0].clone();
    // names are case-sensitive: the first field's name in the other case must not be bound
    if let Some(f0) = fields.first() {
        let flipped: String = f0.name.chars().map(|c| if c.is_lowercase() { c.to_ascii_uppercase() } else { c.to_ascii_lowercase() }).collect();
        if flipped != f0.name && !m.leaves.iter().any(|l| l.db_name == flipped || l.rust_name == flipped) {
            extras1.push(DbField { name: flipped, ..f0.clone() });
        }
    }
    // a second database field carrying the name of the first declared field (documentation silent: no panic);
    // for SerializeRow structs every field (flattened and renamed ones included), see ShapeBounds
    for f in fields.iter().take(if b.repeat_every_field { fields.len() } else { 1 }) {
        extras1.push(f.clone());
    }
    let mut repeat_pairs: Vec<(DbField, DbField)> = Vec::new();
    if b.repeat_every_field {
        for (i, f) in fields.iter().enumerate() {
            repeat_pairs.push((f.clone(), f.clone())); // the name three times
            repeat_pairs.push((f.clone(), fields[(i + 1) % fields.len()].clone())); // two names twice
        }
    }
    let x2 = DbField::leaf("x2", fields.last().map(|f| f.kind).filter(|k| *k != Kind::Udt).unwrap_or(Kind::Text));
    let mut out: Vec<Vec<DbField>> = Vec::new();
    let mut seen = std::collections::HashSet::new();
    let mut push = |s: Vec<DbField>, out: &mut Vec<Vec<DbField>>| {
        if seen.insert(s.clone()) {
            out.push(s);
        }
    };
    // subsets by number of missing fields
    let mut masks: Vec<u32> = (0..(1u32 << n)).collect();
    masks.sort_by_key(|mk| (n as u32 - mk.count_ones(), *mk));
    let perms_by_len: Vec<Vec<Vec<usize>>> = (0..=n).map(permutations).collect();
    for pass in 0..3 {
        // pass 0: bases, pass 1: one extra, pass 2: two extras (keeps "simplest first")
        for &mask in &masks {
            let kept: Vec<&DbField> = (0..n).filter(|i| mask & (1 << i) != 0).map(|i| &fields[i]).collect();
            let missing = n - kept.len();
            for perm in &perms_by_len[kept.len()] {
                let base: Vec<DbField> = perm.iter().map(|&i| kept[i].clone()).collect();
                match pass {
                    0 => push(base, &mut out),
                    1 if missing <= b.one_extra_max_missing => {
                        for x in &extras1 {
                            for p in 0..=base.len() {
                                let mut s = base.clone();
                                s.insert(p, x.clone());
                                push(s, &mut out);
                            }
                        }
                    }
                    2 if missing == 0 && !repeat_pairs.is_empty() && (b.retype_all_perms || perm.iter().enumerate().all(|(k, &i)| i == k) || perm.iter().enumerate().all(|(k, &i)| i == kept.len() - 1 - k)) => {
                        // repeated names (every permutation for small structs, declared + reversed order otherwise)
                        for (first, second) in &repeat_pairs {
                            for p in 0..=base.len() {
                                for q in p..=base.len() {
                                    let mut s = base.clone();
                                    s.insert(q, second.clone());
                                    s.insert(p, first.clone());
                                    push(s, &mut out);
                                }
                            }
                        }
                        if missing <= b.two_extras_max_missing {
                            for p in 0..=base.len() {
                                for q in p..=base.len() {
                                    for (k, (first, second)) in [(&x1, &x2), (&x2, &x1)].into_iter().enumerate() {
                                        if k == 1 && !b.two_extras_both_orders {
                                            continue;
                                        }
                                        let mut s = base.clone();
                                        s.insert(q, second.clone());
                                        s.insert(p, first.clone());
                                        push(s, &mut out);
                                    }
                                }
                            }
                        }
                    }
                    2 if missing <= b.two_extras_max_missing => {
                        for p in 0..=base.len() {
                            for q in p..=base.len() {
                                // x1 before x2 and x2 before x1
                                for (k, (first, second)) in [(&x1, &x2), (&x2, &x1)].into_iter().enumerate() {
                                    if k == 1 && !b.two_extras_both_orders {
                                        continue;
                                    }
                                    let mut s = base.clone();
                                    s.insert(q, second.clone());
                                    s.insert(p, first.clone());
                                    push(s, &mut out);
                                }
                            }
                        }
                    }
                    _ => {}
                }
            }
        }
    }
    // one field retyped (full set)
    let all_perms = &perms_by_len[n];
    for (pi, perm) in all_perms.iter().enumerate() {
        if !b.retype_all_perms && pi != 0 && pi != all_perms.len() - 1 {
            continue;
        }
        for pos in 0..n {
            let mut s: Vec<DbField> = perm.iter().map(|&i| fields[i].clone()).collect();
            let k = s[pos].kind;
            s[pos].kind = match Kind::ALL.iter().position(|x| *x == k) {
                Some(ki) => Kind::ALL[(ki + 1) % Kind::ALL.len()],
                None => Kind::Int, // nested UDT offered as int
            };
            s[pos].fields.clear();
            push(s, &mut out);
        }
    }
    // nested UDTs: every shape of the nested field list, under the declared and the reversed outer order
    for (pos, f) in fields.iter().enumerate() {
        let Some(l) = m.leaves.iter().filter(|l| !l.skip).nth(pos) else { continue };
        let Some(nm) = &l.nested else { continue };
        let _ = f;
        for inner in shapes_model(nm, b) {
            for reversed in [false, true] {
                let mut s = fields.clone();
                s[pos].fields = inner.clone();
                if reversed {
                    s.reverse();
                }
                push(s, &mut out);
            }
        }
    }
    out
}

enum Prepared {
    Udt(ColumnType<'static>),
    Row(Vec<ColumnSpec<'static>>),
}

fn prepare(target: Target, db: &[DbField]) -> Prepared {
    match target {
        Target::Udt => Prepared::Udt(udt_type(db)),
        Target::Row => Prepared::Row(column_specs(db)),
    }
}

fn run_ser_op(e: &Entry, op: Op, p: &Prepared, vals: &[Val]) -> Out<Vec<u8>> {
    match (op, p) {
        (Op::SerValue, Prepared::Udt(t)) => (e.ser_value.unwrap())(vals, t),
        (Op::SerRow, Prepared::Row(s)) => (e.ser_row.unwrap())(vals, s),
        _ => unreachable!(),
    }
}

fn run_de_op(e: &Entry, op: Op, p: &Prepared, body: &Bytes) -> Out<Vec<Val>> {
    match (op, p) {
        (Op::DeValue, Prepared::Udt(t)) => (e.de_value.unwrap())(t, Some(body)),
        (Op::DeRow, Prepared::Row(s)) => (e.de_row.unwrap())(s, body),
        _ => unreachable!(),
    }
}

fn de_partner(e: &Entry, op: Op) -> Option<Op> {
    match op {
        Op::SerValue if e.de_value.is_some() => Some(Op::DeValue),
        Op::SerRow if e.de_row.is_some() => Some(Op::DeRow),
        _ => None,
    }
}

fn flavor_tag(e: &Entry) -> &'static str {
    match (e.model.flavor, e.model.skip_name_checks) {
        (rb::Flavor::ByName, _) => "by-name",
        (rb::Flavor::Ordered, false) => "ordered",
        (rb::Flavor::Ordered, true) => "ordered-nonames",
    }
}

fn verdict_tag(v: Verdict) -> &'static str {
    match v {
        Verdict::MustAccept => "must-accept",
        Verdict::MustReject => "must-reject",
        Verdict::Either => "either",
        Verdict::Unspecified => "unspecified",
    }
}

/// Violations are collected with the index of the work item that found them and handed to the report in
/// enumeration order afterwards, so the case kept per key is the simplest one on every run (threads race otherwise).
#[derive(Default)]
struct Sink {
    by_key: std::sync::Mutex<std::collections::BTreeMap<String, (usize, String, Value)>>,
}
impl Sink {
    fn drain_into(&self, r: &Report) {
        let mut v: Vec<(String, (usize, String, Value))> = std::mem::take(&mut *self.by_key.lock().unwrap()).into_iter().collect();
        v.sort_by_key(|(k, (idx, _, _))| (*idx, k.clone()));
        for (k, (_, what, case)) in v {
            r.violation(&k, &what, case);
        }
    }
}
struct Ctx<'a> {
    report: &'a Report,
    sink: &'a Sink,
    idx: usize,
}
impl Ctx<'_> {
    fn violation(&self, key: &str, what: impl FnOnce() -> String, case: &dyn Fn() -> Value) {
        let mut g = self.sink.by_key.lock().unwrap();
        match g.get(key) {
            Some((idx, _, _)) if *idx <= self.idx => {}
            _ => {
                g.insert(key.to_string(), (self.idx, what(), case()));
            }
        }
    }
}

/// Local tallies, flushed into the report once per work item (Counters takes a lock).
#[derive(Default)]
struct Tally {
    evals: u64,
    nontrivial: u64,
    map: std::collections::BTreeMap<String, u64>,
}
impl Tally {
    fn add(&mut self, k: String, n: u64) {
        *self.map.entry(k).or_insert(0) += n;
    }
    fn flush(self, r: &Report) {
        r.eval(self.evals);
        r.nontrivial(self.nontrivial);
        for (k, v) in self.map {
            r.counters.add(&k, v);
        }
    }
}

fn declared_shape(e: &Entry) -> Vec<DbField> {
    e.model.leaves.iter().filter(|l| !l.skip).map(leaf_dbfield).collect()
}

fn ser_case(r: &Ctx, t: &mut Tally, e: &Entry, op: Op, db: &[DbField], p: &Prepared, vals: &[Val], verbose: bool) {
    let exp = rb::expect_ser(&e.model, vals, db, op.target());
    let out = run_ser_op(e, op, p, vals);
    t.evals += 1;
    t.add(format!("{}|{}|{}|{}", op.name(), flavor_tag(e), verdict_tag(exp.verdict), out.class()), 1);
    if exp.verdict != Verdict::MustAccept {
        t.add(format!("reason|{}|{}", op.name(), exp.reason), 1);
    }
    let case = || json!({"struct": e.name, "op": op.name(), "db": db_to_json(db), "vals": vals.iter().map(val_to_json).collect::<Vec<_>>()});
    let key = |class: &str| format!("{}:{}:{}", op.name(), e.name, class);
    if verbose {
        println!("struct   {}", e.source);
        println!("database {:?}", db.iter().map(|f| format!("{} {}", f.name, f.kind.name())).collect::<Vec<_>>());
        println!("values   {vals:?}");
        println!("oracle   {} ({}) cells={:?} min_cells={}", verdict_tag(exp.verdict), exp.reason, exp.cells, exp.min_cells);
        println!("driver   {out:?}");
    }
    match (&out, exp.verdict) {
        (Out::Panic(pn), _) => r.violation(&key("panic"), || format!("{} of {} panicked: {pn}; database {:?}", op.name(), e.name, db), &case),
        (Out::Err(ph, msg), _) if *ph == "framing" => r.violation(&key("framing"), || format!("{} of {}: {msg}", op.name(), e.name), &case),
        (Out::Err(_, msg), Verdict::MustAccept) => r.violation(
            &key("rejected-documented-accept"),
            || format!("{} of {} against database {:?} failed ({msg}); the documentation promises success", op.name(), e.name, db),
            &case,
        ),
        (Out::Ok(_), Verdict::MustReject) => r.violation(
            &key("accepted-documented-reject"),
            || format!("{} of {} against database {:?} succeeded; the documentation promises an error ({})", op.name(), e.name, db, exp.reason),
            &case,
        ),
        (Out::Ok(bytes), Verdict::MustAccept | Verdict::Either) => {
            let got = match rb::split_cells(bytes) {
                Ok(c) => c,
                Err(why) => {
                    r.violation(&key("framing"), || format!("{} of {}: output is not a cell sequence: {why}", op.name(), e.name), &case);
                    return;
                }
            };
            if let Err(diff) = rb::compare_ser_cells(&exp, db, &got) {
                r.violation(&key("wrong-cells"), || format!("{} of {} against database {:?} with values {:?}: {diff}", op.name(), e.name, db, vals), &case);
                return;
            }
            if got.len() < db.len() {
                t.add(format!("{}|trailing-cells-omitted", op.name()), 1);
            }
            // SerializeRow::is_empty ("whether this row contains any values or not") against what serialize()
            // actually wrote for this column list: is_empty() iff zero values were written.
            if let (Op::SerRow, Some(f)) = (op, e.is_empty) {
                match vcore::catch(std::panic::AssertUnwindSafe(|| f(vals))) {
                    Ok(says_empty) => {
                        t.add(format!("is_empty|per-case|{}", if says_empty { "true" } else { "false" }), 1);
                        if says_empty != got.is_empty() {
                            r.violation(&key("is-empty"), || format!("{}::is_empty() = {says_empty}, but serialize() against database {:?} wrote {} value(s)", e.name, db, got.len()), &case);
                        }
                    }
                    Err(pn) => r.violation(&key("panic"), || format!("{}::is_empty() panicked: {pn}", e.name), &case),
                }
            }
            // value -> bytes -> value through the same struct's deserializer
            if let Some(dop) = de_partner(e, op) {
                // reference decoder; cannot fail after compare_ser_cells passed
                let Ok(cells) = rb::cells_from_body(db, bytes) else { return };
                let dexp = rb::expect_de(&e.model, db, &cells, dop.target());
                let back = run_de_op(e, dop, p, &Bytes::from(bytes.clone()));
                t.add(format!("roundtrip|{}|{}|{}", flavor_tag(e), verdict_tag(dexp.verdict), back.class()), 1);
                match (&back, dexp.verdict) {
                    (Out::Panic(pn), _) => r.violation(&key("roundtrip-panic"), || format!("deserializing {}'s own output panicked: {pn}", e.name), &case),
                    (Out::Ok(v), Verdict::MustAccept | Verdict::Either) if *v != dexp.vals => r.violation(
                        &key("roundtrip"),
                        || format!("{} -> bytes -> {} against database {:?}: wrote {:?}, read back {:?}, expected {:?}", e.name, e.name, db, vals, v, dexp.vals),
                        &case,
                    ),
                    (Out::Err(_, msg), Verdict::MustAccept) => r.violation(
                        &key("roundtrip"),
                        || format!("{} serialized against database {:?} but its own deserializer refused the bytes: {msg}", e.name, db),
                        &case,
                    ),
                    _ => {}
                }
            }
        }
        _ => {}
    }
}

fn de_case(r: &Ctx, t: &mut Tally, e: &Entry, op: Op, db: &[DbField], p: &Prepared, cells: &[Cell], verbose: bool) {
    let exp = rb::expect_de(&e.model, db, cells, op.target());
    let body = Bytes::from(rb::encode_cells(cells));
    let out = run_de_op(e, op, p, &body);
    t.evals += 1;
    t.add(format!("{}|{}|{}|{}", op.name(), flavor_tag(e), verdict_tag(exp.verdict), out.class()), 1);
    if exp.verdict != Verdict::MustAccept {
        t.add(format!("reason|{}|{}", op.name(), exp.reason), 1);
    }
    let case = || json!({"struct": e.name, "op": op.name(), "db": db_to_json(db), "cells": cells.iter().map(cell_to_json).collect::<Vec<_>>()});
    let key = |class: &str| format!("{}:{}:{}", op.name(), e.name, class);
    if verbose {
        println!("struct   {}", e.source);
        println!("database {:?}", db.iter().map(|f| format!("{} {}", f.name, f.kind.name())).collect::<Vec<_>>());
        println!("cells    {cells:?}");
        println!("oracle   {} ({}) values={:?}", verdict_tag(exp.verdict), exp.reason, exp.vals);
        println!("driver   {out:?}");
    }
    match (&out, exp.verdict) {
        (Out::Panic(pn), _) => r.violation(&key("panic"), || format!("{} of {} panicked: {pn}; database {:?}", op.name(), e.name, db), &case),
        (Out::Err(ph, msg), Verdict::MustAccept) => r.violation(
            &key("rejected-documented-accept"),
            || format!("{} of {} from database {:?} cells {:?} failed in {ph} ({msg}); the documentation promises success", op.name(), e.name, db, cells),
            &case,
        ),
        (Out::Ok(v), Verdict::MustReject) => r.violation(
            &key("accepted-documented-reject"),
            || format!("{} of {} from database {:?} cells {:?} produced {:?}; the documentation promises an error ({})", op.name(), e.name, db, cells, v, exp.reason),
            &case,
        ),
        (Out::Ok(v), Verdict::MustAccept | Verdict::Either) if *v != exp.vals => r.violation(
            &key("wrong-values"),
            || format!("{} of {} from database {:?} cells {:?}: got {:?}, expected {:?}", op.name(), e.name, db, cells, v, exp.vals),
            &case,
        ),
        _ => {}
    }
}

/// The UDT value itself is null and the target is the (non-Option) derived struct: there is no value to
/// build the struct from, so anything but an error is wrong.
fn null_udt_case(r: &Ctx, t: &mut Tally, e: &Entry, db: &[DbField], p: &Prepared, verbose: bool) {
    let Prepared::Udt(typ) = p else { return };
    let out = (e.de_value.unwrap())(typ, None);
    t.evals += 1;
    t.add(format!("de-value|null-udt|{}", out.class()), 1);
    let case = || json!({"struct": e.name, "op": "de-value", "db": db_to_json(db), "null_udt": true});
    if verbose {
        println!("struct   {}", e.source);
        println!("database {:?} ; the UDT value is null", db.iter().map(|f| format!("{} {}", f.name, f.kind.name())).collect::<Vec<_>>());
        println!("driver   {out:?}");
    }
    match &out {
        Out::Panic(pn) => r.violation(&format!("de-value:{}:panic", e.name), || format!("de-value of {} from a null UDT panicked: {pn}", e.name), &case),
        Out::Ok(v) => r.violation(&format!("de-value:{}:null-udt-accepted", e.name), || format!("de-value of {} from a null UDT value produced {:?}", e.name, v), &case),
        Out::Err(..) => {}
    }
}

struct Bounds {
    shape: ShapeBounds,
    value_rows: usize,
    /// null patterns other than "nothing null" are combined with the first this-many value rows
    null_pattern_rows: usize,
    /// de: null patterns range over at most this many leading database positions (the rest stay non-null)
    de_null_bits: usize,
    /// de: null patterns with at most this many nulls (plus the all-null pattern)
    de_max_nulls: usize,
}

/// Everything for one (struct, op, database shape).
fn shape_block(r: &Ctx, e: &Entry, op: Op, db: &[DbField], b: &Bounds) {
    let mut t = Tally::default();
    let p = prepare(op.target(), db);
    let m = &e.model;
    let nontrivial_shape = db != declared_shape(e).as_slice();
    // A shape the reference rejects on names/order/count (and, for type_check, on types) is rejected whatever
    // the values are: such shapes get the first and the last null pattern only.
    let dir = if op.is_ser() { rb::Dir::Ser } else { rb::Dir::De };
    let shape_rejected = if op.is_ser() { rb::bind_names(m, db, op.target(), dir).verdict == Verdict::MustReject } else { rb::bind(m, db, op.target(), dir).verdict == Verdict::MustReject };
    // repeated database names: only "no panic" is asserted, two null patterns are enough
    // (`repeated` is false for SerializeRow, where a repeated bind marker is a case of its own)
    let shape_rejected = shape_rejected || rb::bind_names(m, db, op.target(), dir).repeated;
    if shape_rejected {
        t.add(format!("{}|shapes-rejected-by-reference-or-repeated-name", op.name()), 1);
    } else {
        t.add(format!("{}|shapes-not-rejected-by-reference", op.name()), 1);
    }
    if op.is_ser() {
        let optional: Vec<usize> = (0..m.leaves.len()).filter(|i| m.leaves[*i].optional).collect();
        for row in 0..b.value_rows {
            let base: Vec<Val> = m.leaves.iter().enumerate().map(|(i, l)| pick_leaf(l, i, row)).collect();
            let n_masks = 1u32 << optional.len();
            for mask in 0..n_masks {
                if shape_rejected && mask != 0 && mask != n_masks - 1 {
                    continue;
                }
                if row >= b.null_pattern_rows && mask != 0 {
                    continue;
                }
                let mut vals = base.clone();
                for (bit, &li) in optional.iter().enumerate() {
                    if mask & (1 << bit) != 0 {
                        vals[li] = Val::Null;
                    }
                }
                ser_case(r, &mut t, e, op, db, &p, &vals, false);
            }
            if !shape_rejected && row < b.null_pattern_rows {
                for vals in nested_ser_variants(m, &base) {
                    ser_case(r, &mut t, e, op, db, &p, &vals, false);
                }
            }
        }
    } else {
        let bits = db.len().min(b.de_null_bits);
        for row in 0..b.value_rows {
            let base: Vec<Cell> = db.iter().map(|f| pick_cell(f, row)).collect();
            let n_masks = 1u32 << bits;
            for mask in 0..n_masks {
                if shape_rejected && mask != 0 && mask != n_masks - 1 {
                    continue;
                }
                if row >= b.null_pattern_rows && mask != 0 {
                    continue;
                }
                if mask.count_ones() as usize > b.de_max_nulls && mask != n_masks - 1 {
                    continue;
                }
                let mut cells = base.clone();
                for j in 0..bits {
                    if mask & (1 << j) != 0 {
                        cells[j] = Cell::Null;
                    }
                }
                de_case(r, &mut t, e, op, db, &p, &cells, false);
            }
            if !shape_rejected && row < b.null_pattern_rows {
                for cells in nested_de_variants(db, &base) {
                    de_case(r, &mut t, e, op, db, &p, &cells, false);
                }
            }
            if op == Op::DeValue && !shape_rejected && row == 0 {
                null_udt_case(r, &mut t, e, db, &p, false);
            }
            if op.target() == Target::Udt && !shape_rejected {
                // the UDT value stops after `cut` cells (protocol: the remaining fields are null)
                for cut in 0..db.len() {
                    let mut cells = base.clone();
                    for c in cells.iter_mut().skip(cut) {
                        *c = Cell::Absent;
                    }
                    de_case(r, &mut t, e, op, db, &p, &cells, false);
                    // and a null just before the cut
                    if cut > 0 {
                        cells[cut - 1] = Cell::Null;
                        de_case(r, &mut t, e, op, db, &p, &cells, false);
                    }
                }
            }
        }
    }
    if nontrivial_shape {
        t.nontrivial = t.evals;
    }
    let n = t.evals;
    t.add(format!("evals|{}", e.name), n);
    t.flush(r.report);
}

/// SerializeRow::is_empty ("whether this row contains any values or not") of a row struct
fn is_empty_check(r: &Report, e: &Entry) {
    if let Some(f) = e.is_empty {
        let vals: Vec<Val> = e.model.leaves.iter().enumerate().map(|(i, l)| pick_leaf(l, i, 0)).collect();
        let want = e.model.leaves.iter().all(|l| l.skip);
        r.eval(1);
        r.counters.add(if want { "is_empty|expected-true" } else { "is_empty|expected-false" }, 1);
        match vcore::catch(std::panic::AssertUnwindSafe(|| f(&vals))) {
            Ok(got) if got == want => {}
            Ok(got) => r.violation(&format!("ser-row:{}:is-empty", e.name), &format!("{}::is_empty() = {got}, but the struct serializes {} column(s)", e.name, e.model.leaves.iter().filter(|l| !l.skip).count()), json!({"struct": e.name, "op": "is-empty"})),
            Err(p) => r.violation(&format!("ser-row:{}:panic", e.name), &format!("{}::is_empty() panicked: {p}", e.name), json!({"struct": e.name, "op": "is-empty"})),
        }
    }
}

fn replay(r: &Report, fam: &[Entry], case: &Value) {
    let name = case["struct"].as_str().unwrap_or("");
    let Some(e) = fam.iter().find(|e| e.name == name) else { vcore::machinery_error(&format!("replay: unknown struct {name}")) };
    if case["op"].as_str() == Some("is-empty") {
        is_empty_check(r, e);
        return;
    }
    let Some(op) = case["op"].as_str().and_then(Op::from_name) else { vcore::machinery_error("replay: unknown op") };
    let db = db_from_json(&case["db"]);
    let p = prepare(op.target(), &db);
    let mut t = Tally::default();
    let sink = Sink::default();
    let cx = Ctx { report: r, sink: &sink, idx: 0 };
    if op.is_ser() {
        let vals: Vec<Val> = case["vals"].as_array().map(|a| a.iter().map(val_from_json).collect()).unwrap_or_default();
        ser_case(&cx, &mut t, e, op, &db, &p, &vals, true);
    } else {
        if case["null_udt"].as_bool() == Some(true) {
            null_udt_case(&cx, &mut t, e, &db, &p, true);
        } else {
            let cells: Vec<Cell> = case["cells"].as_array().map(|a| a.iter().map(cell_from_json).collect()).unwrap_or_default();
            de_case(&cx, &mut t, e, op, &db, &p, &cells, true);
        }
    }
    t.flush(r);
    sink.drain_into(r);
}

/// The reference must reproduce the expectations pinned in the repo's own macros_tests.rs before it is trusted.
fn reference_self_test(fam: &[Entry]) {
    let f = |n: &str, k: Kind| DbField::leaf(n, k);
    // V08-like: derive_serialize_and_deserialize_value_loose_ordering: allow_missing field absent -> default
    let v08 = fam.iter().find(|e| e.name == "V08").unwrap_or_else(|| vcore::machinery_error("family lacks V08"));
    let db = [f("d", Kind::Boolean), f("a", Kind::Int)];
    let d = rb::expect_de(&v08.model, &db, &[Cell::Value(Val::Boolean(true)), Cell::Value(Val::Int(3))], Target::Udt);
    if d.verdict != Verdict::MustAccept || d.vals != vec![Val::Int(3), Val::Null, Val::BigInt(0), Val::Boolean(true)] {
        vcore::machinery_error(&format!("cqlref::binder fails its pinned allow_missing case: {d:?}"));
    }
    // test_udt_serialization_with_field_sorting_* : database order wins
    let v01 = fam.iter().find(|e| e.name == "V01").unwrap();
    let db = [f("c", Kind::Boolean), f("a", Kind::Int), f("b", Kind::Text)];
    let s = rb::expect_ser(&v01.model, &[Val::Int(1), Val::Text("t".into()), Val::Boolean(true)], &db, Target::Udt);
    if s.verdict != Verdict::MustAccept || s.cells != vec![Some(vec![1]), Some(vec![0, 0, 0, 1]), Some(b"t".to_vec())] {
        vcore::machinery_error("cqlref::binder fails its pinned field-sorting case");
    }
}

fn main() {
    vcore::quiet_panics();
    let r = Report::new("C16", "enum", "exploration", "E-ENUM");
    let fam = h_cql::c16_family::family();
    if let Some(case) = r.replay_case() {
        replay(&r, &fam, &case);
        r.finish_replay();
    }
    reference_self_test(&fam);
    let thorough = r.tier().is_thorough();
    let jobs = r.args.jobs;
    let only = r.args.extra_value("--struct").map(|s| s.to_string());

    for e in &fam {
        is_empty_check(&r, e);
    }
    let t_gen = std::time::Instant::now();
    // work list: (entry index, op, shape)
    let mut work: Vec<(usize, Op, Vec<DbField>)> = Vec::new();
    let bounds_by_entry: Vec<Bounds> = fam
        .iter()
        .map(|e| {
            let n = e.model.leaves.iter().filter(|l| !l.skip).count();
            Bounds {
                shape: ShapeBounds {
                    one_extra_max_missing: n,
                    two_extras_both_orders: (thorough && n < 7) || n < 6,
                    repeat_every_field: e.ser_row.is_some() && n < 7,
                    two_extras_max_missing: if n >= 7 { 1 } else if thorough { n } else if n <= 4 { n } else { 1 },
                    retype_all_perms: (thorough && n < 7) || n <= 4,
                },
                value_rows: if thorough { 4 } else { 2 },
                null_pattern_rows: if thorough { 4 } else { 1 },
                de_null_bits: if thorough { 8 } else { 6 },
                de_max_nulls: if n >= 7 { if e.de_value.is_some() { 3 } else { 2 } } else if thorough { 8 } else { 2 },
            }
        })
        .collect();
    let selected: Vec<usize> = (0..fam.len())
        .filter(|i| only.as_deref().is_none_or(|o| o == fam[*i].name))
        .filter(|i| thorough || !h_cql::c16_family::THOROUGH_ONLY.contains(&fam[*i].name))
        .collect();
    let shapes_by_entry: Vec<Vec<Vec<DbField>>> = vcore::par::map(jobs, selected.clone(), |&i| shapes(&fam[i], &bounds_by_entry[i].shape));
    for (&ei, sh) in selected.iter().zip(shapes_by_entry) {
        let e = &fam[ei];
        let n = e.model.leaves.iter().filter(|l| !l.skip).count();
        r.counters.add("database_shapes", (sh.len() * ops_of(e).len()) as u64);
        r.counters.max("max_fields_permuted", n as u64);
        for op in ops_of(e) {
            for s in &sh {
                work.push((ei, op, s.clone()));
            }
        }
    }
    r.note("shape_generation_s", json!(t_gen.elapsed().as_secs_f64()));
    r.counters.add("structs", selected.len() as u64);
    let r_ref = &r;
    let fam_ref = &fam;
    let bounds_ref = &bounds_by_entry;
    let sink = Sink::default();
    let sink_ref = &sink;
    vcore::par::for_each(jobs, 8, work.into_iter().enumerate(), |(idx, (ei, op, db))| {
        let cx = Ctx { report: r_ref, sink: sink_ref, idx };
        shape_block(&cx, &fam_ref[ei], op, &db, &bounds_ref[ei]);
    });
    sink.drain_into(&r);

    // distinct outcome classes seen (vacuity guard)
    let snap = r.counters.snapshot();
    let outcome_classes = snap.keys().filter(|k| k.starts_with("ser-") || k.starts_with("de-")).count();
    r.note("distinct_outcome_classes", json!(outcome_classes));
    if outcome_classes < 8 {
        vcore::machinery_error("C16 harness collided on too few outcome classes");
    }
    r.set_rule("E-ENUM. Per family struct and derive: every subset of its fields missing x every permutation of the rest x {0, 1 extra at every position, 2 extras at every position pair (quick: >4-field structs get 2 extras only with <=1 field missing, 6-field structs only in the order x1,x2)} + one field retyped + Rust-name-instead-of-rename / name-of-a-skipped-field / a repeated name as extra (SerializeRow structs: every field name 2 and 3 times and two names twice, at every position, flattened and renamed fields included - a named bind marker may occur repeatedly; if accepted, every occurrence must carry the field's value and no cell may be missing); serialization x 2|4 value rows x every null pattern of Option fields (quick: null patterns with the first value row) (+ round trip through the struct's own deserializer); deserialization x 2|4 value rows x null patterns of database cells (quick: <=2 nulls or all null, first 6 positions; thorough: every pattern of the first 8 positions) + every UDT truncation point. Thorough tier only: three 7-field structs (by-name UDT, ordered UDT with allow_missing/default_when_null, by-name row): all 5040 orders x every subset missing x 1 extra at every position x 2 extras (x1,x2) at every position pair with <=1 field missing x null patterns with <=3 (UDT) / <=2 (row) nulls or all null among the first 8 cells x 4 value rows + every truncation point. Oracle cqlref::binder from the attribute documentation. Every accepted SerializeRow case also checks is_empty() == (serialize() wrote zero values). distinct_nontrivial = cases whose database list differs from the declared field list.");
    r.set_exhaustive(true);
    r.sample(json!({"struct": fam[0].source, "op": "ser-value", "db": [["c","boolean"],["a","int"],["b","text"]], "expected": "cells emitted at database positions c,a,b; read back by name"}));
    if let Some(e) = fam.iter().find(|e| e.name == "V12") {
        r.sample(json!({"struct": e.source, "op": "de-value", "db": [["d","double"],["B","text"]], "expected": "accept: a,c default (allow_missing), b from 'B', s default (skip)"}));
    }
    r.assume("field carriers restricted to i32/String/bool/i64/f64/Vec<i32> and Option of these (type coverage is C01/C17); database names unique");
    r.assume("verdict Either/Unspecified (documentation silent): allow_missing on serialization, excess columns for DeserializeRow, declared name inside an ignored ordered suffix, null into a non-Option list - only binding-if-accepted / no-panic is asserted there");
    r.finish();
}
