//! C01/C17: carriers that borrow from the frame (&str, &[u8], Cow<str>, Cow<[u8]>, CqlVarintBorrowed,
//! CqlDecimalBorrowed, and Option/Vec of &str / &[u8]). Hand-instantiated because of the frame lifetime:
//! each carrier gets a module with the same entry points the generic table uses.
use crate::c01dyn::Failure;
use crate::carriers::{Entry, Probe, Rel, SStats, c01_ser_value, compare_back, probe_value};
use crate::dynconv::*;
use bytes::Bytes;
use crate::refvalue::{Native, Type, Value};
use scylla_cql_core::deserialize::value::DeserializeValue;
use scylla_cql_core::frame::response::result::ColumnType;
use scylla_cql_core::value::{CqlDecimalBorrowed, CqlVarintBorrowed};
use std::borrow::Cow;
use std::panic::AssertUnwindSafe;
use std::sync::atomic::Ordering;
use vcore::catch;

fn natives_rel(t: &Type, ns: &[Native]) -> Rel {
    match t {
        Type::Native(n) if ns.contains(n) => Rel::Accept,
        _ => Rel::Reject,
    }
}
fn seq_rel(t: &Type, ns: &[Native]) -> Rel {
    match t {
        Type::List(e) | Type::Set(e) => natives_rel(e, ns),
        Type::Vector(e, 0) => {
            if natives_rel(e, ns) == Rel::Accept {
                Rel::Accept
            } else {
                Rel::DontCare
            }
        }
        Type::Vector(e, _) => natives_rel(e, ns),
        _ => Rel::Reject,
    }
}
fn str_value(t: &Type, s: &str) -> Value {
    if matches!(t, Type::Native(Native::Ascii)) { Value::Ascii(s.to_string()) } else { Value::Text(s.to_string()) }
}
fn str_of(v: &Value) -> Option<String> {
    match v {
        Value::Ascii(s) | Value::Text(s) => Some(s.clone()),
        _ => None,
    }
}
fn elem(t: &Type) -> &Type {
    match t {
        Type::List(e) | Type::Set(e) | Type::Vector(e, _) => e,
        o => o,
    }
}
fn seq_value(t: &Type, xs: Vec<Value>) -> Value {
    match t {
        Type::List(_) => Value::List(xs),
        Type::Set(_) => Value::Set(xs),
        _ => Value::Vector(xs),
    }
}
fn seq_items(v: &Value) -> Option<&Vec<Value>> {
    match v {
        Value::List(xs) | Value::Set(xs) | Value::Vector(xs) => Some(xs),
        _ => None,
    }
}
fn seq_homes(ns: &[Native]) -> Vec<Type> {
    let mut out = Vec::new();
    for n in ns {
        let e = Type::Native(*n);
        out.push(Type::List(Box::new(e.clone())));
        out.push(Type::Set(Box::new(e.clone())));
        for d in [0u16, 1, 2, 3] {
            out.push(Type::Vector(Box::new(e.clone()), d));
        }
    }
    out
}

/// One borrowed carrier. `$Own` is owned storage built from the reference value; `$B` the borrowed
/// carrier type built from `&$Own`; `back` turns a (borrowed) carrier value into the reference form.
macro_rules! borrowed {
    ($m:ident, $name:expr, homes: $homes:expr, rel: |$rt:ident| $rel:expr, owned: $Own:ty, from: |$t:ident, $v:ident| $from:expr,
     borrow: |$o:ident| $borrow:expr, ty: $B:ty, back: |$b:ident, $t2:ident| $back:expr, witness: |$wt:ident| $wit:expr) => {
        pub mod $m {
            use super::*;
            pub fn rel($rt: &Type) -> Rel {
                $rel
            }
            #[allow(unused_variables)]
            pub fn c01(t: &Type, v: &Value, st: &SStats) -> Result<bool, Failure> {
                if rel(t) != Rel::Accept {
                    return Ok(false);
                }
                let ($t, $v) = (t, v);
                let made: Option<$Own> = $from;
                let Some(owned) = made else {
                    st.skipped_not_representable.fetch_add(1, Ordering::Relaxed);
                    return Ok(false);
                };
                let $o = &owned;
                let carrier: $B = $borrow;
                let ct = column_type(t);
                let logical: Value = {
                    let ($b, $t2) = (&carrier, t);
                    $back
                };
                let bytes = c01_ser_value($name, &carrier, &logical, t, &ct)?;
                st.cases.fetch_add(1, Ordering::Relaxed);
                let body = unframe(&bytes).map_err(|e| Failure { check: "static-encode", what: format!("{} into {t}: malformed cell: {e}", $name) })?;
                let frame = body.map(Bytes::copy_from_slice);
                let got = catch(AssertUnwindSafe(|| {
                    deser_with::<$B, Value>(&ct, frame.as_ref(), |d| {
                        let ($b, $t2) = (&d, t);
                        $back
                    })
                }));
                compare_back($name, t, &bytes, &logical, got)?;
                st.deser_roundtrips.fetch_add(1, Ordering::Relaxed);
                Ok(true)
            }
            #[allow(unused_variables)]
            pub fn probe($wt: &Type, ct: &ColumnType<'static>) -> Probe {
                let owned: $Own = $wit;
                let $o = &owned;
                let carrier: $B = $borrow;
                probe_value(&carrier, ct)
            }
            pub fn type_check(ct: &ColumnType<'static>) -> Result<Result<(), String>, String> {
                catch(AssertUnwindSafe(|| <$B as DeserializeValue>::type_check(ct).map_err(|e| e.to_string())))
            }
            pub fn entry() -> Entry {
                Entry { name: $name.to_string(), homes: $homes, rel_ser: rel, rel_de: Some(rel), c01, probe_ser: probe, type_check: Some(type_check) }
            }
        }
    };
}

const STR: &[Native] = &[Native::Text, Native::Ascii];
const BLOB: &[Native] = &[Native::Blob];
fn nats(ns: &[Native]) -> Vec<Type> {
    ns.iter().map(|n| Type::Native(*n)).collect()
}

borrowed!(str_ref, "&str", homes: nats(STR), rel: |t| natives_rel(t, STR), owned: String, from: |t, v| str_of(v),
    borrow: |o| o.as_str(), ty: &str, back: |b, t| str_value(t, b), witness: |t| "w".to_string());
borrowed!(cow_str, "Cow<str>", homes: nats(STR), rel: |t| natives_rel(t, STR), owned: String, from: |t, v| str_of(v),
    borrow: |o| Cow::Borrowed(o.as_str()), ty: Cow<str>, back: |b, t| str_value(t, b), witness: |t| "w".to_string());
borrowed!(opt_str_ref, "Option<&str>", homes: nats(STR), rel: |t| natives_rel(t, STR), owned: Option<String>,
    from: |t, v| match v { Value::Null => Some(None), v => str_of(v).map(Some) },
    borrow: |o| o.as_deref(), ty: Option<&str>, back: |b, t| match b { None => Value::Null, Some(s) => str_value(t, s) }, witness: |t| Some("w".to_string()));
borrowed!(vec_str_ref, "Vec<&str>", homes: seq_homes(STR), rel: |t| seq_rel(t, STR), owned: Vec<String>,
    from: |t, v| seq_items(v).and_then(|xs| xs.iter().map(str_of).collect::<Option<Vec<String>>>()),
    borrow: |o| o.iter().map(|s| s.as_str()).collect(), ty: Vec<&str>, back: |b, t| seq_value(t, b.iter().map(|s| str_value(elem(t), s)).collect()),
    witness: |t| match t { Type::Vector(_, d) => vec!["w".to_string(); *d as usize], _ => vec!["w".to_string()] });
borrowed!(bytes_ref, "&[u8]", homes: nats(BLOB), rel: |t| natives_rel(t, BLOB), owned: Vec<u8>, from: |t, v| match v { Value::Blob(b) => Some(b.clone()), _ => None },
    borrow: |o| o.as_slice(), ty: &[u8], back: |b, t| Value::Blob(b.to_vec()), witness: |t| vec![1, 2, 3]);
// Cow<[u8]> is deserialize-only in the crate (no `SerializeValue for [u8]`): a compile-time fact, outside these checks.
borrowed!(vec_bytes_ref, "Vec<&[u8]>", homes: seq_homes(BLOB), rel: |t| seq_rel(t, BLOB), owned: Vec<Vec<u8>>,
    from: |t, v| seq_items(v).and_then(|xs| xs.iter().map(|x| match x { Value::Blob(b) => Some(b.clone()), _ => None }).collect::<Option<Vec<Vec<u8>>>>()),
    borrow: |o| o.iter().map(|s| s.as_slice()).collect(), ty: Vec<&[u8]>, back: |b, t| seq_value(t, b.iter().map(|s| Value::Blob(s.to_vec())).collect()),
    witness: |t| match t { Type::Vector(_, d) => vec![vec![1u8, 2]; *d as usize], _ => vec![vec![1u8, 2]] });
borrowed!(varint_borrowed, "CqlVarintBorrowed", homes: nats(&[Native::Varint]), rel: |t| natives_rel(t, &[Native::Varint]), owned: Vec<u8>,
    from: |t, v| match v { Value::Varint(b) => Some(b.clone()), _ => None },
    borrow: |o| CqlVarintBorrowed::from_signed_bytes_be_slice(o.as_slice()), ty: CqlVarintBorrowed, back: |b, t| Value::Varint(b.as_signed_bytes_be_slice().to_vec()), witness: |t| vec![1, 2]);
borrowed!(opt_varint_borrowed, "Option<CqlVarintBorrowed>", homes: nats(&[Native::Varint]), rel: |t| natives_rel(t, &[Native::Varint]), owned: Option<Vec<u8>>,
    from: |t, v| match v { Value::Null => Some(None), Value::Varint(b) => Some(Some(b.clone())), _ => None },
    borrow: |o| o.as_ref().map(|x| CqlVarintBorrowed::from_signed_bytes_be_slice(x.as_slice())), ty: Option<CqlVarintBorrowed>,
    back: |b, t| match b { None => Value::Null, Some(x) => Value::Varint(x.as_signed_bytes_be_slice().to_vec()) }, witness: |t| Some(vec![1, 2]));
borrowed!(decimal_borrowed, "CqlDecimalBorrowed", homes: nats(&[Native::Decimal]), rel: |t| natives_rel(t, &[Native::Decimal]), owned: (Vec<u8>, i32),
    from: |t, v| match v { Value::Decimal { scale, unscaled } => Some((unscaled.clone(), *scale)), _ => None },
    borrow: |o| CqlDecimalBorrowed::from_signed_be_bytes_slice_and_exponent(o.0.as_slice(), o.1), ty: CqlDecimalBorrowed,
    back: |b, t| { let (x, scale) = b.as_signed_be_bytes_slice_and_exponent(); Value::Decimal { scale, unscaled: x.to_vec() } }, witness: |t| (vec![1, 2], 3));

pub fn table() -> Vec<Entry> {
    vec![
        str_ref::entry(),
        cow_str::entry(),
        opt_str_ref::entry(),
        vec_str_ref::entry(),
        bytes_ref::entry(),
        vec_bytes_ref::entry(),
        varint_borrowed::entry(),
        opt_varint_borrowed::entry(),
        decimal_borrowed::entry(),
    ]
}
