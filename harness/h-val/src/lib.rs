//! C01 / C17: value-codec checks (legs are the bins c01, c17).
/// The independent reference codec. Same source file as `crate::refvalue` (owned by this builder), compiled
/// into this crate directly so that edits to other cqlref modules do not recompile the carrier table.
#[path = "../../cqlref/src/value.rs"]
pub mod refvalue;

pub mod borrowed; // frame-borrowing carriers (&str, &[u8], Cow, *Borrowed)
pub mod c01dyn; // C01 leg dyn: (type, value) x CqlValue vs the reference
pub mod c01static; // C01 leg static: typed Rust carriers
pub mod c17; // C17 legs matrix + rollback
pub mod carriers; // table of static carriers, expected acceptance relation
pub mod dynconv; // reference <-> ColumnType/CqlValue conversions, serialize/deserialize drivers
pub mod types; // enumerated column-type space
pub mod values; // value alphabets, JSON forms
