//! C01 leg `static`: every typed Rust carrier of the table (`carriers::table`, `borrowed::table`) x every
//! column type it is documented to fit x every value of that type's alphabet the carrier can represent.
//!   check 1  bytes through add_value / serialize+CellWriter == reference encoding of the carrier's logical value;
//!   check 3  == the dynamic value's bytes for the same logical value;
//!   check 2  type_check + deserialize of those bytes as the same carrier gives the value back (bitwise through
//!            the reference form; hash-based collections compared as multisets);
//!   padding  a value the carrier cannot hold as given but can hold in canonical form (a short tuple vs a Rust tuple
//!            with Option fields): the reference encoding of the short value must decode to the padded carrier value.
use crate::c01dyn::Failure;
use crate::carriers::{self, Entry, Rel, SStats};
use crate::values;
use crate::refvalue::{self as refv, Type, Value};
use serde_json::json;
use std::sync::atomic::Ordering;
use vcore::Report;

fn report(r: &Report, e: &Entry, t: &Type, v: &Value, f: Failure) {
    r.violation(&format!("{}:{}", f.check, e.name), &f.what, json!({"leg": "static", "carrier": e.name, "type": t.to_string(), "value": values::value_to_json(v), "frozen": crate::dynconv::frozen_mode()}));
}

pub fn all_entries() -> Vec<Entry> {
    let mut v = carriers::table();
    v.extend(crate::borrowed::table());
    v
}

pub fn run(r: &Report) {
    if r.tier().is_thorough() {
        values::FULL_ALPHABET_LEVEL.store(2, Ordering::Relaxed);
    }
    let n_ref = refv::self_test().unwrap_or_else(|e| vcore::machinery_error(&format!("crate::refvalue fails its pinned vectors: {e}")));
    r.note("reference_pinned_vectors_checked", json!(n_ref));
    let entries = all_entries();
    let st = SStats::default();
    let mut work: Vec<(usize, Type)> = Vec::new();
    for (i, e) in entries.iter().enumerate() {
        if e.homes.is_empty() {
            vcore::machinery_error(&format!("carrier {} has no home type", e.name));
        }
        for h in &e.homes {
            if (e.rel_ser)(h) == Rel::Reject {
                vcore::machinery_error(&format!("carrier {}: home type {h} is classified Reject by the relation", e.name));
            }
            work.push((i, h.clone()));
        }
    }
    r.counters.add("carriers", entries.len() as u64);
    r.counters.add("carrier_x_column_type_pairs", work.len() as u64);
    let entries_ref = &entries;
    let st_ref = &st;
    let per_carrier: Vec<std::sync::atomic::AtomicU64> = (0..entries.len()).map(|_| Default::default()).collect();
    let per_ref = &per_carrier;
    vcore::par::for_each(r.args.jobs, 4, work.into_iter(), |(i, t)| {
        let e = &entries_ref[i];
        for (v, acc) in values::top_cases(&t) {
            if acc == values::Accept::May {
                continue; // acceptance undetermined (empty into counter/duration/composites): judged in the dyn leg only
            }
            for mode in crate::dynconv::frozen_modes_for(&t) {
                r.eval(1);
                crate::dynconv::with_frozen(mode, || match (e.c01)(&t, &v, st_ref) {
                    Ok(true) => {
                        per_ref[i].fetch_add(1, Ordering::Relaxed);
                        if mode == 0 && !matches!(v, Value::Null | Value::Unset) {
                            r.nontrivial(1);
                        }
                    }
                    Ok(false) => {}
                    Err(f) => report(r, e, &t, &v, f),
                });
            }
        }
    });
    let idle: Vec<&str> = entries.iter().zip(&per_carrier).filter(|(_, n)| n.load(Ordering::Relaxed) == 0).map(|(e, _)| e.name.as_str()).collect();
    if !idle.is_empty() && r.violation_count() == 0 {
        vcore::machinery_error(&format!("carriers that exercised no case (table or alphabet broken): {idle:?}"));
    }
    r.counters.add("cases_serialized_and_compared", st.cases.load(Ordering::Relaxed));
    r.counters.add("cases_value_not_representable_by_carrier", st.skipped_not_representable.load(Ordering::Relaxed));
    r.counters.add("cases_deserialized_back_to_same_carrier", st.deser_roundtrips.load(Ordering::Relaxed));
    r.counters.add("short_tuple_encodings_decoded_into_padded_carrier", st.padded_decodes.load(Ordering::Relaxed));
    r.note("min_cases_per_carrier", json!(per_carrier.iter().map(|n| n.load(Ordering::Relaxed)).min().unwrap_or(0)));
    r.set_rule("E-ENUM, static carriers. Table: 31 owned base carriers (i8..i64, f32/f64, bool, String/Box<str>/Arc<str>, Vec<u8>/Bytes, IpAddr, Uuid, CqlTimeuuid, Counter, CqlDate/Time/Timestamp/Duration, CqlVarint, CqlDecimal, chrono NaiveDate/NaiveTime/DateTime<Utc>, time Date/Time/OffsetDateTime, num-bigint 0.3/0.4 BigInt, bigdecimal BigDecimal) each as T, Option<T>, Box<T>, Arc<T>, Vec<T>, Vec<Option<T>>, Option<Vec<T>>, BTreeMap<i32,T>, HashMap<String,T>, (T,), (T,i32), (String,T,Option<i64>), MaybeUnset<T>, &T, [T]; BTreeSet/BTreeMap-key for Ord carriers, HashSet/HashMap-key for Hash carriers, MaybeEmpty<T> for Emptiable carriers, two-level wrappers for five representatives, secrecy 0.8/0.10 wrappers, and the borrowed carriers &str, &[u8], Cow<str>, Cow<[u8]>, CqlVarintBorrowed, CqlDecimalBorrowed, [u8;N]. For each carrier: every column type it is documented to fit (list/set/vector dim 0..3 for sequences) x every alphabet value the carrier can represent. Every (carrier, column type, value) is run with the column type's collections non-frozen, all frozen and nested-only frozen. distinct_nontrivial = compared cases (non-frozen variant) with a non-null value.");
    r.set_exhaustive(true);
    r.assume("a carrier's logical value is read through harness conversions that never call the crate's conversion impls (chrono/time/bigint built from raw numbers); values a carrier cannot represent (e.g. dates outside chrono's range, Empty for i32) are skipped and counted");
    r.sample(json!({"carrier": "HashMap<String,Vec<Option<i32>>>-style nesting is covered by", "entries": entries.iter().filter(|e| e.name.contains("Vec<Option<i32>>") || e.name.contains("HashMap<i32,Vec<i32>>")).map(|e| e.name.clone()).collect::<Vec<_>>()}));
}

pub fn replay(r: &Report, case: &serde_json::Value) {
    let name = case["carrier"].as_str().unwrap_or("");
    let t = refv::parse_type(case["type"].as_str().unwrap_or("")).unwrap_or_else(|e| vcore::machinery_error(&format!("replay: bad type: {e}")));
    let v = values::value_from_json(&case["value"]).unwrap_or_else(|e| vcore::machinery_error(&format!("replay: bad value: {e}")));
    let entries = all_entries();
    let Some(e) = entries.iter().find(|e| e.name == name) else { vcore::machinery_error(&format!("replay: unknown carrier {name}")) };
    println!("replaying static case: carrier {name}, type {t}, value {}", values::brief(&v));
    r.eval(1);
    let st = SStats::default();
    let mode = case["frozen"].as_u64().unwrap_or(0) as u8;
    match crate::dynconv::with_frozen(mode, || (e.c01)(&t, &v, &st)) {
        Ok(done) => println!("case {}", if done { "held" } else { "not representable by the carrier" }),
        Err(f) => report(r, e, &t, &v, f),
    }
}
