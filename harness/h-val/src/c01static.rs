//! C01 leg `static`: every typed Rust carrier of the table (`carriers::table`, `borrowed::table`) x every
//! column type it is documented to fit x every value of that type's alphabet the carrier can represent.
//!   check 1  bytes through add_value / serialize+CellWriter == reference encoding of the carrier's logical value;
//!   check 3  == the dynamic value's bytes for the same logical value;
//!   check 2  type_check + deserialize of those bytes as the same carrier gives the value back (bitwise through
//!            the reference form; hash-based collections compared as multisets);
//!   padding  a value the carrier cannot hold as given but can hold in canonical form (a short tuple vs a Rust tuple
//!            with Option fields): the reference encoding of the short value must decode to the padded carrier value.
use crate::c01dyn::Failure;
use crate::carriers::{self, Entry, Rel, SStats};
use crate::values;
use crate::refvalue::{self as refv, Type, Value};
use serde_json::json;
use std::sync::atomic::Ordering;
use vcore::Report;

fn report(r: &Report, e: &Entry, t: &Type, v: &Value, f: Failure) {
    r.violation(&format!("{}:{}", f.check, e.name), &f.what, json!({"leg": "static", "carrier": e.name, "type": t.to_string(), "value": values::value_to_json(v), "frozen": crate::dynconv::frozen_mode()}));
}

pub fn all_entries() -> Vec<Entry> {
    let mut v = carriers::table();
    v.extend(crate::borrowed::table());
    v
}


/// Cross-carrier consistency for instants with digits below a millisecond: the CQL timestamp has millisecond
/// precision and the book says "any precision finer than 1ms will be lost" without naming a rounding rule, so no
/// rule is imposed here - but every carrier holding the SAME instant must produce the same cell, and an instant
/// that is a whole number of milliseconds must produce exactly that number.
fn check_instants(r: &Report) {
    use crate::dynconv::{column_type, ser_cell_writer};
    use scylla_cql_core::value::CqlTimestamp;
    let t = Type::Native(refv::Native::Timestamp);
    let ct = column_type(&t);
    let secs: [i64; 9] = [0, 1, -1, -2, 1_600_000_000, -1_600_000_000, -86_400, 253_402_300_799, -62_135_596_800];
    let nanos: [u32; 11] = [0, 1, 999, 1_000, 999_999, 1_000_000, 1_000_001, 500_000_000, 999_000_000, 999_999_000, 999_999_999];
    let mut compared = 0u64;
    for s in secs {
        for n in nanos {
            r.eval(1);
            let case = json!({"leg": "static", "part": "instants", "unix_seconds": s, "nanos": n});
            let total_nanos = s as i128 * 1_000_000_000 + n as i128;
            let Some(ch) = chrono::DateTime::<chrono::Utc>::from_timestamp(s, n) else { continue };
            let Ok(ti) = time::OffsetDateTime::from_unix_timestamp_nanos(total_nanos) else { continue };
            // the same instant seen from other offsets (skipped at the edge of the crate's date range)
            let ti_off = ti.checked_to_offset(time::UtcOffset::from_hms(5, 30, 0).unwrap()).unwrap_or(ti);
            let ti_neg = ti.checked_to_offset(time::UtcOffset::from_hms(-11, 0, 0).unwrap()).unwrap_or(ti);
            let ch_bytes = vcore::catch(std::panic::AssertUnwindSafe(|| ser_cell_writer(&ch, &ct)));
            let mut cells: Vec<(&str, Result<Result<Vec<u8>, String>, String>)> = vec![("chrono::DateTime<Utc>", ch_bytes)];
            cells.push(("time::OffsetDateTime(UTC)", vcore::catch(std::panic::AssertUnwindSafe(|| ser_cell_writer(&ti, &ct)))));
            cells.push(("time::OffsetDateTime(+05:30)", vcore::catch(std::panic::AssertUnwindSafe(|| ser_cell_writer(&ti_off, &ct)))));
            cells.push(("time::OffsetDateTime(-11:00)", vcore::catch(std::panic::AssertUnwindSafe(|| ser_cell_writer(&ti_neg, &ct)))));
            if total_nanos.rem_euclid(1_000_000) == 0 {
                let ms = (total_nanos / 1_000_000) as i64;
                cells.push(("CqlTimestamp", vcore::catch(std::panic::AssertUnwindSafe(|| ser_cell_writer(&CqlTimestamp(ms), &ct)))));
                cells.push(("reference", Ok(Ok(refv::encode(&t, &Value::Timestamp(ms)).unwrap().framed()))));
            }
            let first = cells[0].1.clone();
            if !matches!(first, Ok(Ok(_))) {
                r.violation("static-instant:refused:chrono::DateTime<Utc>", &format!("chrono::DateTime<Utc> holding {s}s+{n}ns was not bound to timestamp: {first:?}"), case.clone());
                continue;
            }
            for (name, cell) in &cells {
                match cell {
                    Ok(Ok(_)) => {}
                    other => {
                        r.violation(&format!("static-instant:refused:{name}"), &format!("{name} holding {s}s+{n}ns was not bound to timestamp: {other:?}"), case.clone());
                        continue;
                    }
                }
                if *cell != first {
                    r.violation(
                        &format!("static-instant:carriers-disagree:{name}"),
                        &format!("the same instant ({s} s + {n} ns from the epoch) is bound as {} by {} but as {} by {name}", vcore::hex(first.as_ref().unwrap().as_ref().unwrap()), cells[0].0, vcore::hex(cell.as_ref().unwrap().as_ref().unwrap())),
                        case.clone(),
                    );
                } else {
                    compared += 1;
                }
            }
        }
    }
    r.nontrivial(compared);
    r.counters.add("instant_carrier_pairs_agreeing", compared);
}

pub fn run(r: &Report) {
    check_instants(r);
    if r.tier().is_thorough() {
        values::FULL_ALPHABET_LEVEL.store(2, Ordering::Relaxed);
    }
    let n_ref = refv::self_test().unwrap_or_else(|e| vcore::machinery_error(&format!("crate::refvalue fails its pinned vectors: {e}")));
    r.note("reference_pinned_vectors_checked", json!(n_ref));
    let entries = all_entries();
    let st = SStats::default();
    let mut work: Vec<(usize, Type)> = Vec::new();
    for (i, e) in entries.iter().enumerate() {
        if e.homes.is_empty() {
            vcore::machinery_error(&format!("carrier {} has no home type", e.name));
        }
        for h in &e.homes {
            if (e.rel_ser)(h) == Rel::Reject {
                vcore::machinery_error(&format!("carrier {}: home type {h} is classified Reject by the relation", e.name));
            }
            work.push((i, h.clone()));
        }
    }
    r.counters.add("carriers", entries.len() as u64);
    r.counters.add("carrier_x_column_type_pairs", work.len() as u64);
    let entries_ref = &entries;
    let st_ref = &st;
    let per_carrier: Vec<std::sync::atomic::AtomicU64> = (0..entries.len()).map(|_| Default::default()).collect();
    let per_ref = &per_carrier;
    vcore::par::for_each(r.args.jobs, 4, work.into_iter(), |(i, t)| {
        let e = &entries_ref[i];
        for (v, acc) in values::top_cases(&t) {
            if acc == values::Accept::May {
                continue; // acceptance undetermined (empty into counter/duration/composites): judged in the dyn leg only
            }
            for mode in crate::dynconv::frozen_modes_for(&t) {
                r.eval(1);
                crate::dynconv::with_frozen(mode, || match (e.c01)(&t, &v, st_ref) {
                    Ok(true) => {
                        per_ref[i].fetch_add(1, Ordering::Relaxed);
                        if mode == 0 && !matches!(v, Value::Null | Value::Unset) {
                            r.nontrivial(1);
                        }
                    }
                    Ok(false) => {}
                    Err(f) => report(r, e, &t, &v, f),
                });
            }
        }
    });
    let idle: Vec<&str> = entries.iter().zip(&per_carrier).filter(|(_, n)| n.load(Ordering::Relaxed) == 0).map(|(e, _)| e.name.as_str()).collect();
    if !idle.is_empty() && r.violation_count() == 0 {
        vcore::machinery_error(&format!("carriers that exercised no case (table or alphabet broken): {idle:?}"));
    }
    r.counters.add("cases_serialized_and_compared", st.cases.load(Ordering::Relaxed));
    r.counters.add("cases_value_not_representable_by_carrier", st.skipped_not_representable.load(Ordering::Relaxed));
    r.counters.add("cases_deserialized_back_to_same_carrier", st.deser_roundtrips.load(Ordering::Relaxed));
    r.counters.add("short_tuple_encodings_decoded_into_padded_carrier", st.padded_decodes.load(Ordering::Relaxed));
    r.note("min_cases_per_carrier", json!(per_carrier.iter().map(|n| n.load(Ordering::Relaxed)).min().unwrap_or(0)));
    r.set_rule("E-ENUM, static carriers. Table: 31 owned base carriers (i8..i64, f32/f64, bool, String/Box<str>/Arc<str>, Vec<u8>/Bytes, IpAddr, Uuid, CqlTimeuuid, Counter, CqlDate/Time/Timestamp/Duration, CqlVarint, CqlDecimal, chrono NaiveDate/NaiveTime/DateTime<Utc>, time Date/Time/OffsetDateTime, num-bigint 0.3/0.4 BigInt, bigdecimal BigDecimal) each as T, Option<T>, Box<T>, Arc<T>, Vec<T>, Vec<Option<T>>, Option<Vec<T>>, BTreeMap<i32,T>, HashMap<String,T>, (T,), (T,i32), (String,T,Option<i64>), MaybeUnset<T>, &T, [T]; BTreeSet/BTreeMap-key for Ord carriers, HashSet/HashMap-key for Hash carriers, MaybeEmpty<T> for Emptiable carriers, two-level wrappers for five representatives, secrecy 0.8/0.10 wrappers, and the borrowed carriers &str, &[u8], Cow<str>, Cow<[u8]>, CqlVarintBorrowed, CqlDecimalBorrowed, [u8;N]. For each carrier: every column type it is documented to fit (list/set/vector dim 0..3 for sequences) x every alphabet value the carrier can represent. Every (carrier, column type, value) is run with the column type's collections non-frozen, all frozen and nested-only frozen. Instants: 9 second values x 11 sub-second values (incl. pre-epoch with sub-ms and sub-us digits) held by chrono::DateTime<Utc>, time::OffsetDateTime at three UTC offsets and (whole milliseconds) CqlTimestamp must all bind to the same timestamp cell. distinct_nontrivial = compared cases (non-frozen variant) with a non-null value + agreeing instant pairs.");
    r.set_exhaustive(true);
    r.assume("a carrier's logical value is read through harness conversions that never call the crate's conversion impls (chrono/time/bigint built from raw numbers); values a carrier cannot represent (e.g. dates outside chrono's range, Empty for i32) are skipped and counted");
    r.sample(json!({"carrier": "HashMap<String,Vec<Option<i32>>>-style nesting is covered by", "entries": entries.iter().filter(|e| e.name.contains("Vec<Option<i32>>") || e.name.contains("HashMap<i32,Vec<i32>>")).map(|e| e.name.clone()).collect::<Vec<_>>()}));
}

pub fn replay(r: &Report, case: &serde_json::Value) {
    if case["part"].as_str() == Some("instants") {
        println!("replaying the instants part");
        check_instants(r);
        return;
    }
    let name = case["carrier"].as_str().unwrap_or("");
    let t = refv::parse_type(case["type"].as_str().unwrap_or("")).unwrap_or_else(|e| vcore::machinery_error(&format!("replay: bad type: {e}")));
    let v = values::value_from_json(&case["value"]).unwrap_or_else(|e| vcore::machinery_error(&format!("replay: bad value: {e}")));
    let entries = all_entries();
    let Some(e) = entries.iter().find(|e| e.name == name) else { vcore::machinery_error(&format!("replay: unknown carrier {name}")) };
    println!("replaying static case: carrier {name}, type {t}, value {}", values::brief(&v));
    r.eval(1);
    let st = SStats::default();
    let mode = case["frozen"].as_u64().unwrap_or(0) as u8;
    match crate::dynconv::with_frozen(mode, || (e.c01)(&t, &v, &st)) {
        Ok(done) => println!("case {}", if done { "held" } else { "not representable by the carrier" }),
        Err(f) => report(r, e, &t, &v, f),
    }
}
