//! C01/C17: value alphabets per column type (DESIGN.md 2/C01 (b)) and JSON forms for replay artefacts.
//!
//! `alphabet(t, level)` lists valid non-null values of `t`, simplest first, all distinct:
//! natives - boundary-heavy lists (full at nesting level <= 1, a short list deeper);
//! list/set - empty, every singleton, a pair, a triple, (lists only) a null element;
//! map - empty, {k: v0} for every k, {k0: v} for every v, two entries;
//! tuple/UDT - every position takes every value (others at their first), every null pattern, every
//!   shorter prefix (tuple) / every omission pattern and reversed naming order (UDT);
//! vector - every position takes every value (no null/empty elements: not values of a vector).
//! `top_cases` adds null, not-set and the zero-length empty value.

use crate::refvalue::{Native, Type, Value};
use serde_json::{Value as J, json};

/// Natives use their full alphabet down to this nesting level (quick: 1, thorough: 2), a short one deeper.
pub static FULL_ALPHABET_LEVEL: std::sync::atomic::AtomicUsize = std::sync::atomic::AtomicUsize::new(1);

fn s(x: &str) -> String {
    x.to_string()
}

pub fn native_alphabet(n: Native, full: bool) -> Vec<Value> {
    use Value as V;
    let i64s = |f: fn(i64) -> Value| -> Vec<Value> {
        let mut v = vec![f(0), f(1), f(-1), f(i64::MAX), f(i64::MIN)];
        if full {
            v.push(f(0x0102030405060708));
        }
        v
    };
    match n {
        Native::Int => {
            let mut v = vec![V::Int(0), V::Int(1), V::Int(-1), V::Int(i32::MAX), V::Int(i32::MIN)];
            if full {
                v.push(V::Int(0x01020304));
            }
            v
        }
        Native::BigInt => i64s(V::BigInt),
        Native::Counter => i64s(V::Counter),
        Native::Timestamp => i64s(V::Timestamp),
        Native::SmallInt => vec![V::SmallInt(0), V::SmallInt(1), V::SmallInt(-1), V::SmallInt(i16::MAX), V::SmallInt(i16::MIN), V::SmallInt(0x0102)],
        Native::TinyInt => vec![V::TinyInt(0), V::TinyInt(1), V::TinyInt(-1), V::TinyInt(i8::MAX), V::TinyInt(i8::MIN)],
        Native::Boolean => vec![V::Boolean(false), V::Boolean(true)],
        Native::Float => {
            let mut v = vec![V::Float(0f32.to_bits()), V::Float(1.5f32.to_bits()), V::Float((-0f32).to_bits()), V::Float(0x7fc0_0000), V::Float(0x7fa0_0001)];
            if full {
                v.extend([V::Float(0xffc1_2345), V::Float(f32::MAX.to_bits()), V::Float(f32::MIN.to_bits()), V::Float(f32::INFINITY.to_bits()), V::Float(f32::NEG_INFINITY.to_bits()), V::Float(1)]);
            }
            v
        }
        Native::Double => {
            let mut v = vec![V::Double(0f64.to_bits()), V::Double(1.5f64.to_bits()), V::Double((-0f64).to_bits()), V::Double(0x7ff8_0000_0000_0000), V::Double(0x7ff4_0000_0000_0001)];
            if full {
                v.extend([
                    V::Double(0xfff8_1234_5678_9abc),
                    V::Double(f64::MAX.to_bits()),
                    V::Double(f64::MIN.to_bits()),
                    V::Double(f64::INFINITY.to_bits()),
                    V::Double(f64::NEG_INFINITY.to_bits()),
                    V::Double(1),
                ]);
            }
            v
        }
        Native::Text => {
            let mut v = vec![V::Text(s("a")), V::Text(s("")), V::Text(s("za\u{17c}\u{f3}\u{142}\u{107} \u{20ac} \u{1f600}")), V::Text("x".repeat(128))];
            if full {
                v.extend([V::Text(s("ala ma kota")), V::Text(s("\0")), V::Text("y".repeat(127)), V::Text("\u{20ac}".repeat(5462))]);
                // 16386 bytes: 3-byte vint length inside vectors
            }
            v
        }
        Native::Ascii => {
            let mut v = vec![V::Ascii(s("a")), V::Ascii(s("")), V::Ascii("~".repeat(128))];
            if full {
                v.extend([V::Ascii(s("ala ma kota")), V::Ascii("\u{7f}".repeat(127))]);
            }
            v
        }
        Native::Blob => {
            let mut v = vec![V::Blob(vec![1]), V::Blob(vec![]), V::Blob(vec![0xff; 128])];
            if full {
                v.extend([V::Blob(vec![0]), V::Blob((0..127).collect()), V::Blob(vec![0x80, 0x00, 0xff, 0xfe])]);
            }
            v
        }
        Native::Inet => {
            let mut v = vec![V::Inet(vec![127, 0, 0, 1]), V::Inet(vec![0; 16]), V::Inet((1..=16).collect())];
            if full {
                let mut mapped = vec![0u8; 10];
                mapped.extend([0xff, 0xff, 1, 2, 3, 4]);
                let mut lo = vec![0u8; 15];
                lo.push(1);
                v.extend([V::Inet(vec![0, 0, 0, 0]), V::Inet(vec![255; 4]), V::Inet(lo), V::Inet(mapped), V::Inet(vec![255; 16])]);
            }
            v
        }
        Native::Uuid => {
            let seq: [u8; 16] = core::array::from_fn(|i| i as u8 + 1);
            let mut v = vec![V::Uuid(seq), V::Uuid([0; 16]), V::Uuid([0xff; 16])];
            if full {
                v.push(V::Uuid([0x8e, 0x14, 0xe7, 0x60, 0x7f, 0xa8, 0x4b, 0xbc, 0x9a, 0x83, 0x0c, 0x10, 0xab, 0xcd, 0xef, 0x01]));
            }
            v
        }
        Native::Timeuuid => {
            // a v1 uuid, nil, a non-v1 bit pattern (the crate's Eq masks the version nibble: must still round-trip bitwise)
            let v1 = [0x8e, 0x14, 0xe7, 0x60, 0x7f, 0xa8, 0x11, 0xeb, 0xbc, 0x66, 0x00, 0x00, 0x00, 0x00, 0x00, 0x01];
            let mut v4 = v1;
            v4[6] = 0x41;
            let mut v = vec![V::Timeuuid(v1), V::Timeuuid([0; 16]), V::Timeuuid(v4)];
            if full {
                v.extend([V::Timeuuid([0xff; 16]), V::Timeuuid(core::array::from_fn(|i| 0x80 + i as u8))]);
            }
            v
        }
        Native::Date => {
            let mut v = vec![V::Date(1 << 31), V::Date(0), V::Date(u32::MAX)];
            if full {
                v.extend([V::Date(1), V::Date((1 << 31) - 1), V::Date((1 << 31) + 1), V::Date(0x01020304)]);
            }
            v
        }
        Native::Time => {
            let mut v = vec![V::Time(0), V::Time(1), V::Time(86_399_999_999_999)];
            if full {
                v.extend([V::Time(3_600_000_000_000), V::Time(0x0000_0102_0304_0506)]);
            }
            v
        }
        Native::Duration => {
            let d = |months: i32, days: i32, nanos: i64| V::Duration { months, days, nanos };
            let mut v = vec![d(0, 0, 0), d(1, 2, 3), d(-1, -2, -3), d(i32::MAX, i32::MAX, i64::MAX), d(i32::MIN, i32::MIN, i64::MIN)];
            if full {
                // every vint length 1..9 at both edges, for the 64-bit field and (up to 5 bytes) the 32-bit fields
                for nbytes in 1..=8u32 {
                    let edge = 1i64 << (7 * nbytes - 1); // smallest positive value needing nbytes+1 bytes
                    v.push(d(0, 0, edge - 1));
                    v.push(d(0, 0, edge));
                    v.push(d(0, 0, -edge));
                    v.push(d(0, 0, -edge - 1));
                    if edge <= i32::MAX as i64 {
                        v.push(d((edge - 1) as i32, edge as i32, 0));
                        v.push(d(-(edge as i32), -(edge as i32) - 1, 0));
                    }
                }
                v.push(d(i32::MAX, 0, 0));
                v.push(d(0, i32::MIN, 0));
            }
            v.dedup();
            v
        }
        Native::Varint => {
            let mut v = vec![V::Varint(vec![1]), V::Varint(vec![]), V::Varint(vec![0x00, 0x80]), V::Varint(vec![0xff]), V::Varint(vec![0x00, 0x01])];
            if full {
                v.extend([
                    V::Varint(vec![0]),
                    V::Varint(vec![0x7f]),
                    V::Varint(vec![0x80]),
                    V::Varint(vec![0xff, 0x7f]),
                    V::Varint(vec![0xff, 0xff, 0x80]),
                    V::Varint(vec![0, 0, 0]),
                    V::Varint((1..=17).collect()),
                    V::Varint(vec![0x5a; 130]),
                ]);
            }
            v
        }
        Native::Decimal => {
            let d = |scale: i32, u: &[u8]| V::Decimal { scale, unscaled: u.to_vec() };
            // incl. the minimal-length shape: a scale followed by ZERO digit bytes (4 bytes on the wire; `CqlDecimal` built from an
            // empty digit vector is sent as is)
            let mut v = vec![d(0, &[1]), d(7, &[]), d(-1, &[0xff]), d(i32::MAX, &[0x00, 0x80]), d(i32::MIN, &[0])];
            if full {
                v.extend([d(0, &[]), d(-3, &[]), d(1, &[0x7f]), d(2, &[0x00, 0x01]), d(-7, &[0xff, 0x7f]), d(0x01020304, &[9, 8, 7, 6, 5, 4, 3, 2, 1, 0, 1, 2, 3, 4, 5, 6, 7])]);
            }
            v
        }
    }
}

/// Must a conforming binder accept the zero-length "empty" value for this type?
/// natives except counter and duration: yes (ScyllaDB's set, which the crate documents as its own);
/// everything else: undetermined - if accepted, the cell must be zero-length and decode to `Empty`.
pub fn empty_must_be_accepted(t: &Type) -> bool {
    matches!(t, Type::Native(n) if !matches!(n, Native::Counter | Native::Duration))
}

fn lines(alphs: &[Vec<Value>]) -> Vec<Vec<Value>> {
    // base line (first of each) + every single-position alternative
    let base: Vec<Value> = alphs.iter().map(|a| a[0].clone()).collect();
    let mut out = vec![base.clone()];
    for (i, a) in alphs.iter().enumerate() {
        for alt in a.iter().skip(1) {
            let mut l = base.clone();
            l[i] = alt.clone();
            out.push(l);
        }
    }
    out
}

/// Valid non-null values of `t`; `level` is the nesting level of `t` below the bound column (0 = the column).
pub fn alphabet(t: &Type, level: usize) -> Vec<Value> {
    let mut out: Vec<Value> = match t {
        Type::Native(n) => {
            let mut v = native_alphabet(*n, level <= FULL_ALPHABET_LEVEL.load(std::sync::atomic::Ordering::Relaxed));
            if empty_must_be_accepted(t) && !n.is_stringish() {
                v.push(Value::Empty);
            }
            v
        }
        Type::List(et) | Type::Set(et) => {
            let is_list = matches!(t, Type::List(_));
            let mk = |xs: Vec<Value>| if is_list { Value::List(xs) } else { Value::Set(xs) };
            let el = alphabet(et, level + 1);
            let mut v = vec![mk(vec![])];
            for e in &el {
                v.push(mk(vec![e.clone()]));
            }
            if el.len() >= 2 {
                v.push(mk(vec![el[0].clone(), el[1].clone()]));
            }
            if el.len() >= 3 {
                v.push(mk(vec![el[2].clone(), el[0].clone(), el[1].clone()]));
            }
            if is_list {
                v.push(mk(vec![el[0].clone(), Value::Null]));
                v.push(mk(vec![el[0].clone(), el[0].clone()]));
            }
            v
        }
        Type::Map(kt, vt) => {
            let ks = alphabet(kt, level + 1);
            let vs = alphabet(vt, level + 1);
            let mut v = vec![Value::Map(vec![])];
            for k in &ks {
                v.push(Value::Map(vec![(k.clone(), vs[0].clone())]));
            }
            for x in vs.iter().skip(1) {
                v.push(Value::Map(vec![(ks[0].clone(), x.clone())]));
            }
            if ks.len() >= 2 {
                v.push(Value::Map(vec![(ks[0].clone(), vs[0].clone()), (ks[1].clone(), vs[vs.len().min(2) - 1].clone())]));
                v.push(Value::Map(vec![(ks[1].clone(), vs[0].clone()), (ks[0].clone(), Value::Null)]));
            }
            v
        }
        Type::Tuple(ts) => {
            if ts.is_empty() {
                return vec![Value::Tuple(vec![])];
            }
            let alphs: Vec<Vec<Value>> = ts.iter().map(|x| alphabet(x, level + 1)).collect();
            let ls = lines(&alphs);
            let base = ls[0].clone();
            let mut v: Vec<Value> = ls.into_iter().map(Value::Tuple).collect();
            let n = ts.len();
            for mask in 1u32..(1 << n) {
                let mut l = base.clone();
                for (i, x) in l.iter_mut().enumerate() {
                    if mask & (1 << i) != 0 {
                        *x = Value::Null;
                    }
                }
                v.push(Value::Tuple(l));
            }
            for len in 0..n {
                v.push(Value::Tuple(base[..len].to_vec()));
            }
            v
        }
        Type::Udt { fields, .. } => {
            if fields.is_empty() {
                return vec![Value::Udt(vec![])];
            }
            let alphs: Vec<Vec<Value>> = fields.iter().map(|(_, x)| alphabet(x, level + 1)).collect();
            let name = |l: Vec<Value>| -> Vec<(String, Value)> { fields.iter().map(|(n, _)| n.clone()).zip(l).collect() };
            let ls = lines(&alphs);
            let base = ls[0].clone();
            let mut v: Vec<Value> = ls.into_iter().map(|l| Value::Udt(name(l))).collect();
            let n = fields.len();
            if n >= 2 {
                let mut rev = name(base.clone());
                rev.reverse();
                v.push(Value::Udt(rev));
            }
            for mask in 1u32..(1 << n) {
                // explicit nulls
                let mut l = base.clone();
                for (i, x) in l.iter_mut().enumerate() {
                    if mask & (1 << i) != 0 {
                        *x = Value::Null;
                    }
                }
                v.push(Value::Udt(name(l)));
                // omitted fields
                let kept: Vec<(String, Value)> = name(base.clone()).into_iter().enumerate().filter(|(i, _)| mask & (1 << i) == 0).map(|(_, p)| p).collect();
                v.push(Value::Udt(kept));
            }
            v
        }
        Type::Vector(et, dim) => {
            let el: Vec<Value> = alphabet(et, level + 1).into_iter().filter(|x| !matches!(x, Value::Empty | Value::Null)).collect();
            // a 0-dimensional inner vector has a zero-length body: it *is* the empty value; keep it (its bytes are well defined)
            if *dim == 0 {
                return vec![Value::Vector(vec![])];
            }
            let alphs: Vec<Vec<Value>> = (0..*dim).map(|_| el.clone()).collect();
            let mut v: Vec<Value> = lines(&alphs).into_iter().map(Value::Vector).collect();
            if *dim >= 2 && el.len() >= 2 {
                v.push(Value::Vector((0..*dim as usize).map(|i| el[(i + 1) % el.len()].clone()).collect()));
            }
            v
        }
    };
    // distinct, order kept
    let mut seen = std::collections::HashSet::new();
    out.retain(|x| seen.insert(x.clone()));
    out
}

#[derive(Clone, Copy, Debug, PartialEq, Eq)]
pub enum Accept {
    /// a valid value of the type: must be accepted
    Must,
    /// acceptance undetermined (zero-length empty for a type outside the must-set); if accepted the bytes are checked
    May,
}

/// All cases for a bound column of type `t`: the alphabet + null + not-set + empty.
pub fn top_cases(t: &Type) -> Vec<(Value, Accept)> {
    let mut v: Vec<(Value, Accept)> = alphabet(t, 0).into_iter().map(|x| (x, Accept::Must)).collect();
    v.push((Value::Null, Accept::Must));
    v.push((Value::Unset, Accept::Must));
    if !v.iter().any(|(x, _)| *x == Value::Empty) {
        v.push((Value::Empty, if empty_must_be_accepted(t) { Accept::Must } else { Accept::May }));
    }
    v
}

// ------------------------------------------------------------------------------------------------
// JSON forms (replay artefacts, samples)

pub fn value_to_json(v: &Value) -> J {
    use Value as V;
    let hex = |b: &[u8]| J::String(vcore::hex(b));
    match v {
        V::Null => json!("Null"),
        V::Unset => json!("Unset"),
        V::Empty => json!("Empty"),
        V::Ascii(x) => json!({"Ascii": x}),
        V::Text(x) => json!({"Text": x}),
        V::Blob(b) => json!({"Blob": hex(b)}),
        V::Boolean(b) => json!({"Boolean": b}),
        V::TinyInt(x) => json!({"TinyInt": x}),
        V::SmallInt(x) => json!({"SmallInt": x}),
        V::Int(x) => json!({"Int": x}),
        V::BigInt(x) => json!({"BigInt": x}),
        V::Counter(x) => json!({"Counter": x}),
        V::Float(b) => json!({"FloatBits": b}),
        V::Double(b) => json!({"DoubleBits": b}),
        V::Date(x) => json!({"Date": x}),
        V::Time(x) => json!({"Time": x}),
        V::Timestamp(x) => json!({"Timestamp": x}),
        V::Duration { months, days, nanos } => json!({"Duration": [months, days, nanos]}),
        V::Inet(b) => json!({"Inet": hex(b)}),
        V::Uuid(b) => json!({"Uuid": hex(b)}),
        V::Timeuuid(b) => json!({"Timeuuid": hex(b)}),
        V::Varint(b) => json!({"Varint": hex(b)}),
        V::Decimal { scale, unscaled } => json!({"Decimal": [scale, hex(unscaled)]}),
        V::List(xs) => json!({"List": xs.iter().map(value_to_json).collect::<Vec<_>>()}),
        V::Set(xs) => json!({"Set": xs.iter().map(value_to_json).collect::<Vec<_>>()}),
        V::Vector(xs) => json!({"Vector": xs.iter().map(value_to_json).collect::<Vec<_>>()}),
        V::Tuple(xs) => json!({"Tuple": xs.iter().map(value_to_json).collect::<Vec<_>>()}),
        V::Map(kvs) => json!({"Map": kvs.iter().map(|(k, x)| json!([value_to_json(k), value_to_json(x)])).collect::<Vec<_>>()}),
        V::Udt(fs) => json!({"Udt": fs.iter().map(|(n, x)| json!([n, value_to_json(x)])).collect::<Vec<_>>()}),
    }
}

pub fn value_from_json(j: &J) -> Result<Value, String> {
    use Value as V;
    if let Some(sv) = j.as_str() {
        return match sv {
            "Null" => Ok(V::Null),
            "Unset" => Ok(V::Unset),
            "Empty" => Ok(V::Empty),
            o => Err(format!("bad value tag {o:?}")),
        };
    }
    let obj = j.as_object().ok_or("value must be a string or object")?;
    let (tag, x) = obj.iter().next().ok_or("empty object")?;
    let i = |x: &J| x.as_i64().ok_or_else(|| format!("{tag}: integer expected"));
    let u = |x: &J| x.as_u64().ok_or_else(|| format!("{tag}: unsigned expected"));
    let h = |x: &J| x.as_str().map(vcore::unhex).ok_or_else(|| format!("{tag}: hex string expected"));
    let st = |x: &J| x.as_str().map(|q| q.to_string()).ok_or_else(|| format!("{tag}: string expected"));
    let arr = |x: &J| x.as_array().cloned().ok_or_else(|| format!("{tag}: array expected"));
    let many = |x: &J| -> Result<Vec<Value>, String> { arr(x)?.iter().map(value_from_json).collect() };
    let a16 = |b: Vec<u8>| <[u8; 16]>::try_from(b).map_err(|_| "16 bytes expected".to_string());
    Ok(match tag.as_str() {
        "Ascii" => V::Ascii(st(x)?),
        "Text" => V::Text(st(x)?),
        "Blob" => V::Blob(h(x)?),
        "Boolean" => V::Boolean(x.as_bool().ok_or("bool expected")?),
        "TinyInt" => V::TinyInt(i(x)? as i8),
        "SmallInt" => V::SmallInt(i(x)? as i16),
        "Int" => V::Int(i(x)? as i32),
        "BigInt" => V::BigInt(i(x)?),
        "Counter" => V::Counter(i(x)?),
        "FloatBits" => V::Float(u(x)? as u32),
        "DoubleBits" => V::Double(u(x)?),
        "Date" => V::Date(u(x)? as u32),
        "Time" => V::Time(i(x)?),
        "Timestamp" => V::Timestamp(i(x)?),
        "Duration" => {
            let a = arr(x)?;
            V::Duration { months: i(&a[0])? as i32, days: i(&a[1])? as i32, nanos: i(&a[2])? }
        }
        "Inet" => V::Inet(h(x)?),
        "Uuid" => V::Uuid(a16(h(x)?)?),
        "Timeuuid" => V::Timeuuid(a16(h(x)?)?),
        "Varint" => V::Varint(h(x)?),
        "Decimal" => {
            let a = arr(x)?;
            V::Decimal { scale: i(&a[0])? as i32, unscaled: h(&a[1])? }
        }
        "List" => V::List(many(x)?),
        "Set" => V::Set(many(x)?),
        "Vector" => V::Vector(many(x)?),
        "Tuple" => V::Tuple(many(x)?),
        "Map" => V::Map(arr(x)?.iter().map(|p| Ok((value_from_json(&p[0])?, value_from_json(&p[1])?))).collect::<Result<_, String>>()?),
        "Udt" => V::Udt(arr(x)?.iter().map(|p| Ok((p[0].as_str().ok_or("field name")?.to_string(), value_from_json(&p[1])?))).collect::<Result<_, String>>()?),
        o => return Err(format!("bad value tag {o:?}")),
    })
}

/// Short human rendering (long strings/blobs abbreviated) for violation texts.
pub fn brief(v: &Value) -> String {
    let s = format!("{v:?}");
    if s.chars().count() > 300 { format!("{}...({} chars)", s.chars().take(300).collect::<String>(), s.chars().count()) } else { s }
}
