//! C01 leg `dyn`: every enumerated (column type, value) through the dynamic value type `CqlValue`.
//!
//! Per case (simplest first):
//!   1. reference: `crate::refvalue::encode` -> cell; `decode(encode) == canon` (reference self-consistency, exit 2 if not);
//!   2. driver bytes through `SerializedValues::add_value` and through `SerializeValue::serialize` + `CellWriter`
//!      (also wrapped in `Option::Some` / `MaybeUnset::Set`; null via `Option::None`, not-set via `Unset` and
//!      `MaybeUnset::Unset`) must equal the reference cell incl. the 4-byte length / -1 / -2;
//!      `element_count() == iter().count() == 1`;
//!   3. `type_check` + `deserialize` of the driver's bytes as `Option<CqlValue>` must give `canon(type, value)`
//!      (bitwise; UDT keyspace/name preserved);
//!   4. for types containing a UDT: the alternative valid encoding with trailing null fields omitted must decode
//!      to what the reference decoder says (padding with nulls).
//! A failing composite case is shrunk to its smallest failing sub-(type, value); the violation key is
//! `<check>:<shape of that type>`.

use crate::dynconv::*;
use crate::types;
use crate::values::{self, Accept};
use crate::refvalue::{self as refv, Cell, EncodeOpts, Type, Value};
use scylla_cql_core::value::{CqlValue, MaybeUnset, Unset};
use serde_json::json;
use std::sync::atomic::{AtomicU64, Ordering};
use vcore::{Report, catch};

pub struct Failure {
    pub check: &'static str,
    pub what: String,
}

fn fail(check: &'static str, what: String) -> Result<(), Failure> {
    Err(Failure { check, what })
}

#[derive(Default)]
pub struct Stats {
    pub accepted: AtomicU64,
    pub may_rejected: AtomicU64,
    pub not_representable: AtomicU64,
    pub alt_decodes: AtomicU64,
    pub padded_or_aliased: AtomicU64,
    pub rebinds: AtomicU64,
}

/// False where the canonical form holds the empty value at a zero-field UDT (not a CQL type: CREATE TYPE needs a field).
fn rebindable(t: &Type, canon: &Value) -> bool {
    if *canon == Value::Empty {
        return !matches!(t, Type::Udt { fields, .. } if fields.is_empty());
    }
    refv::children(t, canon).into_iter().all(|(ct, cv)| rebindable(ct, cv))
}

fn contains_udt(t: &Type) -> bool {
    match t {
        Type::Native(_) => false,
        Type::List(e) | Type::Set(e) | Type::Vector(e, _) => contains_udt(e),
        Type::Map(k, v) => contains_udt(k) || contains_udt(v),
        Type::Tuple(ts) => ts.iter().any(contains_udt),
        Type::Udt { .. } => true,
    }
}

fn hex_brief(b: &[u8]) -> String {
    if b.len() <= 96 { vcore::hex(b) } else { format!("{}..({} bytes)", vcore::hex(&b[..96]), b.len()) }
}

/// One (type, value) case. `Ok(true)` = exercised, `Ok(false)` = skipped (not representable / may-rejected).
pub fn check_case(t: &Type, v: &Value, acc: Accept, st: &Stats) -> Result<bool, Failure> {
    let ct = column_type(t);
    let cell = match refv::encode(t, v) {
        Ok(c) => c,
        Err(e) => vcore::machinery_error(&format!("enumerator produced a value the reference rejects: {t} {v:?}: {e}")),
    };
    let framed = cell.framed();
    let want: Option<Value> = if *v == Value::Unset {
        None
    } else {
        let c = refv::canon(t, v).unwrap_or_else(|e| vcore::machinery_error(&format!("canon({t}, {v:?}): {e}")));
        match refv::decode(t, &cell) {
            Ok(d) if d == c => {}
            other => vcore::machinery_error(&format!("reference inconsistent for {t} {v:?}: decode(encode) = {other:?}, canon = {c:?}")),
        }
        Some(c)
    };

    // ---- serialize
    type Ser = ((SerResult, u16, usize), SerResult);
    let mut runs: Vec<(&'static str, Result<Ser, String>)> = Vec::new();
    match v {
        Value::Null => {
            let x: Option<CqlValue> = None;
            runs.push(("Option<CqlValue>::None", catch(|| (ser_add_value(&x, &ct), ser_cell_writer(&x, &ct)))));
        }
        Value::Unset => {
            runs.push(("Unset", catch(|| (ser_add_value(&Unset, &ct), ser_cell_writer(&Unset, &ct)))));
            let x: MaybeUnset<CqlValue> = MaybeUnset::Unset;
            runs.push(("MaybeUnset<CqlValue>::Unset", catch(|| (ser_add_value(&x, &ct), ser_cell_writer(&x, &ct)))));
        }
        _ => {
            let Some(cv) = to_cql(t, v) else {
                st.not_representable.fetch_add(1, Ordering::Relaxed);
                return Ok(false);
            };
            runs.push(("CqlValue", catch(|| (ser_add_value(&cv, &ct), ser_cell_writer(&cv, &ct)))));
            let some = Some(cv.clone());
            runs.push(("Option<CqlValue>::Some", catch(|| (ser_add_value(&some, &ct), ser_cell_writer(&some, &ct)))));
            let set = MaybeUnset::Set(cv);
            runs.push(("MaybeUnset<CqlValue>::Set", catch(|| (ser_add_value(&set, &ct), ser_cell_writer(&set, &ct)))));
        }
    }
    let mut driver_bytes: Option<Vec<u8>> = None;
    for (carrier, run) in runs {
        let ((add, count, iterated), cw) = match run {
            Ok(x) => x,
            Err(p) => return fail("panic-serialize", format!("serializing {} as {carrier} into {t} panicked at {}: {p}", values::brief(v), vcore::last_panic_location())).map(|_| true),
        };
        if acc == Accept::May && (add.is_err() || cw.is_err()) {
            if add.is_err() != cw.is_err() {
                return fail("accept-inconsistent", format!("{carrier} into {t}: add_value and serialize() disagree on acceptance: {add:?} vs {cw:?}")).map(|_| true);
            }
            if count != 0 || iterated != 0 {
                return fail("count-after-reject", format!("{carrier} into {t}: refused but element_count={count}, iter().count()={iterated}")).map(|_| true);
            }
            st.may_rejected.fetch_add(1, Ordering::Relaxed);
            return Ok(false);
        }
        let add_bytes = match add {
            Ok(b) => b,
            Err(e) => return fail("reject", format!("a valid value was refused: {} as {carrier} into {t}: {e}", values::brief(v))).map(|_| true),
        };
        if add_bytes != framed {
            return fail("encode", format!("{} as {carrier} bound to {t} (add_value): driver bytes {} != CQL v4 encoding {}", values::brief(v), hex_brief(&add_bytes), hex_brief(&framed))).map(|_| true);
        }
        if count != 1 || iterated != 1 {
            return fail("count", format!("{carrier} into {t}: one value added but element_count={count}, iter().count()={iterated}")).map(|_| true);
        }
        match cw {
            Ok(b) if b == framed => {}
            Ok(b) => return fail("encode-cellwriter", format!("{} as {carrier} into {t} (CellWriter): driver bytes {} != CQL v4 encoding {}", values::brief(v), hex_brief(&b), hex_brief(&framed))).map(|_| true),
            Err(e) => return fail("reject", format!("a valid value was refused by serialize(): {} as {carrier} into {t}: {e}", values::brief(v))).map(|_| true),
        }
        driver_bytes = Some(add_bytes);
    }
    st.accepted.fetch_add(1, Ordering::Relaxed);

    // ---- deserialize the driver's own bytes
    if let (Some(want), Some(bytes)) = (&want, &driver_bytes) {
        decode_and_compare(t, &ct, bytes, want, "roundtrip", v)?;
        if want != v {
            st.padded_or_aliased.fetch_add(1, Ordering::Relaxed);
            // The decoded value is "an equal value" of the same type: it must itself bind to that type, with the
            // reference encoding of the canonical form (a tuple given zero fields comes back as the zero-length
            // empty value, so empty must be writable for the tuple type; a short tuple comes back padded).
            if rebindable(t, want) {
                if let Some(cv2) = to_cql(t, want) {
                    let want_bytes = refv::encode(t, want).unwrap_or_else(|e| vcore::machinery_error(&format!("reference rejects canonical form {want:?} of {t}: {e}"))).framed();
                    match catch(std::panic::AssertUnwindSafe(|| ser_cell_writer(&cv2, &ct))) {
                        Err(p) => return fail("panic-serialize", format!("re-binding the decoded value {} to {t} panicked: {p}", values::brief(want))).map(|_| true),
                        Ok(Err(e)) => {
                            return fail("rebind-decoded", format!("{} bound to {t} decodes to {}, which can not be bound to the same type again: {e}", values::brief(v), values::brief(want))).map(|_| true);
                        }
                        Ok(Ok(b)) => {
                            if b != want_bytes {
                                return fail("rebind-decoded", format!("{} bound to {t} decodes to {}; binding that again gives {} instead of {}", values::brief(v), values::brief(want), hex_brief(&b), hex_brief(&want_bytes))).map(|_| true);
                            }
                            st.rebinds.fetch_add(1, Ordering::Relaxed);
                        }
                    }
                }
            }
        }
        // ---- alternative valid encoding (short UDTs)
        if contains_udt(t) {
            if let Ok(alt) = refv::encode_with(t, v, EncodeOpts { udt_drop_trailing_nulls: true }) {
                let alt_framed = alt.framed();
                if alt_framed != framed {
                    let want_alt = refv::decode(t, &alt).unwrap_or_else(|e| vcore::machinery_error(&format!("reference cannot decode its own short-UDT encoding of {t} {v:?}: {e}")));
                    decode_and_compare(t, &ct, &alt_framed, &want_alt, "decode-short-udt", v)?;
                    st.alt_decodes.fetch_add(1, Ordering::Relaxed);
                }
            }
        }
    }
    Ok(true)
}

fn decode_and_compare(t: &Type, ct: &scylla_cql_core::frame::response::result::ColumnType<'static>, framed: &[u8], want: &Value, check: &'static str, v: &Value) -> Result<(), Failure> {
    let body = match unframe(framed) {
        Ok(b) => b,
        Err(e) => return fail("encode", format!("driver cell for {t} is not a well-formed [value]: {e}")),
    };
    let got = match catch(|| deser_dynamic(ct, body)) {
        Ok(g) => g,
        Err(p) => return fail("panic-deserialize", format!("deserializing {} against {t} panicked at {}: {p}", hex_brief(framed), vcore::last_panic_location())),
    };
    match got {
        Err(e) => fail(
            if check == "roundtrip" { "decode-error" } else { "decode-short-udt-error" },
            format!("bytes {} (encoding of {} for {t}) do not decode against the same type: {e}", hex_brief(framed), values::brief(v)),
        ),
        Ok((val, ident)) => {
            if &val != want {
                return fail(check, format!("{} bound to {t} -> {} decodes to {} but must be {}", values::brief(v), hex_brief(framed), values::brief(&val), values::brief(want)));
            }
            if let (Some((ks, name)), Type::Udt { keyspace, name: tname, .. }) = (ident, t) {
                if &ks != keyspace || &name != tname {
                    return fail(check, format!("decoded UDT identity {ks}.{name} != type's {keyspace}.{tname}"));
                }
            }
            Ok(())
        }
    }
}

/// Run a case; on failure descend into the smallest failing sub-case and report that one.
pub fn run_and_report(r: &Report, t: &Type, v: &Value, acc: Accept, st: &Stats) -> bool {
    match check_case(t, v, acc, st) {
        Ok(exercised) => exercised,
        Err(f) => {
            let (st_t, st_v, f) = shrink(t.clone(), v.clone(), f, st);
            r.violation(
                &format!("{}:{}", f.check, st_t.shape()),
                &f.what,
                json!({"leg": "dyn", "type": st_t.to_string(), "value": values::value_to_json(&st_v), "found_in": t.to_string(), "frozen": frozen_mode()}),
            );
            true
        }
    }
}

fn shrink(t: Type, v: Value, f: Failure, st: &Stats) -> (Type, Value, Failure) {
    for (ct, cv) in refv::children(&t, &v) {
        if matches!(cv, Value::Null | Value::Unset) {
            continue;
        }
        if let Err(cf) = check_case(ct, cv, Accept::Must, st) {
            return shrink(ct.clone(), cv.clone(), cf, st);
        }
    }
    (t, v, f)
}

enum Work {
    Single(Type),
    /// all types derived from this one (one level deeper), and, if `deeper`, two levels deeper
    Derived(Type, bool),
    /// thorough: constructors applied `n` more times (partners int/text, vector dim 2) to this type
    Deep(Type, usize),
}

pub fn run(r: &Report) {
    let thorough = r.tier().is_thorough();
    if thorough {
        values::FULL_ALPHABET_LEVEL.store(2, Ordering::Relaxed);
    }
    r.note("full_native_alphabet_down_to_level", json!(values::FULL_ALPHABET_LEVEL.load(Ordering::Relaxed)));
    let st = Stats::default();
    let n_ref = refv::self_test().unwrap_or_else(|e| vcore::machinery_error(&format!("crate::refvalue fails its pinned vectors: {e}")));
    r.note("reference_pinned_vectors_checked", json!(n_ref));

    let int_text = vec![types::nat(refv::Native::Int), types::nat(refv::Native::Text)];
    let partners: Vec<Type> = if thorough { types::natives() } else { [refv::Native::Int, refv::Native::Text, refv::Native::Varint, refv::Native::Boolean].iter().map(|n| types::nat(*n)).collect() };
    let dims_d2: Vec<u16> = vec![0, 1, 2, 3];

    let mut work: Vec<Work> = Vec::new();
    for t in types::natives() {
        work.push(Work::Single(t));
    }
    let d1 = types::depth1();
    for t in &d1 {
        work.push(Work::Single(t.clone()));
    }
    for t in &d1 {
        work.push(Work::Derived(t.clone(), false));
    }
    let mut d3_roots = 0usize;
    let mut d4_items = 0usize;
    if thorough {
        // every arity-3 tuple / UDT over all natives (quick has the triples over six representatives)
        for t in types::depth1_over(&types::natives(), &[], false) {
            if matches!(&t, Type::Tuple(ts) if ts.len() == 3) || matches!(&t, Type::Udt { fields, .. } if fields.len() == 3) {
                if !d1.contains(&t) {
                    work.push(Work::Single(t));
                }
            }
        }
        // depth 3: constructors applied three times over the class representatives int / text
        let reps3 = types::class_reps6();
        for t in types::depth1_over(&reps3, &[1, 2], false) {
            d3_roots += 1;
            work.push(Work::Derived(t, true));
        }
        // depth 4: constructors applied four times over int / text / varint / boolean (partners int/text)
        let reps4 = vec![types::nat(refv::Native::Int), types::nat(refv::Native::Text), types::nat(refv::Native::Varint), types::nat(refv::Native::Boolean)];
        for t in types::depth1_over(&reps4, &[1, 2], false) {
            for t2 in types::derived(&t, &int_text, &[1, 2]) {
                d4_items += 1;
                work.push(Work::Deep(t2, 2));
            }
        }
    }
    r.note("depth1_types", json!(d1.len()));
    r.note("depth3_roots", json!(d3_roots));
    r.note("depth4_work_items", json!(d4_items));
    let it4: Vec<Type> = [refv::Native::Int, refv::Native::Text, refv::Native::Varint, refv::Native::Boolean].iter().map(|n| types::nat(*n)).collect();

    let types_seen = AtomicU64::new(0);
    let max_depth = AtomicU64::new(0);
    let do_type = |t: &Type| {
        types_seen.fetch_add(1, Ordering::Relaxed);
        max_depth.fetch_max(t.depth() as u64, Ordering::Relaxed);
        let composite = t.depth() >= 1;
        let mut modes = frozen_modes_for(t);
        if !thorough {
            modes.retain(|m| *m != 2); // nested-only-frozen variant: thorough tier (and always in the static leg / C17 matrix)
        }
        for (v, acc) in values::top_cases(t) {
            for mode in &modes {
                r.eval(1);
                let exercised = with_frozen(*mode, || run_and_report(r, t, &v, acc, &st));
                if exercised && composite && *mode == 0 && !matches!(v, Value::Null | Value::Unset | Value::Empty) {
                    r.nontrivial(1);
                }
            }
        }
    };
    let slowest_item_us = AtomicU64::new(0);
    let busy_us = AtomicU64::new(0);
    vcore::par::for_each(r.args.jobs, 1, work.into_iter(), |w| {
        let t0 = std::time::Instant::now();
        match w {
        Work::Single(t) => do_type(&t),
        Work::Deep(t2, _) => {
            for t3 in types::derived(&t2, &int_text, &[2]) {
                for t4 in types::derived(&t3, &int_text, &[2]) {
                    do_type(&t4);
                }
            }
        }
        Work::Derived(inner, deeper) => {
            let ds = if deeper { types::derived(&inner, &it4, &[1, 2]) } else { types::derived(&inner, &partners, &dims_d2) };
            for t2 in ds {
                if deeper {
                    for t3 in types::derived(&t2, &it4, &[2]) {
                        do_type(&t3);
                    }
                } else {
                    do_type(&t2);
                }
            }
        }
        }
        let us = t0.elapsed().as_micros() as u64;
        slowest_item_us.fetch_max(us, Ordering::Relaxed);
        busy_us.fetch_add(us, Ordering::Relaxed);
    });
    r.note("slowest_work_item_ms", json!(slowest_item_us.load(Ordering::Relaxed) / 1000));
    r.note("sum_work_item_ms", json!(busy_us.load(Ordering::Relaxed) / 1000));

    r.counters.add("column_types", types_seen.load(Ordering::Relaxed));
    r.counters.add("cases_accepted_and_compared", st.accepted.load(Ordering::Relaxed));
    r.counters.add("cases_empty_refused_where_undetermined", st.may_rejected.load(Ordering::Relaxed));
    r.counters.add("cases_not_expressible_as_CqlValue", st.not_representable.load(Ordering::Relaxed));
    r.counters.add("cases_with_padded_or_aliased_canonical_form", st.padded_or_aliased.load(Ordering::Relaxed));
    r.counters.add("short_udt_alternative_encodings_decoded", st.alt_decodes.load(Ordering::Relaxed));
    r.counters.add("decoded_canonical_forms_bound_again", st.rebinds.load(Ordering::Relaxed));
    r.note("max_type_depth", json!(max_depth.load(Ordering::Relaxed)));
    r.set_rule(
        "E-ENUM, dynamic value type. Column types: 20 natives; depth 1 = list/set/vector(dim 0..3) of every native, map of every native pair, tuple+UDT arity 0,1,2 (all), 3 (all triples over int,text,boolean,varint,uuid,duration + (n,int,text)); depth 2 = list/set/vector/map/tuple/UDT constructors over every depth-1 type with partner types {int,text,varint,boolean} (quick) or all natives (thorough), vector dim 0..3; thorough adds all 8000 arity-3 tuples and UDTs over the natives, depth 3 (constructors applied three times, partners int/text/varint/boolean) over the six class representatives int/text/boolean/varint/uuid/duration, depth 4 (four times, partners int/text) over int/text/varint/boolean, and uses the full native alphabets down to nesting level 2. Values per type: the listed boundary alphabet (numeric MIN/-1/0/1/MAX, NaN payloads, -0.0, multi-byte UTF-8, strings/blobs of 0/1/127/128/16386 bytes, durations at every vint length 1..9, non-normalised and zero-length varints, decimals with negative scale), every container shape (empty, each singleton, pair, triple; every tuple/UDT position x every value, every null pattern, every shorter tuple, every UDT omission pattern, reversed UDT naming order), null, not-set, zero-length empty. Oracle: crate::refvalue (bytes equal incl. length prefix; decode == canonical form). distinct_nontrivial = accepted cases of composite types with a non-null, non-empty value.",
    );
    r.set_exhaustive(true);
    r.assume("vector element widths follow Cassandra 5.0's fixed-length table (boolean 1, int/float 4, bigint/double/timestamp 8, uuid/timeuuid 16; vector of fixed = width x dim); everything else is unsigned-vint length prefixed");
    r.assume("values that are not values of the CQL type are not enumerated: null/empty vector elements, time outside 0..86399999999999, mixed-sign durations, non-ASCII in ascii, null inside list/set/map (the latter only through static carriers)");
    r.assume("the zero-length empty value must be accepted for every native type except counter and duration (the crate's documented ScyllaDB set); for other types acceptance is undetermined and only the bytes are checked when accepted");
    let tt = Type::Map(Box::new(types::nat(refv::Native::Text)), Box::new(Type::Tuple(vec![types::nat(refv::Native::Int), types::nat(refv::Native::Duration)])));
    let vv = Value::Map(vec![(Value::Text("k".into()), Value::Tuple(vec![Value::Null]))]);
    r.sample(json!({"type": tt.to_string(), "value": values::value_to_json(&vv), "reference_cell_hex": vcore::hex(&refv::encode(&tt, &vv).unwrap().framed()), "canonical": values::value_to_json(&refv::canon(&tt, &vv).unwrap())}));
    let tt = Type::Vector(Box::new(types::nat(refv::Native::Text)), 2);
    let vv = Value::Vector(vec![Value::Text("x".repeat(128)), Value::Text("".into())]);
    r.sample(json!({"type": tt.to_string(), "value": "['x'*128, '']", "reference_cell_hex_prefix": vcore::hex(&refv::encode(&tt, &vv).unwrap().framed()[..8])}));
}

pub fn replay(r: &Report, case: &serde_json::Value) {
    let t = refv::parse_type(case["type"].as_str().unwrap_or("")).unwrap_or_else(|e| vcore::machinery_error(&format!("replay: bad type: {e}")));
    let v = values::value_from_json(&case["value"]).unwrap_or_else(|e| vcore::machinery_error(&format!("replay: bad value: {e}")));
    let st = Stats::default();
    let acc = if v == Value::Empty && !values::empty_must_be_accepted(&t) { Accept::May } else { Accept::Must };
    println!("replaying dyn case: type {t}, value {}", values::brief(&v));
    if let Ok(c) = refv::encode(&t, &v) {
        println!("reference cell: {}", hex_brief(&c.framed()));
        if let Cell::Bytes(_) = c {
            println!("canonical decoded form: {}", values::brief(&refv::canon(&t, &v).unwrap_or(Value::Null)));
        }
    }
    r.eval(1);
    let mode = case["frozen"].as_u64().unwrap_or(0) as u8;
    with_frozen(mode, || run_and_report(r, &t, &v, acc, &st));
}
