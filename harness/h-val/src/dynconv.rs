//! C01/C17: conversions between the reference model (`crate::refvalue`) and the driver's dynamic types
//! (`ColumnType`, `CqlValue`), plus thin wrappers that drive the driver's serialize/deserialize entry points.
//! Conversions are structural and bit-preserving (floats via bits, uuids/varints via raw bytes).

use bytes::Bytes;
use crate::refvalue::{Native, Type, Value};
use scylla_cql_core::deserialize::FrameSlice;
use scylla_cql_core::deserialize::value::DeserializeValue;
use scylla_cql_core::frame::response::result::{CollectionType, ColumnType, NativeType, UserDefinedType};
use scylla_cql_core::serialize::SerializationError;
use scylla_cql_core::serialize::row::SerializedValues;
use scylla_cql_core::serialize::value::SerializeValue;
use scylla_cql_core::serialize::writers::CellWriter;
use scylla_cql_core::value::{Counter, CqlDate, CqlDecimal, CqlDuration, CqlTime, CqlTimestamp, CqlTimeuuid, CqlValue, CqlVarint};
use std::net::IpAddr;
use std::sync::Arc;

pub fn native_type(n: Native) -> NativeType {
    match n {
        Native::Ascii => NativeType::Ascii,
        Native::Boolean => NativeType::Boolean,
        Native::Blob => NativeType::Blob,
        Native::Counter => NativeType::Counter,
        Native::Date => NativeType::Date,
        Native::Decimal => NativeType::Decimal,
        Native::Double => NativeType::Double,
        Native::Duration => NativeType::Duration,
        Native::Float => NativeType::Float,
        Native::Int => NativeType::Int,
        Native::BigInt => NativeType::BigInt,
        Native::Text => NativeType::Text,
        Native::Timestamp => NativeType::Timestamp,
        Native::Inet => NativeType::Inet,
        Native::SmallInt => NativeType::SmallInt,
        Native::TinyInt => NativeType::TinyInt,
        Native::Time => NativeType::Time,
        Native::Timeuuid => NativeType::Timeuuid,
        Native::Uuid => NativeType::Uuid,
        Native::Varint => NativeType::Varint,
    }
}

thread_local! {
    /// How `column_type` sets the `frozen` flag of collections and UDTs: 0 = never (what bind markers / result
    /// metadata of top-level columns carry), 1 = everywhere, 2 = on nested ones only (what servers report for
    /// collections inside collections). The flag has no bearing on the wire format or on compatibility.
    pub static FROZEN_MODE: std::cell::Cell<u8> = const { std::cell::Cell::new(0) };
}
pub fn frozen_mode() -> u8 {
    FROZEN_MODE.with(|c| c.get())
}
pub fn with_frozen<R>(mode: u8, f: impl FnOnce() -> R) -> R {
    let old = FROZEN_MODE.with(|c| c.replace(mode));
    let r = f();
    FROZEN_MODE.with(|c| c.set(old));
    r
}
/// Modes that give a column type different from mode 0 (and from each other) for `t`.
pub fn frozen_modes_for(t: &Type) -> Vec<u8> {
    fn has_slot(t: &Type, top: bool, nested_only: bool) -> bool {
        let here = !matches!(t, Type::Native(_) | Type::Tuple(_) | Type::Vector(..)) && !(nested_only && top);
        here || match t {
            Type::Native(_) => false,
            Type::List(e) | Type::Set(e) | Type::Vector(e, _) => has_slot(e, false, nested_only),
            Type::Map(k, v) => has_slot(k, false, nested_only) || has_slot(v, false, nested_only),
            Type::Tuple(ts) => ts.iter().any(|x| has_slot(x, false, nested_only)),
            Type::Udt { fields, .. } => fields.iter().any(|(_, x)| has_slot(x, false, nested_only)),
        }
    }
    let mut m = vec![0];
    if has_slot(t, true, false) {
        m.push(1);
        let top_is_slot = !matches!(t, Type::Native(_) | Type::Tuple(_) | Type::Vector(..));
        if top_is_slot && has_slot(t, true, true) {
            m.push(2);
        }
    }
    m
}

pub fn column_type(t: &Type) -> ColumnType<'static> {
    column_type_mode(t, frozen_mode(), true)
}

fn column_type_mode(t: &Type, mode: u8, top: bool) -> ColumnType<'static> {
    let frozen = match mode {
        0 => false,
        1 => true,
        _ => !top,
    };
    let sub = |x: &Type| column_type_mode(x, mode, false);
    match t {
        Type::Native(n) => ColumnType::Native(native_type(*n)),
        Type::List(e) => ColumnType::Collection { frozen, typ: CollectionType::List(Box::new(sub(e))) },
        Type::Set(e) => ColumnType::Collection { frozen, typ: CollectionType::Set(Box::new(sub(e))) },
        Type::Map(k, v) => ColumnType::Collection { frozen, typ: CollectionType::Map(Box::new(sub(k)), Box::new(sub(v))) },
        Type::Tuple(ts) => ColumnType::Tuple(ts.iter().map(sub).collect()),
        Type::Udt { keyspace, name, fields } => ColumnType::UserDefinedType {
            frozen,
            definition: Arc::new(UserDefinedType {
                name: name.clone().into(),
                keyspace: keyspace.clone().into(),
                field_types: fields.iter().map(|(n, t)| (n.clone().into(), sub(t))).collect(),
            }),
        },
        Type::Vector(e, d) => ColumnType::Vector { typ: Box::new(sub(e)), dimensions: *d },
    }
}

pub fn ip_from(b: &[u8]) -> Option<IpAddr> {
    if let Ok(a) = <[u8; 4]>::try_from(b) {
        Some(IpAddr::from(a))
    } else if let Ok(a) = <[u8; 16]>::try_from(b) {
        Some(IpAddr::from(a))
    } else {
        None
    }
}
pub fn ip_bytes(a: &IpAddr) -> Vec<u8> {
    match a {
        IpAddr::V4(x) => x.octets().to_vec(),
        IpAddr::V6(x) => x.octets().to_vec(),
    }
}

/// Reference value -> dynamic value. `None` when `CqlValue` cannot express it (null/not-set at this
/// position, null inside list/set/map/vector).
pub fn to_cql(t: &Type, v: &Value) -> Option<CqlValue> {
    use Value as V;
    Some(match (t, v) {
        (_, V::Null) | (_, V::Unset) => return None,
        (_, V::Empty) => CqlValue::Empty,
        (_, V::Ascii(s)) => CqlValue::Ascii(s.clone()),
        (_, V::Text(s)) => CqlValue::Text(s.clone()),
        (_, V::Blob(b)) => CqlValue::Blob(b.clone()),
        (_, V::Boolean(b)) => CqlValue::Boolean(*b),
        (_, V::TinyInt(x)) => CqlValue::TinyInt(*x),
        (_, V::SmallInt(x)) => CqlValue::SmallInt(*x),
        (_, V::Int(x)) => CqlValue::Int(*x),
        (_, V::BigInt(x)) => CqlValue::BigInt(*x),
        (_, V::Counter(x)) => CqlValue::Counter(Counter(*x)),
        (_, V::Float(b)) => CqlValue::Float(f32::from_bits(*b)),
        (_, V::Double(b)) => CqlValue::Double(f64::from_bits(*b)),
        (_, V::Date(x)) => CqlValue::Date(CqlDate(*x)),
        (_, V::Time(x)) => CqlValue::Time(CqlTime(*x)),
        (_, V::Timestamp(x)) => CqlValue::Timestamp(CqlTimestamp(*x)),
        (_, V::Duration { months, days, nanos }) => CqlValue::Duration(CqlDuration { months: *months, days: *days, nanoseconds: *nanos }),
        (_, V::Inet(b)) => CqlValue::Inet(ip_from(b)?),
        (_, V::Uuid(b)) => CqlValue::Uuid(uuid::Uuid::from_bytes(*b)),
        (_, V::Timeuuid(b)) => CqlValue::Timeuuid(CqlTimeuuid::from_bytes(*b)),
        (_, V::Varint(b)) => CqlValue::Varint(CqlVarint::from_signed_bytes_be(b.clone())),
        (_, V::Decimal { scale, unscaled }) => CqlValue::Decimal(CqlDecimal::from_signed_be_bytes_and_exponent(unscaled.clone(), *scale)),
        (Type::List(et), V::List(xs)) => CqlValue::List(xs.iter().map(|x| to_cql(et, x)).collect::<Option<_>>()?),
        (Type::Set(et), V::Set(xs)) => CqlValue::Set(xs.iter().map(|x| to_cql(et, x)).collect::<Option<_>>()?),
        (Type::Vector(et, _), V::Vector(xs)) => CqlValue::Vector(xs.iter().map(|x| to_cql(et, x)).collect::<Option<_>>()?),
        (Type::Map(kt, vt), V::Map(kvs)) => CqlValue::Map(kvs.iter().map(|(k, x)| Some((to_cql(kt, k)?, to_cql(vt, x)?))).collect::<Option<_>>()?),
        (Type::Tuple(ts), V::Tuple(xs)) => {
            let mut out = Vec::new();
            for (i, x) in xs.iter().enumerate() {
                out.push(match x {
                    V::Null => None,
                    x => Some(to_cql(ts.get(i)?, x)?),
                });
            }
            CqlValue::Tuple(out)
        }
        (Type::Udt { keyspace, name, fields }, V::Udt(named)) => {
            let mut out = Vec::new();
            for (n, x) in named {
                let ft = &fields.iter().find(|(m, _)| m == n)?.1;
                out.push((
                    n.clone(),
                    match x {
                        V::Null => None,
                        x => Some(to_cql(ft, x)?),
                    },
                ));
            }
            CqlValue::UserDefinedType { keyspace: keyspace.clone(), name: name.clone(), fields: out }
        }
        _ => return None,
    })
}

/// Dynamic value -> reference value (typeless, bit-preserving). `Err` for variants this harness does not know.
pub fn from_cql(c: &CqlValue) -> Result<Value, String> {
    use Value as V;
    let many = |xs: &Vec<CqlValue>| xs.iter().map(from_cql).collect::<Result<Vec<_>, _>>();
    Ok(match c {
        CqlValue::Empty => V::Empty,
        CqlValue::Ascii(s) => V::Ascii(s.clone()),
        CqlValue::Text(s) => V::Text(s.clone()),
        CqlValue::Blob(b) => V::Blob(b.clone()),
        CqlValue::Boolean(b) => V::Boolean(*b),
        CqlValue::TinyInt(x) => V::TinyInt(*x),
        CqlValue::SmallInt(x) => V::SmallInt(*x),
        CqlValue::Int(x) => V::Int(*x),
        CqlValue::BigInt(x) => V::BigInt(*x),
        CqlValue::Counter(x) => V::Counter(x.0),
        CqlValue::Float(f) => V::Float(f.to_bits()),
        CqlValue::Double(f) => V::Double(f.to_bits()),
        CqlValue::Date(d) => V::Date(d.0),
        CqlValue::Time(d) => V::Time(d.0),
        CqlValue::Timestamp(d) => V::Timestamp(d.0),
        CqlValue::Duration(d) => V::Duration { months: d.months, days: d.days, nanos: d.nanoseconds },
        CqlValue::Inet(a) => V::Inet(ip_bytes(a)),
        CqlValue::Uuid(u) => V::Uuid(*u.as_bytes()),
        CqlValue::Timeuuid(u) => V::Timeuuid(*u.as_bytes()),
        CqlValue::Varint(x) => V::Varint(x.as_signed_bytes_be_slice().to_vec()),
        CqlValue::Decimal(d) => {
            let (b, scale) = d.as_signed_be_bytes_slice_and_exponent();
            V::Decimal { scale, unscaled: b.to_vec() }
        }
        CqlValue::List(xs) => V::List(many(xs)?),
        CqlValue::Set(xs) => V::Set(many(xs)?),
        CqlValue::Vector(xs) => V::Vector(many(xs)?),
        CqlValue::Map(kvs) => V::Map(kvs.iter().map(|(k, x)| Ok((from_cql(k)?, from_cql(x)?))).collect::<Result<_, String>>()?),
        CqlValue::Tuple(xs) => V::Tuple(
            xs.iter()
                .map(|x| match x {
                    None => Ok(V::Null),
                    Some(x) => from_cql(x),
                })
                .collect::<Result<_, String>>()?,
        ),
        CqlValue::UserDefinedType { fields, .. } => V::Udt(
            fields
                .iter()
                .map(|(n, x)| {
                    Ok((
                        n.clone(),
                        match x {
                            None => V::Null,
                            Some(x) => from_cql(x)?,
                        },
                    ))
                })
                .collect::<Result<_, String>>()?,
        ),
        other => return Err(format!("unknown CqlValue variant {other:?}")),
    })
}

/// (keyspace, name) of a decoded dynamic UDT, for the identity part of the round trip.
pub fn udt_identity(c: &CqlValue) -> Option<(String, String)> {
    match c {
        CqlValue::UserDefinedType { keyspace, name, .. } => Some((keyspace.clone(), name.clone())),
        _ => None,
    }
}

/// Outcome of one serialization attempt: framed cell bytes or the error text.
pub type SerResult = Result<Vec<u8>, String>;

/// Object-safe view of a bound value, so that the bulky check logic is compiled once instead of once per carrier.
pub trait DynSer {
    fn add_to(&self, sv: &mut SerializedValues, ct: &ColumnType) -> Result<(), SerializationError>;
    fn write_cell(&self, ct: &ColumnType, buf: &mut Vec<u8>) -> Result<(), SerializationError>;
}
impl<T: SerializeValue> DynSer for T {
    fn add_to(&self, sv: &mut SerializedValues, ct: &ColumnType) -> Result<(), SerializationError> {
        sv.add_value(self, ct)
    }
    fn write_cell(&self, ct: &ColumnType, buf: &mut Vec<u8>) -> Result<(), SerializationError> {
        self.serialize(ct, CellWriter::new(buf)).map(|_| ())
    }
}

/// Through `SerializedValues::add_value` (the bind path): returns the cell bytes (without the u16 count)
/// and the structural observations (element_count, iter().count()).
pub fn ser_add_value(val: &dyn DynSer, ct: &ColumnType) -> (SerResult, u16, usize) {
    let mut sv = SerializedValues::new();
    let r = val.add_to(&mut sv, ct);
    let mut buf = Vec::new();
    sv.write_to_request(&mut buf);
    let n = sv.element_count();
    let it = sv.iter().count();
    (
        match r {
            Ok(()) => Ok(buf[2..].to_vec()),
            Err(e) => {
                if buf.len() != 2 {
                    Err(format!("LEFTOVER-BYTES({}) {e}", buf.len() - 2))
                } else {
                    Err(e.to_string())
                }
            }
        },
        n,
        it,
    )
}

/// Through `SerializeValue::serialize` with a bare `CellWriter`.
pub fn ser_cell_writer(val: &dyn DynSer, ct: &ColumnType) -> SerResult {
    let mut buf = Vec::new();
    match val.write_cell(ct, &mut buf) {
        Ok(_) => Ok(buf),
        Err(e) => Err(e.to_string()),
    }
}

/// Split a framed cell into null / body.
pub fn unframe(framed: &[u8]) -> Result<Option<&[u8]>, String> {
    if framed.len() < 4 {
        return Err("cell shorter than its length prefix".into());
    }
    let n = i32::from_be_bytes([framed[0], framed[1], framed[2], framed[3]]);
    if n < 0 {
        if framed.len() != 4 {
            return Err("bytes after a null/unset cell".into());
        }
        return Ok(None);
    }
    if framed.len() != 4 + n as usize {
        return Err(format!("length prefix {n} but {} body bytes", framed.len() - 4));
    }
    Ok(Some(&framed[4..]))
}

/// type_check + deserialize of a cell body (None = null) as `T`; the closure receives the decoded value
/// while the frame is alive (so borrowed carriers work).
pub fn deser_with<'f, 'm, T, R>(ct: &'m ColumnType<'m>, body: Option<&'f Bytes>, f: impl FnOnce(T) -> R) -> Result<R, String>
where
    T: DeserializeValue<'f, 'm>,
{
    T::type_check(ct).map_err(|e| format!("TYPECHECK {e}"))?;
    let slice = body.map(FrameSlice::new);
    let v = T::deserialize(ct, slice).map_err(|e| format!("DESERIALIZE {e}"))?;
    Ok(f(v))
}

/// Decode a cell through the dynamic value type. Null -> `Value::Null`.
pub fn deser_dynamic(ct: &ColumnType<'_>, body: Option<&[u8]>) -> Result<(Value, Option<(String, String)>), String> {
    let owned = body.map(Bytes::copy_from_slice);
    // top-level null goes through Option<CqlValue>, the documented way to read a nullable column
    let got: Option<CqlValue> = {
        <Option<CqlValue> as DeserializeValue>::type_check(ct).map_err(|e| format!("TYPECHECK {e}"))?;
        let slice = owned.as_ref().map(FrameSlice::new);
        <Option<CqlValue> as DeserializeValue>::deserialize(ct, slice).map_err(|e| format!("DESERIALIZE {e}"))?
    };
    match got {
        None => Ok((Value::Null, None)),
        Some(c) => Ok((from_cql(&c)?, udt_identity(&c))),
    }
}
