//! C17 - type mismatches are rejected; a failed bind leaves the request intact. Engine E-ENUM.
//!
//! leg `matrix`: every carrier of the C01 table (+ the dynamic value type shaped as each of a list of
//!   value types) x every column type of the tier's set, for serialization (`add_value` of a witness value
//!   with content at every level, onto a list that already holds one value) and for deserialization
//!   (`type_check`). Expected relation is three-valued (`carriers::Rel`):
//!     Accept   => accepted; on serialize the list grew by exactly one cell and the old bytes are untouched;
//!     Reject   => an error; on serialize bytes / element_count() / iter().count() identical to before;
//!     DontCare => either, but never a panic, and the same state rule for whichever outcome happened.
//! leg `rollback`: every prefix (length 0..3) over six kinds of good values, then one failing add of each
//!   failure kind (wrong native type, 2nd element / key / value / field failing inside list, set, map,
//!   vector (fixed and variable width), tuple, UDT, nested twice; tuple too long; unknown UDT field; UDT name
//!   mismatch; wrong vector dimension; empty into a non-emptiable type; value overflow; a carrier that has
//!   already appended bytes and then reports a size overflow; the 65536th value): bytes, element_count(),
//!   iter().count() and the parsed cells are identical before/after, and a following good value lands as
//!   the reference encodes it.

use crate::carriers::{Entry, Probe, Rel, combine, probe_value, ser_error_root};
use crate::dynconv::*;
use crate::types;
use crate::values;
use crate::refvalue::{self as refv, Native, Type, Value};
use scylla_cql_core::frame::response::result::ColumnType;
use scylla_cql_core::frame::types::RawValue;
use scylla_cql_core::serialize::SerializationError;
use scylla_cql_core::serialize::row::SerializedValues;
use scylla_cql_core::serialize::value::SerializeValue;
use scylla_cql_core::serialize::writers::{CellWriter, WrittenCellProof};
use scylla_cql_core::value::{CqlValue, MaybeEmpty, Unset};
use serde_json::json;
use std::panic::AssertUnwindSafe;
use std::sync::atomic::{AtomicU64, Ordering};
use vcore::{Report, catch};

fn weaken(r: Rel) -> Rel {
    if r == Rel::Reject { Rel::Reject } else { Rel::DontCare }
}

// ------------------------------------------------------------------------------------------------
// the dynamic value type in the matrix: a CqlValue shaped as value type `vt`, bound to column type `t`

/// A value of `vt` with content at every level (one element per collection, every tuple/UDT field set).
pub fn dyn_witness(vt: &Type) -> Value {
    match vt {
        Type::Native(n) => values::native_alphabet(*n, false)[0].clone(),
        Type::List(e) => Value::List(vec![dyn_witness(e)]),
        Type::Set(e) => Value::Set(vec![dyn_witness(e)]),
        Type::Map(k, v) => Value::Map(vec![(dyn_witness(k), dyn_witness(v))]),
        Type::Tuple(ts) => Value::Tuple(ts.iter().map(dyn_witness).collect()),
        Type::Udt { fields, .. } => Value::Udt(fields.iter().map(|(n, t)| (n.clone(), dyn_witness(t))).collect()),
        Type::Vector(e, d) => Value::Vector((0..*d).map(|_| dyn_witness(e)).collect()),
    }
}

/// Expected relation for binding a dynamic value of shape `vt` to a column of type `t`.
pub fn dyn_rel(vt: &Type, t: &Type) -> Rel {
    if vt == t {
        return Rel::Accept;
    }
    match (vt, t) {
        (Type::Native(a), Type::Native(b)) => {
            let stringy = |n: &Native| matches!(n, Native::Ascii | Native::Text);
            if stringy(a) && stringy(b) { Rel::DontCare } else { Rel::Reject }
        }
        (Type::List(a), Type::List(b)) | (Type::Set(a), Type::Set(b)) => dyn_rel(a, b),
        (Type::List(a), Type::Set(b)) | (Type::Set(a), Type::List(b)) => weaken(dyn_rel(a, b)),
        (Type::Vector(a, d1), Type::Vector(b, d2)) => {
            if d1 != d2 {
                Rel::Reject
            } else if *d1 == 0 {
                Rel::DontCare
            } else {
                dyn_rel(a, b)
            }
        }
        // the witness list/set holds exactly one element
        (Type::List(a), Type::Vector(b, d)) | (Type::Set(a), Type::Vector(b, d)) => {
            if *d != 1 {
                Rel::Reject
            } else {
                weaken(dyn_rel(a, b))
            }
        }
        (Type::Vector(a, d), Type::List(b)) | (Type::Vector(a, d), Type::Set(b)) => {
            if *d == 0 {
                Rel::DontCare
            } else {
                weaken(dyn_rel(a, b))
            }
        }
        (Type::Map(k1, v1), Type::Map(k2, v2)) => combine(&[dyn_rel(k1, k2), dyn_rel(v1, v2)]),
        (Type::Tuple(a), Type::Tuple(b)) => {
            if a.len() > b.len() {
                Rel::Reject
            } else {
                let r = combine(&a.iter().zip(b).map(|(x, y)| dyn_rel(x, y)).collect::<Vec<_>>());
                if a.len() == b.len() { r } else { weaken(r) }
            }
        }
        (Type::Udt { keyspace: k1, name: n1, fields: f1 }, Type::Udt { keyspace: k2, name: n2, fields: f2 }) => {
            if k1 != k2 || n1 != n2 {
                return Rel::Reject; // a value of a different user-defined type
            }
            let mut rs = Vec::new();
            for (n, ft) in f1 {
                match f2.iter().find(|(m, _)| m == n) {
                    None => return Rel::Reject, // field unknown to the column's type
                    Some((_, ft2)) => rs.push(dyn_rel(ft, ft2)),
                }
            }
            combine(&rs)
        }
        _ => Rel::Reject,
    }
}

pub fn dyn_value_types() -> Vec<Type> {
    let it = vec![types::nat(Native::Int), types::nat(Native::Text)];
    let mut v = types::natives();
    v.extend(types::depth1_over(&it, &[0, 1, 2], false));
    let l = Type::List(Box::new(types::nat(Native::Int)));
    v.extend(types::derived(&l, &it, &[1]));
    let m = Type::Map(Box::new(types::nat(Native::Text)), Box::new(types::nat(Native::Int)));
    v.extend(types::derived(&m, &it, &[1]));
    let tup = Type::Tuple(vec![types::nat(Native::Int), types::nat(Native::Text)]);
    v.extend(types::derived(&tup, &it, &[1]));
    let mut seen = std::collections::HashSet::new();
    v.retain(|t| seen.insert(t.clone()));
    v
}


// ------------------------------------------------------------------------------------------------
// the zero-length "empty" value in the matrix

/// Which column types admit the special empty value. The book is silent; the crate's documentation of it is the
/// public predicate `ColumnType::supports_special_empty_value` ("Returns true if the type allows a special, empty
/// value ... we only check against Scylla's set"), the `NotEmptyable` error kind ("Expected a type that can be
/// empty") and `MaybeEmpty` ("produce an empty value (0 bytes) for emptiable types"). Pinned here: counter,
/// duration, list, set, map and UDT do not admit it (binding `Empty` must be refused); every other native type
/// does (must be accepted); tuple and vector are left undetermined.
pub fn empty_rel(t: &Type) -> Rel {
    match t {
        Type::Native(Native::Counter) | Type::Native(Native::Duration) => Rel::Reject,
        Type::Native(_) => Rel::Accept,
        Type::List(_) | Type::Set(_) | Type::Map(..) | Type::Udt { .. } => Rel::Reject,
        Type::Tuple(_) | Type::Vector(..) => Rel::DontCare,
    }
}

fn empty_cells(r: &Report, t: &Type, st: &[AtomicU64; 3]) {
    use scylla_cql_core::value::MaybeEmpty;
    let rel = empty_rel(t);
    let int = t_int();
    // (where the empty value sits, the column type, the bound value)
    let mut probes: Vec<(&'static str, Type, CqlValue)> = vec![("top", t.clone(), CqlValue::Empty)];
    if t.depth() <= 1 {
        probes.push(("list-element", Type::List(Box::new(t.clone())), CqlValue::List(vec![CqlValue::Empty])));
        probes.push(("set-element", Type::Set(Box::new(t.clone())), CqlValue::Set(vec![CqlValue::Empty])));
        probes.push(("map-value", Type::Map(Box::new(int.clone()), Box::new(t.clone())), CqlValue::Map(vec![(CqlValue::Int(1), CqlValue::Empty)])));
        probes.push(("map-key", Type::Map(Box::new(t.clone()), Box::new(int.clone())), CqlValue::Map(vec![(CqlValue::Empty, CqlValue::Int(1))])));
        probes.push(("tuple-field", Type::Tuple(vec![int.clone(), t.clone()]), CqlValue::Tuple(vec![Some(CqlValue::Int(1)), Some(CqlValue::Empty)])));
        let u = types::udt(vec![int.clone(), t.clone()]);
        probes.push(("udt-field", u, CqlValue::UserDefinedType { keyspace: "ks".into(), name: "u2".into(), fields: vec![("a".into(), Some(CqlValue::Int(1))), ("b".into(), Some(CqlValue::Empty))] }));
    }
    for (site, col, val) in probes {
        r.eval(1);
        let ct = column_type(&col);
        let p = probe_value(&val, &ct);
        let case = || json!({"leg": "matrix", "part": "empty", "site": site, "type": t.to_string(), "frozen": frozen_mode()});
        if let Some(c) = &p.corrupt {
            r.violation(&format!("matrix-empty:list-corrupted:{site}"), &format!("CqlValue::Empty as {site} of {col}: {c}"), case());
            continue;
        }
        if let Some(pn) = &p.panic {
            r.violation(&format!("matrix-empty:panic:{site}"), &format!("CqlValue::Empty as {site} of {col} panicked: {pn}"), case());
            continue;
        }
        match (rel, p.accepted) {
            (Rel::Reject, true) => r.violation(
                &format!("matrix-empty:accepted-for-non-emptyable:{site}:{}", t.shape().split('<').next().unwrap_or("")),
                &format!("CqlValue::Empty ({site}) was accepted for {t}, a type that does not admit the empty value: a zero-length cell is sent"),
                case(),
            ),
            (Rel::Accept, false) => r.violation(&format!("matrix-empty:refused-for-emptyable:{site}:{}", t.shape()), &format!("CqlValue::Empty ({site}) refused for {t}: {}", p.err), case()),
            (_, false) => {
                if !p.state_intact {
                    r.violation(&format!("matrix-empty:reject-left-bytes:{site}"), &format!("CqlValue::Empty ({site}) refused for {col} but the value list changed"), case());
                } else if rel == Rel::Reject && p.root != "typecheck" {
                    r.violation(&format!("matrix-empty:error-kind:{site}"), &format!("CqlValue::Empty ({site}) for {t} refused with a {} error, not a type-check error: {}", p.root, p.err), case());
                } else {
                    st[1].fetch_add(1, Ordering::Relaxed);
                }
            }
            (_, true) => {
                if !p.grew_by_one {
                    r.violation(&format!("matrix-empty:accept-bookkeeping:{site}"), &format!("CqlValue::Empty ({site}) accepted for {col} but the list did not grow by one cell"), case());
                } else {
                    st[if rel == Rel::Accept { 0 } else { 2 }].fetch_add(1, Ordering::Relaxed);
                }
            }
        }
    }
    // MaybeEmpty::Empty of a carrier: must be refused wherever the type does not admit empty (otherwise undetermined:
    // no bytes of the carrier reach the wire)
    if rel == Rel::Reject {
        r.eval(1);
        let ct = column_type(t);
        let p = probe_value(&MaybeEmpty::<i32>::Empty, &ct);
        if p.accepted || p.panic.is_some() || p.corrupt.is_some() || !p.state_intact {
            r.violation(
                &format!("matrix-empty:MaybeEmpty-accepted-for-non-emptyable:{}", t.shape().split('<').next().unwrap_or("")),
                &format!("MaybeEmpty::<i32>::Empty bound to {t}: accepted={}, state intact={}, panic={:?}", p.accepted, p.state_intact, p.panic),
                json!({"leg": "matrix", "part": "empty", "site": "MaybeEmpty", "type": t.to_string(), "frozen": frozen_mode()}),
            );
        } else {
            st[1].fetch_add(1, Ordering::Relaxed);
        }
    }
}

// ------------------------------------------------------------------------------------------------
// UDT identity: a dynamic UDT value of another (keyspace, type name) must be refused, however similar the name

fn udt_name_cells(r: &Report) {
    let fields_t = vec![("a".to_string(), t_int()), ("b".to_string(), t_text())];
    let mk_val = |ks: &str, name: &str| CqlValue::UserDefinedType {
        keyspace: ks.to_string(),
        name: name.to_string(),
        fields: vec![("a".to_string(), Some(CqlValue::Int(7))), ("b".to_string(), Some(CqlValue::Text("ab".into())))],
    };
    let swapcase = |x: &str| -> String { x.chars().map(|c| if c.is_ascii_lowercase() { c.to_ascii_uppercase() } else { c.to_ascii_lowercase() }).collect() };
    let capital = |x: &str| -> String {
        let mut c = x.chars();
        match c.next() {
            Some(f) => f.to_ascii_uppercase().to_string() + &c.as_str().to_ascii_lowercase(),
            None => String::new(),
        }
    };
    let mut ok = 0u64;
    let mut controls = 0u64;
    for (tks, tname) in [("myks", "point"), ("MyKs", "Point"), ("k", "t")] {
        let target = Type::Udt { keyspace: tks.to_string(), name: tname.to_string(), fields: fields_t.clone() };
        // (label, keyspace, name) - all different from the target's identity unless labelled exact
        let mut variants: Vec<(String, String, String)> = vec![("exact".into(), tks.into(), tname.into())];
        let mut push = |label: &str, ks: String, name: String| {
            if (ks.as_str(), name.as_str()) != (tks, tname) && !variants.iter().any(|(_, k, n)| *k == ks && *n == name) {
                variants.push((label.to_string(), ks, name));
            }
        };
        for (l, f) in [("upper", &(|x: &str| x.to_ascii_uppercase()) as &dyn Fn(&str) -> String), ("lower", &|x: &str| x.to_ascii_lowercase()), ("swapcase", &swapcase), ("capitalised", &capital)] {
            push(&format!("name-case-{l}"), tks.to_string(), f(tname));
            push(&format!("keyspace-case-{l}"), f(tks), tname.to_string());
            push(&format!("both-case-{l}"), f(tks), f(tname));
        }
        push("name-suffix", tks.into(), format!("{tname}s"));
        push("name-suffix-space", tks.into(), format!("{tname} "));
        push("name-prefix", tks.into(), format!("x{tname}"));
        push("name-truncated", tks.into(), tname[..tname.len() - 1].to_string());
        push("name-quoted", tks.into(), format!("\"{tname}\""));
        push("name-empty", tks.into(), String::new());
        push("keyspace-suffix", format!("{tks}2"), tname.into());
        push("keyspace-prefix", format!("x{tks}"), tname.into());
        push("keyspace-truncated", tks[..tks.len() - 1].to_string(), tname.into());
        push("keyspace-empty", String::new(), tname.into());
        push("swapped-keyspace-and-name", tname.into(), tks.into());
        push("qualified-name-in-name", tks.into(), format!("{tks}.{tname}"));
        push("other", "other".into(), "thing".into());
        for (label, vks, vname) in &variants {
            let exact = label == "exact";
            let bad = mk_val(vks, vname);
            let good = mk_val(tks, tname);
            let outer = Type::Udt { keyspace: tks.to_string(), name: "outer".to_string(), fields: vec![("a".to_string(), t_int()), ("b".to_string(), target.clone())] };
            let sites: Vec<(&str, Type, CqlValue)> = vec![
                ("top", target.clone(), bad.clone()),
                ("list-2nd-element", Type::List(Box::new(target.clone())), CqlValue::List(vec![good.clone(), bad.clone()])),
                ("set-element", Type::Set(Box::new(target.clone())), CqlValue::Set(vec![bad.clone()])),
                ("map-value", Type::Map(Box::new(t_int()), Box::new(target.clone())), CqlValue::Map(vec![(CqlValue::Int(1), bad.clone())])),
                ("tuple-field", Type::Tuple(vec![t_int(), target.clone()]), CqlValue::Tuple(vec![Some(CqlValue::Int(1)), Some(bad.clone())])),
                ("udt-field", outer, CqlValue::UserDefinedType { keyspace: tks.to_string(), name: "outer".to_string(), fields: vec![("a".to_string(), Some(CqlValue::Int(1))), ("b".to_string(), Some(bad.clone()))] }),
                ("vector-element", Type::Vector(Box::new(target.clone()), 2), CqlValue::Vector(vec![good.clone(), bad.clone()])),
            ];
            for (site, col, val) in sites {
                for mode in [0u8, 1, 2] {
                    r.eval(1);
                    let ct = with_frozen(mode, || column_type(&col));
                    let p = probe_value(&val, &ct);
                    let case = || json!({"leg": "matrix", "part": "udt-names", "variant": label, "site": site, "target": format!("{tks}.{tname}"), "value": format!("{vks}.{vname}"), "frozen": mode});
                    if let Some(c) = p.corrupt.as_ref().or(p.panic.as_ref()) {
                        r.violation(&format!("matrix-udt-name:panic-or-corrupt:{site}"), &format!("UDT value {vks}.{vname} bound ({site}) to a column of type {tks}.{tname}: {c}"), case());
                    } else if exact {
                        if !p.accepted || !p.grew_by_one {
                            r.violation(&format!("matrix-udt-name:same-type-refused:{site}"), &format!("UDT value {vks}.{vname} ({site}) refused for its own type: {}", p.err), case());
                        } else {
                            controls += 1;
                        }
                    } else if p.accepted {
                        r.violation(
                            &format!("matrix-udt-name:other-type-accepted:{}:{site}", label.split('-').take(2).collect::<Vec<_>>().join("-")),
                            &format!("a value of user-defined type {vks:?}.{vname:?} ({label}) was accepted ({site}) for a column of type {tks:?}.{tname:?} and its bytes written"),
                            case(),
                        );
                    } else if !p.state_intact {
                        r.violation(&format!("matrix-udt-name:reject-left-bytes:{site}"), &format!("UDT value {vks}.{vname} ({site}) refused for {tks}.{tname} but the value list changed"), case());
                    } else if p.root != "typecheck" {
                        r.violation(&format!("matrix-udt-name:error-kind:{site}"), &format!("UDT value {vks}.{vname} ({site}) refused with a {} error, not a type-check error: {}", p.root, p.err), case());
                    } else {
                        ok += 1;
                    }
                }
            }
        }
    }
    r.counters.add("udt_name_mismatch_cells_refused", ok);
    r.counters.add("udt_name_exact_controls_accepted", controls);
    r.nontrivial(ok);
}

struct MatrixStats {
    cells: [[AtomicU64; 4]; 3], // [rel][outcome: accepted, rejected-typecheck, rejected-other, n/a]
    de_cells: [[AtomicU64; 2]; 3],
}

fn rel_ix(r: Rel) -> usize {
    match r {
        Rel::Accept => 0,
        Rel::Reject => 1,
        Rel::DontCare => 2,
    }
}

fn judge_ser(r: &Report, carrier: &str, t: &Type, rel: Rel, p: &Probe, st: &MatrixStats, case: &dyn Fn() -> serde_json::Value) {
    if let Some(c) = &p.corrupt {
        r.violation(&format!("matrix-ser:list-corrupted:{carrier}"), &format!("after binding {carrier} to {t} the value list is unreadable: {c}"), case());
        return;
    }
    if let Some(pn) = &p.panic {
        r.violation(&format!("matrix-ser:panic:{carrier}"), &format!("binding {carrier} to {t} panicked: {pn}"), case());
        return;
    }
    let oc = if p.accepted {
        0
    } else if p.root == "typecheck" {
        1
    } else {
        2
    };
    st.cells[rel_ix(rel)][oc].fetch_add(1, Ordering::Relaxed);
    if p.accepted {
        if rel == Rel::Reject {
            r.violation(&format!("matrix-ser:mismatch-accepted:{carrier}"), &format!("{carrier} was accepted for a column of type {t}: wire shapes differ, foreign bytes would be sent"), case());
        } else if !p.grew_by_one {
            r.violation(&format!("matrix-ser:accept-bookkeeping:{carrier}"), &format!("{carrier} accepted for {t} but the value list did not grow by exactly one cell after the existing bytes"), case());
        }
    } else {
        if rel == Rel::Accept {
            r.violation(&format!("matrix-ser:documented-pair-refused:{carrier}"), &format!("{carrier} is documented to fit {t} but was refused: {}", p.err), case());
        } else if !p.state_intact {
            r.violation(&format!("matrix-ser:reject-left-bytes:{carrier}"), &format!("{carrier} refused for {t} ({}) but the value list changed (bytes / element_count / iter().count())", p.err), case());
        }
    }
}

fn judge_de(r: &Report, carrier: &str, t: &Type, rel: Rel, res: &Result<Result<(), String>, String>, st: &MatrixStats, case: &dyn Fn() -> serde_json::Value) {
    match res {
        Err(pn) => r.violation(&format!("matrix-de:panic:{carrier}"), &format!("type_check of {carrier} against {t} panicked: {pn}"), case()),
        Ok(Ok(())) => {
            st.de_cells[rel_ix(rel)][0].fetch_add(1, Ordering::Relaxed);
            if rel == Rel::Reject {
                r.violation(&format!("matrix-de:mismatch-accepted:{carrier}"), &format!("type_check lets a column of type {t} be read as {carrier}: foreign bytes would be reinterpreted"), case());
            }
        }
        Ok(Err(e)) => {
            st.de_cells[rel_ix(rel)][1].fetch_add(1, Ordering::Relaxed);
            if rel == Rel::Accept {
                r.violation(&format!("matrix-de:documented-pair-refused:{carrier}"), &format!("{carrier} is documented to read {t} but type_check refuses: {e}"), case());
            }
        }
    }
}

/// Returns true if the cell was an Accept cell that was accepted (serialization side).
fn matrix_cell_static(r: &Report, e: &Entry, t: &Type, ct: &ColumnType<'static>, st: &MatrixStats) -> bool {
    let case = || json!({"leg": "matrix", "carrier": e.name, "type": t.to_string(), "frozen": frozen_mode()});
    let rel = (e.rel_ser)(t);
    let p = (e.probe_ser)(t, ct);
    r.eval(1);
    judge_ser(r, &e.name, t, rel, &p, st, &case);
    if let (Some(rel_de), Some(tc)) = (e.rel_de, e.type_check) {
        let rel = rel_de(t);
        let res = tc(ct);
        r.eval(1);
        judge_de(r, &e.name, t, rel, &res, st, &case);
    }
    rel == Rel::Accept && p.accepted
}

fn matrix_cell_dyn(r: &Report, vt: &Type, name: &str, w: &CqlValue, t: &Type, ct: &ColumnType<'static>, st: &MatrixStats) {
    let rel = dyn_rel(vt, t);
    let p = probe_value(w, ct);
    r.eval(1);
    judge_ser(r, name, t, rel, &p, st, &|| json!({"leg": "matrix", "dyn_value_type": vt.to_string(), "type": t.to_string(), "frozen": frozen_mode()}));
}

pub fn run_matrix(r: &Report) {
    let thorough = r.tier().is_thorough();
    let entries = crate::c01static::all_entries();
    let it = vec![types::nat(Native::Int), types::nat(Native::Text)];
    // thorough partners: all twenty natives
    let it4: Vec<Type> = types::natives();
    // column types: natives + all of depth 1 + depth 2 (thorough: over every depth-1 type; quick: over the
    // depth-1 types built from int/text/blob/boolean)
    let d1 = types::depth1();
    let roots: Vec<Type> = if thorough {
        d1.clone()
    } else {
        let small: Vec<Type> = [Native::Int, Native::Text, Native::Blob, Native::Boolean].iter().map(|n| types::nat(*n)).collect();
        types::depth1_over(&small, &[0, 1, 2], false)
    };
    enum Work {
        One(Type),
        Derived(Type),
    }
    let mut work: Vec<Work> = types::natives().into_iter().map(Work::One).collect();
    work.extend(d1.iter().cloned().map(Work::One));
    work.extend(roots.iter().cloned().map(Work::Derived));
    // every carrier's documented column types are columns too (so each row has at least one Accept cell)
    {
        let mut seen: std::collections::HashSet<Type> = types::natives().into_iter().chain(d1.iter().cloned()).collect();
        for e in &entries {
            for h in &e.homes {
                if seen.insert(h.clone()) {
                    work.push(Work::One(h.clone()));
                }
            }
        }
    }
    let accept_per_entry: Vec<AtomicU64> = (0..entries.len()).map(|_| AtomicU64::new(0)).collect();
    let dyn_vts: Vec<(Type, CqlValue, String)> = dyn_value_types()
        .into_iter()
        .map(|vt| {
            let w = dyn_witness(&vt);
            let cv = to_cql(&vt, &w).unwrap_or_else(|| vcore::machinery_error(&format!("dyn witness of {vt} not expressible")));
            let name = format!("CqlValue[{vt}]");
            (vt, cv, name)
        })
        .collect();
    let st = MatrixStats { cells: Default::default(), de_cells: Default::default() };
    let n_types = AtomicU64::new(0);
    let n_variants = AtomicU64::new(0);
    let empty_stats: [AtomicU64; 3] = Default::default();
    let do_type = |t: &Type| {
        n_types.fetch_add(1, Ordering::Relaxed);
        // the frozen flag of collections/UDTs must not matter: full matrix with nothing frozen and with everything
        // frozen; the nested-only-frozen variant (what servers report) for the cells the relation calls Accept
        for mode in frozen_modes_for(t) {
            with_frozen(mode, || {
                let ct = column_type(t);
                n_variants.fetch_add(1, Ordering::Relaxed);
                empty_cells(r, t, &empty_stats);
                for (i, e) in entries.iter().enumerate() {
                    if mode == 2 && (e.rel_ser)(t) != Rel::Accept && e.rel_de.map(|f| f(t)) != Some(Rel::Accept) {
                        continue;
                    }
                    // quick tier: the all-frozen variant of depth-2 column types only for cells the relation does not call Reject
                    if mode == 1 && !thorough && t.depth() >= 2 && (e.rel_ser)(t) == Rel::Reject && e.rel_de.map(|f| f(t)) != Some(Rel::Accept) {
                        continue;
                    }
                    if matrix_cell_static(r, e, t, &ct, &st) {
                        accept_per_entry[i].fetch_add(1, Ordering::Relaxed);
                    }
                }
                for (vt, w, name) in &dyn_vts {
                    if mode == 2 && dyn_rel(vt, t) != Rel::Accept {
                        continue;
                    }
                    if mode == 1 && !thorough && t.depth() >= 2 && dyn_rel(vt, t) == Rel::Reject {
                        continue;
                    }
                    matrix_cell_dyn(r, vt, name, w, t, &ct, &st);
                }
            });
        }
    };
    vcore::par::for_each(r.args.jobs, 1, work.into_iter(), |w| match w {
        Work::One(t) => do_type(&t),
        Work::Derived(inner) => {
            for t in types::derived(&inner, if thorough { &it4 } else { &it }, &[1, 2]) {
                do_type(&t);
            }
        }
    });
    let idle: Vec<&str> = entries.iter().zip(&accept_per_entry).filter(|(_, n)| n.load(Ordering::Relaxed) == 0).map(|(e, _)| e.name.as_str()).collect();
    if !idle.is_empty() && r.violation_count() == 0 {
        vcore::machinery_error(&format!("matrix rows without a single accepted Accept cell (table or relation broken): {idle:?}"));
    }
    udt_name_cells(r);
    let names = ["accept", "reject", "dontcare"];
    let outs = ["accepted", "refused_typecheck_root", "refused_other_root"];
    for (i, n) in names.iter().enumerate() {
        for (j, o) in outs.iter().enumerate() {
            r.counters.add(&format!("ser_cells_expected_{n}_{o}"), st.cells[i][j].load(Ordering::Relaxed));
        }
        r.counters.add(&format!("de_cells_expected_{n}_accepted"), st.de_cells[i][0].load(Ordering::Relaxed));
        r.counters.add(&format!("de_cells_expected_{n}_refused"), st.de_cells[i][1].load(Ordering::Relaxed));
    }
    r.nontrivial(st.cells[0][0].load(Ordering::Relaxed) + st.cells[1][1].load(Ordering::Relaxed) + st.cells[1][2].load(Ordering::Relaxed) + st.de_cells[0][0].load(Ordering::Relaxed) + st.de_cells[1][1].load(Ordering::Relaxed));
    r.counters.add("carriers_static", entries.len() as u64);
    r.counters.add("carriers_dynamic_shapes", dyn_vts.len() as u64);
    r.counters.add("column_types", n_types.load(Ordering::Relaxed));
    r.counters.add("column_type_frozen_variants", n_variants.load(Ordering::Relaxed));
    r.counters.add("empty_cells_emptyable_accepted", empty_stats[0].load(Ordering::Relaxed));
    r.counters.add("empty_cells_refused", empty_stats[1].load(Ordering::Relaxed));
    r.counters.add("empty_cells_undetermined_accepted", empty_stats[2].load(Ordering::Relaxed));
    // the crate's public predicate must agree with the pinned table
    for t in types::natives().iter().chain(types::depth1().iter()) {
        let want = empty_rel(t);
        let got = column_type(t).supports_special_empty_value();
        if (want == Rel::Reject && got) || (want == Rel::Accept && !got) {
            r.violation("matrix-empty:predicate-disagrees", &format!("ColumnType::supports_special_empty_value() = {got} for {t}"), json!({"leg": "matrix", "part": "empty", "site": "top", "type": t.to_string(), "frozen": 0}));
        }
    }
    r.set_rule("E-ENUM full matrix. Rows: every static carrier of the C01 table (795: 31 owned bases x wrappers, borrowed carriers, secrecy, CqlValue inside static wrappers) and the dynamic value type shaped as each of ~110 value types. Columns: 20 natives, all depth-1 types (list/set/vector/map/tuple/UDT over all natives), depth-2 types (quick: constructors over the depth-1 types of int/text/blob/boolean + every carrier's documented depth-2 types; thorough: over every depth-1 type). Every column type is used with its collections/UDTs non-frozen and all frozen (full rows; in quick the all-frozen variant of depth-2 types is limited to cells the relation does not call Reject), and nested-only frozen (Accept cells): the relation does not depend on the flag. The empty value: CqlValue::Empty at top level and (column types of depth <= 1) as list/set element, map key/value, tuple field and UDT field, and MaybeEmpty::<i32>::Empty, against the pinned table (counter, duration, list, set, map, UDT: must be refused with a type-check error and leave the list intact; other natives: must be accepted; tuple/vector: undetermined). UDT identity: a dynamic UDT value whose (keyspace, type name) differs from the column type's only in case (keyspace and name separately and together), by a prefix/suffix/truncation/quoting, by swapping keyspace and name, or by being empty, with the same fields, must be refused with a type-check error and no bytes written - at top level, as 2nd list element, set element, map value, tuple field, UDT field and vector element, for three target names and the three frozen variants; the exact identity is the accepted control. Each cell: serialize a witness with content at every level after one bound value + (static carriers) deserialize type_check, judged against the three-valued relation Accept (documented pair) / Reject (wire shapes differ) / DontCare. distinct_nontrivial = cells decided by the relation (Accept accepted + Reject refused), ser and de.");
    r.set_exhaustive(true);
    r.assume("Accept = pairs listed in docs/source/data-types (nested structurally, incl. Box/Arc/Cow/Option/MaybeUnset/MaybeEmpty/secrecy wrappers); Reject = different native type (ascii/text interchangeable), sequence vs map vs tuple vs UDT vs vector, vector dimension mismatch, Rust tuple longer than the CQL tuple, UDT of another name or with a field the column type lacks, or any component pair that is Reject; everything else (set-like carrier on a list column, shorter Rust tuple, zero-dimensional vectors, list value on a 1-dimensional vector...) is DontCare");
    r.assume("witness values are non-null and non-empty at every level: null / empty collections carry no element bytes and are accepted for any element type (not a mismatch on the wire)");
    r.sample(json!({"carrier": "Vec<Option<i32>>", "type": "list<text>", "expected": "Reject", "why": "element native type differs"}));
    r.sample(json!({"carrier": "BTreeSet<i32>", "type": "list<int>", "expected": "DontCare", "why": "same wire shape, the book lists only set"}));
}

// ------------------------------------------------------------------------------------------------
// rollback

/// A carrier that has already appended bytes (directly and through a nested sub-writer) when it fails:
/// simulates the > 2 GiB `SizeOverflow` path, which cannot be reached with real data.
struct FailsLate {
    direct: usize,
    nested: usize,
}
#[derive(Debug)]
struct SimulatedOverflow;
impl std::fmt::Display for SimulatedOverflow {
    fn fmt(&self, f: &mut std::fmt::Formatter<'_>) -> std::fmt::Result {
        f.write_str("simulated size overflow")
    }
}
impl std::error::Error for SimulatedOverflow {}
impl SerializeValue for FailsLate {
    fn serialize<'b>(&self, _typ: &ColumnType, writer: CellWriter<'b>) -> Result<WrittenCellProof<'b>, SerializationError> {
        let mut b = writer.into_value_builder();
        b.append_bytes(&vec![0xEE; self.direct]);
        for _ in 0..self.nested {
            let _ = b.make_sub_writer().set_value(&[1, 2, 3]);
        }
        Err(SerializationError::new(SimulatedOverflow))
    }
}

enum Good {
    Int(i32),
    Text(&'static str),
    ListInt,
    Null,
    Unset,
    EmptyBlob,
}
const GOODS: [Good; 6] = [Good::Int(1), Good::Text("ab"), Good::ListInt, Good::Null, Good::Unset, Good::EmptyBlob];

fn t_int() -> Type {
    types::nat(Native::Int)
}
fn t_text() -> Type {
    types::nat(Native::Text)
}
fn list_of(t: Type) -> Type {
    Type::List(Box::new(t))
}

fn add_good(sv: &mut SerializedValues, g: &Good, expect: &mut Vec<u8>) -> Result<(), String> {
    let (res, framed) = match g {
        Good::Int(x) => (sv.add_value(x, &column_type(&t_int())), refv::encode(&t_int(), &Value::Int(*x)).unwrap().framed()),
        Good::Text(s) => (sv.add_value(s, &column_type(&t_text())), refv::encode(&t_text(), &Value::Text(s.to_string())).unwrap().framed()),
        Good::ListInt => (sv.add_value(&vec![1i32, 2], &column_type(&list_of(t_int()))), refv::encode(&list_of(t_int()), &Value::List(vec![Value::Int(1), Value::Int(2)])).unwrap().framed()),
        Good::Null => (sv.add_value(&Option::<i32>::None, &column_type(&t_int())), refv::encode(&t_int(), &Value::Null).unwrap().framed()),
        Good::Unset => (sv.add_value(&Unset, &column_type(&t_int())), refv::encode(&t_int(), &Value::Unset).unwrap().framed()),
        Good::EmptyBlob => (sv.add_value(&Vec::<u8>::new(), &column_type(&types::nat(Native::Blob))), refv::encode(&types::nat(Native::Blob), &Value::Blob(vec![])).unwrap().framed()),
    };
    expect.extend_from_slice(&framed);
    res.map_err(|e| e.to_string())
}

struct Snapshot {
    bytes: Vec<u8>,
    count: u16,
    iterated: Vec<Option<Option<Vec<u8>>>>, // None = unset, Some(None) = null
}
fn try_snapshot(sv: &SerializedValues) -> Result<Snapshot, String> {
    catch(AssertUnwindSafe(|| snapshot(sv)))
}
fn snapshot(sv: &SerializedValues) -> Snapshot {
    let mut bytes = Vec::new();
    sv.write_to_request(&mut bytes);
    let iterated = sv
        .iter()
        .map(|rv| match rv {
            RawValue::Unset => None,
            RawValue::Null => Some(None),
            RawValue::Value(b) => Some(Some(b.to_vec())),
        })
        .collect();
    Snapshot { bytes, count: sv.element_count(), iterated }
}

type FailFn = fn(&mut SerializedValues) -> Result<(), SerializationError>;

fn cql_udt(fields: Vec<(&str, Option<CqlValue>)>, name: &str) -> CqlValue {
    CqlValue::UserDefinedType { keyspace: "ks".into(), name: name.into(), fields: fields.into_iter().map(|(n, v)| (n.to_string(), v)).collect() }
}

/// (kind, expected root cause class or "" for any, the failing add)
fn failure_kinds() -> Vec<(&'static str, &'static str, FailFn)> {
    fn ct(s: &str) -> ColumnType<'static> {
        column_type(&refv::parse_type(s).unwrap())
    }
    fn k(kind: &'static str, root: &'static str, f: FailFn) -> (&'static str, &'static str, FailFn) {
        (kind, root, f)
    }
    vec![
        k("wrong-native:i32->text", "typecheck", |sv| sv.add_value(&5i32, &ct("text"))),
        k("wrong-native:String->int", "typecheck", |sv| sv.add_value(&"abc".to_string(), &ct("int"))),
        k("wrong-native:CqlValue::Int->bigint", "typecheck", |sv| sv.add_value(&CqlValue::Int(5), &ct("bigint"))),
        k("wrong-native:Option<i64>->int", "typecheck", |sv| sv.add_value(&Some(5i64), &ct("int"))),
        k("wrong-native:&i32->text", "typecheck", |sv| sv.add_value(&&5i32, &ct("text"))),
        k("wrong-native:Box<String>->blob", "typecheck", |sv| sv.add_value(&Box::new("x".to_string()), &ct("blob"))),
        k("wrong-native:MaybeUnset::Set(i64)->int", "typecheck", |sv| sv.add_value(&scylla_cql_core::value::MaybeUnset::Set(5i64), &ct("int"))),
        k("wrong-native:SecretBox<String>->int", "typecheck", |sv| sv.add_value(&secrecy::SecretBox::new(Box::new("s".to_string())), &ct("int"))),
        k("three-levels:list<tuple<int,udt>>-inner-field", "typecheck", |sv| {
            let good = CqlValue::Tuple(vec![Some(CqlValue::Int(1)), Some(cql_udt(vec![("a", Some(CqlValue::Int(1)))], "u1"))]);
            let bad = CqlValue::Tuple(vec![Some(CqlValue::Int(2)), Some(cql_udt(vec![("a", Some(CqlValue::Text("x".into())))], "u1"))]);
            sv.add_value(&vec![good, bad], &ct("list<tuple<int,udt:ks.u1<a:int>>>"))
        }),
        k("map-2nd-value-list-2nd-element", "typecheck", |sv| {
            let m: Vec<(CqlValue, CqlValue)> = vec![
                (CqlValue::Int(1), CqlValue::List(vec![CqlValue::Int(1)])),
                (CqlValue::Int(2), CqlValue::List(vec![CqlValue::Int(1), CqlValue::Boolean(true)])),
            ];
            sv.add_value(&CqlValue::Map(m), &ct("map<int,list<int>>"))
        }),
        k("btreemap-last-value:typed", "typecheck", |sv| {
            let m: std::collections::BTreeMap<i32, CqlValue> = [(1, CqlValue::Int(1)), (2, CqlValue::Int(2)), (3, CqlValue::Text("x".into()))].into_iter().collect();
            sv.add_value(&m, &ct("map<int,int>"))
        }),
        k("vector-of-vector-inner-dimension", "vector-dimension", |sv| sv.add_value(&vec![vec![1i32, 2], vec![3i32]], &ct("vector<vector<int,2>,2>"))),
        k("set-as-map-column", "typecheck", |sv| sv.add_value(&std::collections::BTreeSet::from([1i32, 2]), &ct("map<int,int>"))),
        k("list-2nd-element:CqlValue", "typecheck", |sv| sv.add_value(&CqlValue::List(vec![CqlValue::Int(1), CqlValue::Text("x".into())]), &ct("list<int>"))),
        k("set-2nd-element:Vec<CqlValue>", "typecheck", |sv| sv.add_value(&vec![CqlValue::Int(1), CqlValue::Int(2), CqlValue::Boolean(true)], &ct("set<int>"))),
        k("list-of-list-inner-2nd", "typecheck", |sv| {
            sv.add_value(&vec![vec![CqlValue::Int(1)], vec![CqlValue::Int(2), CqlValue::Text("x".into())]], &ct("list<list<int>>"))
        }),
        k("map-2nd-value", "typecheck", |sv| sv.add_value(&CqlValue::Map(vec![(CqlValue::Int(1), CqlValue::Int(1)), (CqlValue::Int(2), CqlValue::Text("x".into()))]), &ct("map<int,int>"))),
        k("map-2nd-key", "typecheck", |sv| sv.add_value(&CqlValue::Map(vec![(CqlValue::Int(1), CqlValue::Int(1)), (CqlValue::Text("k".into()), CqlValue::Int(2))]), &ct("map<int,int>"))),
        k("vector-fixed-2nd-element", "typecheck", |sv| sv.add_value(&vec![CqlValue::Int(1), CqlValue::Text("x".into())], &ct("vector<int,2>"))),
        k("vector-variable-2nd-element", "typecheck", |sv| sv.add_value(&vec![CqlValue::Text("x".into()), CqlValue::Int(1)], &ct("vector<text,2>"))),
        k("vector-length+65536:Vec<f32>->vector<float,2>", "vector-dimension", |sv| sv.add_value(&vec![1.5f32; 2 + 65536], &ct("vector<float,2>"))),
        k("vector-length+131072:Vec<i32>->vector<int,3>", "vector-dimension", |sv| sv.add_value(&vec![7i32; 3 + 131072], &ct("vector<int,3>"))),
        k("vector-length-65536:Vec<i64>->vector<bigint,0>", "vector-dimension", |sv| sv.add_value(&vec![7i64; 65536], &ct("vector<bigint,0>"))),
        k("vector-length+65536:[String]->vector<text,1>", "vector-dimension", |sv| sv.add_value(&crate::carriers::SliceOf(vec!["ab".to_string(); 1 + 65536]), &ct("vector<text,1>"))),
        k("vector-length-65536:Vec<Vec<u8>>->vector<blob,0>", "vector-dimension", |sv| sv.add_value(&vec![vec![1u8]; 65536], &ct("vector<blob,0>"))),
        k("vector-length+65536:CqlValue::Vector->vector<int,2>", "vector-dimension", |sv| sv.add_value(&CqlValue::Vector(vec![CqlValue::Int(1); 2 + 65536]), &ct("vector<int,2>"))),
        k("vector-length+131072:CqlValue::Vector->vector<varint,1>", "vector-dimension", |sv| {
            sv.add_value(&CqlValue::Vector(vec![CqlValue::Varint(scylla_cql_core::value::CqlVarint::from_signed_bytes_be(vec![1])); 1 + 131072]), &ct("vector<varint,1>"))
        }),
        k("vector-length+65536:nested-in-list-2nd", "vector-dimension", |sv| sv.add_value(&vec![vec![1i32, 2], vec![1i32; 2 + 65536]], &ct("list<vector<int,2>>"))),
        k("vector-wrong-dimension", "vector-dimension", |sv| sv.add_value(&vec![1i32, 2, 3], &ct("vector<int,2>"))),
        k("tuple-too-long:null-surplus:[1,None]->tuple<int>", "typecheck", |sv| sv.add_value(&CqlValue::Tuple(vec![Some(CqlValue::Int(1)), None]), &ct("tuple<int>"))),
        k("tuple-too-long:null-surplus:[1,2,None,None]->tuple<int,int>", "typecheck", |sv| sv.add_value(&CqlValue::Tuple(vec![Some(CqlValue::Int(1)), Some(CqlValue::Int(2)), None, None]), &ct("tuple<int,int>"))),
        k("tuple-too-long:all-null:[None,None,None]->tuple<int,int>", "typecheck", |sv| sv.add_value(&CqlValue::Tuple(vec![None, None, None]), &ct("tuple<int,int>"))),
        k("tuple-too-long:all-null:[None]->tuple<>", "typecheck", |sv| sv.add_value(&CqlValue::Tuple(vec![None]), &ct("tuple<>"))),
        k("tuple-too-long:mixed-surplus:[1,None,3]->tuple<int,int>", "typecheck", |sv| sv.add_value(&CqlValue::Tuple(vec![Some(CqlValue::Int(1)), None, Some(CqlValue::Int(3))]), &ct("tuple<int,int>"))),
        k("tuple-too-long:null-surplus:[None,2,None]->tuple<int,int>", "typecheck", |sv| sv.add_value(&CqlValue::Tuple(vec![None, Some(CqlValue::Int(2)), None]), &ct("tuple<int,int>"))),
        k("tuple-too-long:null-surplus:list-2nd-element", "typecheck", |sv| {
            sv.add_value(&vec![CqlValue::Tuple(vec![Some(CqlValue::Int(1))]), CqlValue::Tuple(vec![Some(CqlValue::Int(1)), None])], &ct("list<tuple<int>>"))
        }),
        k("tuple-too-long:null-surplus:udt-field", "typecheck", |sv| sv.add_value(&cql_udt(vec![("a", Some(CqlValue::Tuple(vec![Some(CqlValue::Int(1)), None, None])))], "u1"), &ct("udt:ks.u1<a:tuple<int,int>>"))),
        k("tuple-too-long:null-surplus:map-value", "typecheck", |sv| sv.add_value(&CqlValue::Map(vec![(CqlValue::Int(1), CqlValue::Tuple(vec![None, None]))]), &ct("map<int,tuple<int>>"))),
        k("tuple-too-long:null-surplus:Option-wrapped", "typecheck", |sv| sv.add_value(&Some(CqlValue::Tuple(vec![Some(CqlValue::Int(1)), None])), &ct("tuple<int>"))),
        k("udt-unknown-field:null-value", "typecheck", |sv| sv.add_value(&cql_udt(vec![("a", Some(CqlValue::Int(1))), ("zz", None)], "u2"), &ct("udt:ks.u2<a:int,b:text>"))),
        k("udt-unknown-field:null-value-only", "typecheck", |sv| sv.add_value(&cql_udt(vec![("zz", None)], "u2"), &ct("udt:ks.u2<a:int,b:text>"))),
        k("udt-unknown-field:all-fields-null-plus-unknown-null", "typecheck", |sv| sv.add_value(&cql_udt(vec![("a", None), ("b", None), ("c", None)], "u2"), &ct("udt:ks.u2<a:int,b:text>"))),
        k("udt-unknown-field:null-value:list-2nd-element", "typecheck", |sv| {
            sv.add_value(&vec![cql_udt(vec![("a", Some(CqlValue::Int(1)))], "u1"), cql_udt(vec![("a", Some(CqlValue::Int(2))), ("b", None)], "u1")], &ct("list<udt:ks.u1<a:int>>"))
        }),
        k("udt-unknown-field:null-value:tuple-field", "typecheck", |sv| sv.add_value(&CqlValue::Tuple(vec![Some(CqlValue::Int(1)), Some(cql_udt(vec![("a", None), ("q", None)], "u1"))]), &ct("tuple<int,udt:ks.u1<a:int>>"))),
        k("tuple-too-long:CqlValue", "typecheck", |sv| sv.add_value(&CqlValue::Tuple(vec![Some(CqlValue::Int(1)), Some(CqlValue::Int(2)), Some(CqlValue::Int(3))]), &ct("tuple<int,int>"))),
        k("tuple-too-long:rust-tuple", "typecheck", |sv| sv.add_value(&(1i32, 2i32, 3i32), &ct("tuple<int,int>"))),
        k("tuple-2nd-field:rust-tuple", "typecheck", |sv| sv.add_value(&(1i32, "x".to_string()), &ct("tuple<int,int>"))),
        k("tuple-3rd-field:CqlValue", "typecheck", |sv| sv.add_value(&CqlValue::Tuple(vec![Some(CqlValue::Int(1)), None, Some(CqlValue::Int(3))]), &ct("tuple<int,int,text>"))),
        k("udt-unknown-field", "typecheck", |sv| sv.add_value(&cql_udt(vec![("a", Some(CqlValue::Int(1))), ("zz", Some(CqlValue::Int(2)))], "u2"), &ct("udt:ks.u2<a:int,b:text>"))),
        k("udt-2nd-field-type", "typecheck", |sv| sv.add_value(&cql_udt(vec![("a", Some(CqlValue::Int(1))), ("b", Some(CqlValue::Int(2)))], "u2"), &ct("udt:ks.u2<a:int,b:text>"))),
        k("udt-name-mismatch", "typecheck", |sv| sv.add_value(&cql_udt(vec![("a", Some(CqlValue::Int(1)))], "other"), &ct("udt:ks.u2<a:int,b:text>"))),
        k("udt-inside-list-2nd", "typecheck", |sv| {
            sv.add_value(&vec![cql_udt(vec![("a", Some(CqlValue::Int(1)))], "u1"), cql_udt(vec![("a", Some(CqlValue::Text("x".into())))], "u1")], &ct("list<udt:ks.u1<a:int>>"))
        }),
        k("empty-into-counter", "typecheck", |sv| sv.add_value(&CqlValue::Empty, &ct("counter"))),
        k("maybe-empty-into-list", "typecheck", |sv| sv.add_value(&MaybeEmpty::<i32>::Empty, &ct("list<int>"))),
        k("value-overflow:leap-second", "value-overflow", |sv| sv.add_value(&chrono::NaiveTime::from_hms_nano_opt(23, 59, 59, 1_500_000_000).unwrap(), &ct("time"))),
        k("value-overflow:decimal-scale", "value-overflow", |sv| sv.add_value(&bigdecimal::BigDecimal::new(1.into(), i64::MAX), &ct("decimal"))),
        k("value-overflow-inside-list-2nd", "value-overflow", |sv| {
            sv.add_value(&vec![chrono::NaiveTime::from_hms_opt(1, 0, 0).unwrap(), chrono::NaiveTime::from_hms_nano_opt(23, 59, 59, 1_999_999_999).unwrap()], &ct("list<time>"))
        }),
        k("size-overflow-simulated:0-bytes-written", "foreign-error", |sv| sv.add_value(&FailsLate { direct: 0, nested: 0 }, &ct("blob"))),
        k("size-overflow-simulated:bytes-written", "foreign-error", |sv| sv.add_value(&FailsLate { direct: 33, nested: 2 }, &ct("blob"))),
        k("size-overflow-simulated:inside-list-2nd", "foreign-error", |sv| {
            sv.add_value(&vec![FailsLate { direct: 1, nested: 0 }, FailsLate { direct: 7, nested: 1 }], &ct("list<blob>"))
        }),
        k("size-overflow-simulated:tuple-2nd", "foreign-error", |sv| sv.add_value(&(7i32, FailsLate { direct: 5, nested: 1 }), &ct("tuple<int,blob>"))),
    ]
}

fn check_rollback_case(r: &Report, prefix: &[usize], kind: &str, want_root: &str, f: FailFn) {
    let case = json!({"leg": "rollback", "prefix": prefix, "kind": kind});
    let mut sv = SerializedValues::new();
    let mut expect: Vec<u8> = Vec::new();
    for g in prefix {
        if let Err(e) = add_good(&mut sv, &GOODS[*g], &mut expect) {
            r.violation("rollback:good-value-refused", &format!("a good prefix value was refused: {e}"), case);
            return;
        }
    }
    let before = snapshot(&sv);
    if before.bytes[2..] != expect[..] || before.count as usize != prefix.len() || before.iterated.len() != prefix.len() {
        r.violation("rollback:prefix-state", &format!("after {} good values: bytes/count/iter do not match the reference ({} bytes vs {}, count {}, iter {})", prefix.len(), before.bytes.len() - 2, expect.len(), before.count, before.iterated.len()), case);
        return;
    }
    let res = catch(AssertUnwindSafe(|| f(&mut sv)));
    let after = match try_snapshot(&sv) {
        Ok(a) => a,
        Err(p) => {
            r.violation(&format!("rollback:list-corrupted:{kind}"), &format!("after a failed add ({kind}) on a list of {} values the list cannot be read back: {p}", prefix.len()), case);
            return;
        }
    };
    match res {
        Err(p) => {
            r.violation(&format!("rollback:panic:{kind}"), &format!("failing add ({kind}) panicked: {p} at {}", vcore::last_panic_location()), case);
            return;
        }
        Ok(Ok(())) => {
            r.violation(&format!("rollback:not-refused:{kind}"), &format!("the failing value ({kind}) was accepted"), case);
            return;
        }
        Ok(Err(e)) => {
            let root = ser_error_root(&e);
            r.counters.add(&format!("rollback_root_{root}"), 1);
            if !want_root.is_empty() && root != want_root {
                r.violation(&format!("rollback:error-kind:{kind}"), &format!("failing add ({kind}) reported root cause {root}, expected {want_root}: {e}"), case.clone());
            }
        }
    }
    if after.bytes != before.bytes || after.count != before.count || after.iterated != before.iterated {
        r.violation(
            &format!("rollback:state-changed:{kind}"),
            &format!(
                "after a failed add ({kind}) on a list of {} values: bytes {} -> {} , element_count {} -> {}, iter().count() {} -> {}",
                prefix.len(),
                before.bytes.len() - 2,
                after.bytes.len() - 2,
                before.count,
                after.count,
                before.iterated.len(),
                after.iterated.len()
            ),
            case,
        );
        return;
    }
    // a subsequent good value still lands correctly
    if let Err(e) = add_good(&mut sv, &Good::Int(0x11223344), &mut expect) {
        r.violation(&format!("rollback:next-good-refused:{kind}"), &format!("after the failed add a good value is refused: {e}"), case);
        return;
    }
    let fin = snapshot(&sv);
    if fin.bytes[2..] != expect[..] || fin.count as usize != prefix.len() + 1 || fin.iterated.len() != prefix.len() + 1 || fin.bytes[..2] != (fin.count).to_be_bytes() {
        r.violation(&format!("rollback:next-good-misplaced:{kind}"), "after the failed add, the next good value did not land as the reference encodes it (bytes / count / iter)", case);
        return;
    }
    r.nontrivial(1);
}

fn prefixes(max_len: usize) -> Vec<Vec<usize>> {
    let mut out: Vec<Vec<usize>> = vec![vec![]];
    let mut layer: Vec<Vec<usize>> = vec![vec![]];
    for _ in 0..max_len {
        let mut next = Vec::new();
        for p in &layer {
            for g in 0..GOODS.len() {
                let mut q = p.clone();
                q.push(g);
                next.push(q);
            }
        }
        out.extend(next.iter().cloned());
        layer = next;
    }
    out
}

fn check_too_many(r: &Report) {
    // 65535 values fit; the 65536th add must fail and leave everything as it was
    let mut sv = SerializedValues::new();
    let ct_int = column_type(&t_int());
    for i in 0..65535u32 {
        if sv.add_value(&(i as i32), &ct_int).is_err() {
            r.violation("rollback:too-many:early", &format!("value #{} refused", i + 1), json!({"leg": "rollback", "kind": "65536th"}));
            return;
        }
        if i % 8192 == 0 && (sv.element_count() as u32 != i + 1) {
            r.violation("rollback:too-many:count", "element_count out of step", json!({"leg": "rollback", "kind": "65536th"}));
            return;
        }
    }
    r.eval(1);
    let before = snapshot(&sv);
    if before.count != 65535 || before.iterated.len() != 65535 {
        r.violation("rollback:too-many:count", &format!("after 65535 adds element_count={} iter().count()={}", before.count, before.iterated.len()), json!({"leg": "rollback", "kind": "65536th"}));
        return;
    }
    let kinds = failure_kinds();
    let mut attempts: Vec<(&str, FailFn)> = vec![("65536th:good-int", |sv| sv.add_value(&7i32, &ColumnType::Native(scylla_cql_core::frame::response::result::NativeType::Int)))];
    attempts.push(("65536th:good-list", |sv| sv.add_value(&vec![1i32, 2], &column_type(&list_of(t_int())))));
    for (k, _, f) in &kinds {
        attempts.push((k, *f));
    }
    for (k, f) in attempts {
        r.eval(1);
        let res = catch(AssertUnwindSafe(|| f(&mut sv)));
        let case = json!({"leg": "rollback", "kind": format!("at-65535:{k}")});
        let Ok(after) = try_snapshot(&sv) else {
            r.violation("rollback:too-many:list-corrupted", &format!("add ({k}) on a full list left it unreadable"), case);
            return;
        };
        match res {
            Err(p) => r.violation("rollback:too-many:panic", &format!("add #{k} on a full list panicked: {p}"), case),
            Ok(Ok(())) => r.violation("rollback:too-many:accepted", &format!("a 65536th value ({k}) was accepted; element_count={}, cells={}", after.count, after.iterated.len()), case),
            Ok(Err(_)) => {
                if after.bytes != before.bytes || after.count != before.count || after.iterated.len() != before.iterated.len() {
                    r.violation("rollback:too-many:state-changed", &format!("refused 65536th value ({k}) changed the list: bytes {} -> {}, count {} -> {}", before.bytes.len(), after.bytes.len(), before.count, after.count), case);
                } else {
                    r.nontrivial(1);
                }
            }
        }
    }
}

pub fn run_rollback(r: &Report) {
    let kinds = failure_kinds();
    let pre = prefixes(if r.tier().is_thorough() { 6 } else { 3 });
    r.counters.add("prefixes", pre.len() as u64);
    r.counters.add("failure_kinds", kinds.len() as u64 + 1);
    let mut work: Vec<(usize, usize)> = Vec::new();
    for p in 0..pre.len() {
        for k in 0..kinds.len() {
            work.push((p, k));
        }
    }
    let pre_ref = &pre;
    let kinds_ref = &kinds;
    vcore::par::for_each(r.args.jobs, 32, work.into_iter(), |(p, k)| {
        r.eval(1);
        let (kind, root, f) = &kinds_ref[k];
        check_rollback_case(r, &pre_ref[p], kind, root, *f);
    });
    // two failures in a row, then a good value
    for k1 in 0..kinds.len() {
        for k2 in 0..kinds.len() {
            r.eval(1);
            let mut sv = SerializedValues::new();
            let mut expect = Vec::new();
            let _ = add_good(&mut sv, &GOODS[2], &mut expect);
            let b0 = snapshot(&sv);
            let _ = catch(AssertUnwindSafe(|| (kinds[k1].2)(&mut sv)));
            let _ = catch(AssertUnwindSafe(|| (kinds[k2].2)(&mut sv)));
            let Ok(b1) = try_snapshot(&sv) else {
                r.violation(&format!("rollback:list-corrupted:{}", kinds[k2].0), &format!("two failed adds ({}, {}) left the list unreadable", kinds[k1].0, kinds[k2].0), json!({"leg": "rollback", "kind": format!("{}+{}", kinds[k1].0, kinds[k2].0), "prefix": [2]}));
                continue;
            };
            if b0.bytes != b1.bytes || b0.count != b1.count || b0.iterated != b1.iterated {
                r.violation(&format!("rollback:state-changed-after-two:{}", kinds[k2].0), &format!("two failed adds ({}, {}) changed the list", kinds[k1].0, kinds[k2].0), json!({"leg": "rollback", "kind": format!("{}+{}", kinds[k1].0, kinds[k2].0), "prefix": [2]}));
            } else {
                r.nontrivial(1);
            }
        }
    }
    check_too_many(r);
    r.set_rule("E-ENUM rollback. Every sequence of 0..3 (thorough: 0..6) good values over {int, text, list<int>, null, not-set, empty blob} (259 / 55987 prefixes) x every failure kind (61: wrong native type x8 incl. through &T, Box, MaybeUnset, SecretBox; three-level nesting list<tuple<int,udt>>; a map's 2nd value whose list's 2nd element fails; typed BTreeMap's last value; inner vector dimension; set bound to a map column; dynamic tuples longer than the CQL tuple whose surplus elements are null (all-null, trailing-null, mixed; top level, Option-wrapped, as list element, map value, UDT field); dynamic UDT values naming an unknown field whose value is null (top level and nested); sequences of length N+65536 / N+131072 / 65536 for N=0 bound to vector<T,N> (fixed and variable width; Vec, [T], CqlValue::Vector, nested); 2nd element/key/value/field failing in list, set, list<list>, map, fixed and variable vector, tuple, UDT, list<UDT>; wrong vector dimension; tuple too long x2; unknown UDT field; UDT name mismatch; empty into non-emptiable x2; value overflow x3; simulated size overflow after 0 / 33+nested bytes, inside list and tuple): the list is bytewise, count-wise and cell-wise identical after the failed add, the error has the expected root cause, and a following good value lands as the reference encodes it; every ordered pair of failures in a row; the 65536th value (good or failing) on a full list. distinct_nontrivial = cases where the failure happened, state was verified intact and the next value verified.");
    r.set_exhaustive(true);
    r.assume("a > 2 GiB value cannot be materialised; the size-overflow path is simulated by a SerializeValue impl that appends bytes (directly and through nested sub-writers) and then returns an error");
    r.sample(json!({"prefix": ["int 1", "list<int> [1,2]"], "failing": "vector-variable-2nd-element", "then": "int 0x11223344"}));
}


// ------------------------------------------------------------------------------------------------
// rows: whole-row binding (`SerializedValues::from_serializable`) - count always equals encoded cells

use scylla_cql_core::frame::response::result::{ColumnSpec, TableSpec};
use scylla_cql_core::serialize::row::{RowSerializationContext, SerializeRow};
use scylla_cql_core::value::MaybeUnset;
use std::collections::{BTreeMap, HashMap};

type RowCell = MaybeUnset<Option<CqlValue>>;

fn row_value_kinds() -> Vec<(&'static str, Option<Type>, RowCell)> {
    // (label, shape of the value or None for null/not-set, the cell)
    vec![
        ("int", Some(t_int()), MaybeUnset::Set(Some(CqlValue::Int(7)))),
        ("text", Some(t_text()), MaybeUnset::Set(Some(CqlValue::Text("ab".into())))),
        ("list<int>", Some(list_of(t_int())), MaybeUnset::Set(Some(CqlValue::List(vec![CqlValue::Int(1), CqlValue::Int(2)])))),
        ("list<text>", Some(list_of(t_text())), MaybeUnset::Set(Some(CqlValue::List(vec![CqlValue::Int(1), CqlValue::Text("x".into())])))), // 2nd element is text
        ("null", None, MaybeUnset::Set(None)),
        ("unset", None, MaybeUnset::Unset),
    ]
}

fn ref_cell(kind: usize, t: &Type) -> Vec<u8> {
    let v = match kind {
        0 => Value::Int(7),
        1 => Value::Text("ab".into()),
        2 => Value::List(vec![Value::Int(1), Value::Int(2)]),
        4 => Value::Null,
        5 => Value::Unset,
        _ => unreachable!(),
    };
    refv::encode(t, &v).unwrap().framed()
}

fn judge_row(r: &Report, form: &str, cols: &[usize], vals: &[usize], names_ok: bool, res: Result<Result<SerializedValues, SerializationError>, String>) {
    let col_types = [t_int(), t_text(), list_of(t_int())];
    let kinds = row_value_kinds();
    let case = || json!({"leg": "rows", "form": form, "columns": cols, "values": vals, "names_ok": names_ok});
    let fits = |k: usize, c: usize| match &kinds[k].1 {
        None => true,
        Some(vt) => *vt == col_types[c],
    };
    let must_accept = names_ok && cols.len() == vals.len() && cols.iter().zip(vals).all(|(c, k)| fits(*k, *c));
    match res {
        Err(p) => r.violation(&format!("rows:panic:{form}"), &format!("binding a row ({form}) panicked: {p}"), case()),
        Ok(Err(e)) => {
            if must_accept {
                r.violation(&format!("rows:good-row-refused:{form}"), &format!("a row whose every value fits its column was refused: {e}"), case());
            } else {
                r.counters.add("rows_refused_as_expected", 1);
            }
        }
        Ok(Ok(sv)) => {
            if !must_accept {
                r.violation(&format!("rows:mismatch-accepted:{form}"), &format!("a row with a value that does not fit its column (or wrong arity / names) was accepted; {} cells", sv.element_count()), case());
                return;
            }
            let snap = snapshot(&sv);
            let mut expect = Vec::new();
            for (c, k) in cols.iter().zip(vals) {
                expect.extend(ref_cell(*k, &col_types[*c]));
            }
            if snap.count as usize != cols.len() || snap.iterated.len() != cols.len() || snap.bytes[2..] != expect[..] {
                r.violation(&format!("rows:count-or-bytes:{form}"), &format!("row of {} columns: element_count={}, iter().count()={}, {} bytes vs reference {}", cols.len(), snap.count, snap.iterated.len(), snap.bytes.len() - 2, expect.len()), case());
                return;
            }
            r.nontrivial(1);
        }
    }
}


/// Value-count boundary: {65534, 65535, 65536, 65537, 131072} values through every way of building a
/// `SerializedValues`. Either refused (allowed only above 65535) or element_count() == iter().count() == bound.
fn run_count_boundary(r: &Report) {
    use scylla_cql_core::frame::response::result::NativeType;
    let table = TableSpec::owned("ks".into(), "t".into());
    let int_ct = ColumnType::Native(NativeType::Int);
    let judge = |way: &str, n: usize, res: Result<Result<SerializedValues, SerializationError>, String>| {
        r.eval(1);
        let case = json!({"leg": "rows", "part": "count-boundary", "way": way, "values": n});
        match res {
            Err(p) => r.violation(&format!("rows:count-boundary:panic:{way}"), &format!("binding {n} values via {way} panicked: {p}"), case),
            Ok(Err(e)) => {
                if n <= 65535 {
                    r.violation(&format!("rows:count-boundary:refused-within-limit:{way}"), &format!("{n} values via {way} refused: {e}"), case);
                } else {
                    r.nontrivial(1);
                }
            }
            Ok(Ok(sv)) => match catch(AssertUnwindSafe(|| {
                let mut buf = Vec::new();
                sv.write_to_request(&mut buf);
                (sv.element_count() as usize, sv.iter().count(), sv.is_empty(), u16::from_be_bytes([buf[0], buf[1]]) as usize)
            })) {
                Err(p) => r.violation(&format!("rows:count-boundary:list-corrupted:{way}"), &format!("{n} values via {way}: reading the list back panicked: {p}"), case),
                Ok((count, cells, empty, on_wire)) => {
                    if count != cells || cells != n || on_wire != cells || empty != (n == 0) {
                        r.violation(
                            &format!("rows:count-boundary:count-vs-cells:{way}"),
                            &format!("{n} values bound via {way} were accepted: element_count()={count}, is_empty()={empty}, count written to the request={on_wire}, but the list holds {cells} encoded cells"),
                            case,
                        );
                    } else {
                        r.nontrivial(1);
                    }
                }
            },
        }
    };
    for n in [65534usize, 65535, 65536, 65537, 131072] {
        let specs: Vec<ColumnSpec<'static>> = (0..n).map(|i| ColumnSpec::owned(format!("c{i}"), int_ct.clone(), table.clone())).collect();
        let ctx = RowSerializationContext::from_specs(&specs);
        let vals: Vec<i32> = (0..n as i32).collect();
        judge("from_serializable(Vec<T>)", n, catch(AssertUnwindSafe(|| SerializedValues::from_serializable(&ctx, &vals))));
        judge("from_serializable(&[T])", n, catch(AssertUnwindSafe(|| SerializedValues::from_serializable(&ctx, &vals.as_slice()))));
        let hm: HashMap<String, i32> = (0..n).map(|i| (format!("c{i}"), i as i32)).collect();
        judge("from_serializable(HashMap<String,T>)", n, catch(AssertUnwindSafe(|| SerializedValues::from_serializable(&ctx, &hm))));
        let names: Vec<String> = (0..n).map(|i| format!("c{i}")).collect();
        let bm: BTreeMap<&str, i32> = names.iter().enumerate().map(|(i, s)| (s.as_str(), i as i32)).collect();
        judge("from_serializable(BTreeMap<&str,T>)", n, catch(AssertUnwindSafe(|| SerializedValues::from_serializable(&ctx, &bm))));
        judge(
            "from_closure(make_cell_writer)",
            n,
            catch(AssertUnwindSafe(|| {
                SerializedValues::from_closure(|w| {
                    for i in 0..n {
                        w.make_cell_writer().set_value(&(i as i32).to_be_bytes()).unwrap();
                    }
                    Ok(())
                })
                .map(|(sv, ())| sv)
            })),
        );
        // from_closure appending an existing full list plus single cells
        let mut full = SerializedValues::new();
        for i in 0..65534i32 {
            full.add_value(&i, &int_ct).expect("65534 values fit");
        }
        judge(
            "from_closure(append_serialize_row+cells)",
            n,
            catch(AssertUnwindSafe(|| {
                SerializedValues::from_closure(|w| {
                    let mut left = n;
                    while left >= 65534 {
                        w.append_serialize_row(&full);
                        left -= 65534;
                    }
                    for i in 0..left {
                        w.make_cell_writer().set_value(&(i as i32).to_be_bytes()).unwrap();
                    }
                    Ok(())
                })
                .map(|(sv, ())| sv)
            })),
        );
        // add_value loop: adds beyond 65535 must be refused and leave the list unchanged
        r.eval(1);
        let mut sv = SerializedValues::new();
        let mut bound = 0usize;
        let mut broken = false;
        for i in 0..n {
            let before = (sv.element_count(), sv.buffer_size());
            match sv.add_value(&(i as i32), &int_ct) {
                Ok(()) => bound += 1,
                Err(_) => {
                    if (sv.element_count(), sv.buffer_size()) != before {
                        r.violation("rows:count-boundary:refusal-changed-list:add_value", &format!("add_value #{} refused but the list changed", i + 1), json!({"leg": "rows", "part": "count-boundary", "way": "add_value", "values": n}));
                        broken = true;
                        break;
                    }
                }
            }
        }
        if !broken {
            let want_bound = n.min(65535);
            let cells = catch(AssertUnwindSafe(|| sv.iter().count())).unwrap_or(usize::MAX);
            if bound != want_bound || sv.element_count() as usize != cells || cells != bound {
                r.violation(
                    "rows:count-boundary:count-vs-cells:add_value",
                    &format!("{n} add_value calls: {bound} accepted (expected {want_bound}), element_count()={}, {cells} encoded cells", sv.element_count()),
                    json!({"leg": "rows", "part": "count-boundary", "way": "add_value", "values": n}),
                );
            } else {
                r.nontrivial(1);
            }
        }
    }
    r.counters.add("count_boundary_sizes", 5);
    r.counters.add("count_boundary_ways", 7);
}

/// RowWriter compositions: every order of {one cell, append a pre-serialized list of n cells (n = 0..3)} with at most
/// three cells and three appends, plus boundary sums around 65535, through `RowWriter` directly and through
/// `SerializedValues::from_closure`. Reported count == encoded cells == what was bound; refusal only above 65535.
fn run_writer_compositions(r: &Report) {
    use scylla_cql_core::frame::response::result::NativeType;
    use scylla_cql_core::serialize::writers::RowWriter;
    let int_ct = ColumnType::Native(NativeType::Int);
    let make_sv = |n: usize, base: i32| {
        let mut sv = SerializedValues::new();
        for i in 0..n {
            sv.add_value(&(base + i as i32), &int_ct).expect("pre-serialized list");
        }
        sv
    };
    // op: None = one cell through make_cell_writer, Some(n) = append_serialize_row of an n-cell list
    type Op = Option<usize>;
    fn count_cells(mut b: &[u8]) -> Option<usize> {
        let mut n = 0;
        while !b.is_empty() {
            if b.len() < 4 {
                return None;
            }
            let l = i32::from_be_bytes([b[0], b[1], b[2], b[3]]);
            b = &b[4..];
            if l >= 0 {
                if b.len() < l as usize {
                    return None;
                }
                b = &b[l as usize..];
            }
            n += 1;
        }
        Some(n)
    }
    let apply = |w: &mut RowWriter, ops: &[Op], pre: &[SerializedValues]| {
        for (i, op) in ops.iter().enumerate() {
            match op {
                None => {
                    w.make_cell_writer().set_value(&(i as i32).to_be_bytes()).unwrap();
                }
                Some(n) => w.append_serialize_row(&pre[*n]),
            }
        }
    };
    let check = |ops: &[Op], pre: &[SerializedValues], label: &str| {
        let bound: usize = ops.iter().map(|o| o.map(|n| pre[n].element_count() as usize).unwrap_or(1)).sum();
        let case = || json!({"leg": "rows", "part": "writer-compositions", "ops": ops.iter().map(|o| match o { None => "cell".to_string(), Some(n) => format!("append({})", pre[*n].element_count()) }).collect::<Vec<_>>()});
        // RowWriter directly
        r.eval(1);
        let direct = catch(AssertUnwindSafe(|| {
            let mut buf = Vec::new();
            let mut w = RowWriter::new(&mut buf);
            apply(&mut w, ops, pre);
            let vc = w.value_count();
            (vc, count_cells(&buf))
        }));
        match direct {
            Err(p) => r.violation(&format!("rows:writer:panic:{label}"), &format!("RowWriter composition panicked: {p}"), case()),
            Ok((vc, cells)) => {
                if cells != Some(bound) || vc != bound {
                    r.violation(&format!("rows:writer:count-vs-cells:RowWriter:{label}"), &format!("RowWriter: {bound} values bound, value_count()={vc}, encoded cells={cells:?}"), case());
                } else {
                    r.nontrivial(1);
                }
            }
        }
        // through from_closure
        r.eval(1);
        let res = catch(AssertUnwindSafe(|| {
            SerializedValues::from_closure(|w| {
                apply(w, ops, pre);
                Ok(())
            })
            .map(|(sv, ())| sv)
        }));
        match res {
            Err(p) => r.violation(&format!("rows:writer:panic:{label}"), &format!("from_closure composition panicked: {p}"), case()),
            Ok(Err(e)) => {
                if bound <= 65535 {
                    r.violation(&format!("rows:writer:refused-within-limit:{label}"), &format!("{bound} values through from_closure refused: {e}"), case());
                } else {
                    r.nontrivial(1);
                }
            }
            Ok(Ok(sv)) => {
                let rb = catch(AssertUnwindSafe(|| {
                    let mut buf = Vec::new();
                    sv.write_to_request(&mut buf);
                    (sv.element_count() as usize, sv.iter().count(), u16::from_be_bytes([buf[0], buf[1]]) as usize)
                }));
                match rb {
                    Err(p) => r.violation(&format!("rows:writer:list-corrupted:{label}"), &format!("reading the list back panicked: {p}"), case()),
                    Ok((count, cells, on_wire)) => {
                        if count != cells || cells != bound || on_wire != cells {
                            r.violation(
                                &format!("rows:writer:count-vs-cells:from_closure:{label}"),
                                &format!("{bound} values bound through from_closure were accepted: element_count()={count}, count written to the request={on_wire}, encoded cells={cells}"),
                                case(),
                            );
                        } else {
                            r.nontrivial(1);
                        }
                    }
                }
            }
        }
    };
    // small compositions: all orders, <= 3 cells and <= 3 appends, appended lists of 0..3 cells
    let pre_small: Vec<SerializedValues> = (0..4).map(|n| make_sv(n, 100 * n as i32)).collect();
    let alphabet: [Op; 5] = [None, Some(0), Some(1), Some(2), Some(3)];
    let mut seqs: Vec<Vec<Op>> = vec![vec![]];
    let mut layer: Vec<Vec<Op>> = vec![vec![]];
    for _ in 0..6 {
        let mut next = Vec::new();
        for p in &layer {
            for a in alphabet {
                let mut q = p.clone();
                q.push(a);
                if q.iter().filter(|o| o.is_none()).count() <= 3 && q.iter().filter(|o| o.is_some()).count() <= 3 {
                    next.push(q);
                }
            }
        }
        seqs.extend(next.iter().cloned());
        layer = next;
    }
    r.counters.add("writer_small_compositions", seqs.len() as u64);
    for ops in &seqs {
        check(ops, &pre_small, "small");
    }
    // boundary sums around 65535
    let pre_big: Vec<SerializedValues> = [40000usize, 25535, 25536, 65535, 65534, 1, 0].iter().map(|n| make_sv(*n, 0)).collect();
    let (a40k, a25535, a25536, a65535, a65534, a1, a0) = (Some(0), Some(1), Some(2), Some(3), Some(4), Some(5), Some(6));
    let big: Vec<Vec<Op>> = vec![
        vec![a40k, a25535],
        vec![a25535, a40k],
        vec![a40k, a25536],
        vec![a25536, a40k],
        vec![a40k, a40k],
        vec![a40k, a40k, a40k],
        vec![a65535],
        vec![a65535, a0],
        vec![a0, a65535],
        vec![a65535, a1],
        vec![a1, a65535],
        vec![None, a65535],
        vec![a65535, None],
        vec![None, a65534],
        vec![a65534, None],
        vec![None, a65534, None],
        vec![a65534, a1, a1],
        vec![None, a40k, None, a25535],
        vec![None, a40k, a25535],
        vec![a40k, None, a25535],
    ];
    r.counters.add("writer_boundary_compositions", big.len() as u64);
    for ops in &big {
        check(ops, &pre_big, "boundary");
    }
}

// ------------------------------------------------------------------------------------------------
// rows, read side: DeserializeRow::type_check + deserialize for Rust tuples (arity 0..4) and the dynamic Row type

use crate::carriers::Carrier;
use scylla_cql_core::deserialize::FrameSlice;
use scylla_cql_core::deserialize::row::{ColumnIterator, DeserializeRow};

struct RowEntry {
    name: String,
    /// expected relation given the column types (counts must match for tuples)
    rel: fn(&[Type]) -> Rel,
    type_check: fn(&[ColumnSpec<'static>]) -> Result<Result<(), String>, String>,
    /// deserialize -> the row as a reference tuple value
    deserialize: fn(&[ColumnSpec<'static>], &[Type], &[u8]) -> Result<Result<Value, String>, String>,
}

fn row_entry<T>() -> RowEntry
where
    T: Carrier + for<'f, 'm> DeserializeRow<'f, 'm>,
{
    RowEntry {
        name: T::name(),
        rel: |cols| {
            // a row is not a tuple value: the column count must equal the tuple's arity
            let arity = match T::home_types().first() {
                Some(Type::Tuple(ts)) => ts.len(),
                _ => usize::MAX,
            };
            if cols.len() != arity { Rel::Reject } else { T::rel_de(&Type::Tuple(cols.to_vec())) }
        },
        type_check: |specs| catch(AssertUnwindSafe(|| <T as DeserializeRow>::type_check(specs).map_err(|e| e.to_string()))),
        deserialize: |specs, cols, bytes| {
            let frame = bytes::Bytes::copy_from_slice(bytes);
            catch(AssertUnwindSafe(|| {
                let it = ColumnIterator::new(specs, FrameSlice::new(&frame));
                <T as DeserializeRow>::deserialize(it).map(|row| row.key(&Type::Tuple(cols.to_vec()))).map_err(|e| e.to_string())
            }))
        },
    }
}

fn dyn_row_entry() -> RowEntry {
    use scylla_cql_core::value::Row;
    RowEntry {
        name: "Row".to_string(),
        rel: |_| Rel::Accept,
        type_check: |specs| catch(AssertUnwindSafe(|| <Row as DeserializeRow>::type_check(specs).map_err(|e| e.to_string()))),
        deserialize: |specs, _cols, bytes| {
            let frame = bytes::Bytes::copy_from_slice(bytes);
            catch(AssertUnwindSafe(|| {
                let it = ColumnIterator::new(specs, FrameSlice::new(&frame));
                <Row as DeserializeRow>::deserialize(it).map_err(|e| e.to_string()).and_then(|row| {
                    row.columns.iter().map(|c| match c {
                        None => Ok(Value::Null),
                        Some(v) => from_cql(v),
                    }).collect::<Result<Vec<_>, _>>().map(Value::Tuple)
                })
            }))
        },
    }
}

fn row_entries() -> Vec<RowEntry> {
    let mut v = vec![dyn_row_entry(), row_entry::<()>()];
    macro_rules! reg { ($($t:ty),* $(,)?) => { $( v.push(row_entry::<$t>()); )* } }
    reg!(
        (i32,), (String,), (Vec<i32>,), (Option<i32>,), (CqlValue,),
        (i32, i32), (i32, String), (String, i32), (String, String), (i32, Vec<i32>), (Vec<i32>, String), (Option<String>, Option<i32>), (CqlValue, i32),
        (i32, String, Vec<i32>), (i32, i32, i32), (String, Option<i32>, Option<Vec<i32>>), (Option<i32>, CqlValue, String),
        (i32, String, Vec<i32>, i32), (Option<i32>, Option<String>, Option<Vec<i32>>, Option<i32>), (String, String, i32, CqlValue),
    );
    v
}

fn run_row_decode_matrix(r: &Report) {
    let col_types = [t_int(), t_text(), list_of(t_int())];
    let table = TableSpec::owned("ks".into(), "t".into());
    let entries = row_entries();
    // all column lists of length 0..5
    let mut lists: Vec<Vec<usize>> = vec![vec![]];
    let mut layer: Vec<Vec<usize>> = vec![vec![]];
    for _ in 0..5 {
        let mut next = Vec::new();
        for p in &layer {
            for c in 0..col_types.len() {
                let mut q = p.clone();
                q.push(c);
                next.push(q);
            }
        }
        lists.extend(next.iter().cloned());
        layer = next;
    }
    r.counters.add("row_decode_carriers", entries.len() as u64);
    r.counters.add("row_decode_column_lists", lists.len() as u64);
    let (entries_ref, lists_ref, table_ref) = (&entries, &lists, &table);
    let outcomes: [AtomicU64; 4] = Default::default(); // accept ok, reject refused, dontcare accepted, dontcare refused
    let out_ref = &outcomes;
    vcore::par::for_each(r.args.jobs, 8, 0..lists.len(), |li| {
        let cols: Vec<Type> = lists_ref[li].iter().map(|c| col_types[*c].clone()).collect();
        let specs: Vec<ColumnSpec<'static>> = cols.iter().enumerate().map(|(i, t)| ColumnSpec::owned(format!("c{i}"), column_type(t), table_ref.clone())).collect();
        // row A: a witness in every column; row B: first column null
        let witnesses: Vec<Value> = cols.iter().map(crate::carriers::witness_value).collect();
        let mut row_a = Vec::new();
        let mut row_b = Vec::new();
        for (i, (t, w)) in cols.iter().zip(&witnesses).enumerate() {
            let cell = refv::encode(t, w).unwrap().framed();
            row_a.extend_from_slice(&cell);
            if i == 0 {
                row_b.extend_from_slice(&(-1i32).to_be_bytes());
            } else {
                row_b.extend_from_slice(&cell);
            }
        }
        let want_a = Value::Tuple(witnesses.clone());
        for e in entries_ref {
            r.eval(1);
            let case = || json!({"leg": "rows", "part": "row-decode", "carrier": e.name, "columns": cols.iter().map(|t| t.to_string()).collect::<Vec<_>>()});
            let rel = (e.rel)(&cols);
            let tc = (e.type_check)(&specs);
            let accepted = match &tc {
                Err(p) => {
                    r.violation(&format!("rows:de:panic-type_check:{}", e.name), &format!("DeserializeRow::type_check of {} against {} columns panicked: {p}", e.name, cols.len()), case());
                    continue;
                }
                Ok(Ok(())) => true,
                Ok(Err(_)) => false,
            };
            match (rel, accepted) {
                (Rel::Reject, true) => {
                    // show what reading such a row does
                    let what = match (e.deserialize)(&specs, &cols, &row_a) {
                        Err(p) => format!("and deserialize then panics: {p}"),
                        Ok(Ok(v)) => format!("and deserialize then yields {}", values::brief(&v)),
                        Ok(Err(err)) => format!("and deserialize then fails: {err}"),
                    };
                    r.violation(
                        &format!("rows:de:mismatch-accepted:{}", e.name),
                        &format!("DeserializeRow::type_check lets a row of columns [{}] be read as {} {what}", cols.iter().map(|t| t.to_string()).collect::<Vec<_>>().join(", "), e.name),
                        case(),
                    );
                    continue;
                }
                (Rel::Accept, false) => {
                    r.violation(&format!("rows:de:documented-row-refused:{}", e.name), &format!("{} refused for columns [{}]: {:?}", e.name, cols.iter().map(|t| t.to_string()).collect::<Vec<_>>().join(", "), tc), case());
                    continue;
                }
                (Rel::Reject, false) => {
                    out_ref[1].fetch_add(1, Ordering::Relaxed);
                    continue;
                }
                (Rel::DontCare, false) => {
                    out_ref[3].fetch_add(1, Ordering::Relaxed);
                    continue;
                }
                (Rel::DontCare, true) => {
                    out_ref[2].fetch_add(1, Ordering::Relaxed);
                }
                (Rel::Accept, true) => {}
            }
            // type_check passed legitimately: reading never panics; for Accept the row comes back as bound
            match (e.deserialize)(&specs, &cols, &row_a) {
                Err(p) => r.violation(&format!("rows:de:panic-deserialize:{}", e.name), &format!("reading a row of {} columns as {} panicked: {p}", cols.len(), e.name), case()),
                Ok(Err(err)) => {
                    if rel == Rel::Accept {
                        r.violation(&format!("rows:de:row-not-read:{}", e.name), &format!("a well-formed row of [{}] is not read as {}: {err}", cols.iter().map(|t| t.to_string()).collect::<Vec<_>>().join(", "), e.name), case());
                    }
                }
                Ok(Ok(got)) => {
                    if rel == Rel::Accept {
                        if refv::canon(&Type::Tuple(cols.clone()), &got).ok() != refv::canon(&Type::Tuple(cols.clone()), &want_a).ok() && !(cols.is_empty()) {
                            r.violation(&format!("rows:de:row-misread:{}", e.name), &format!("row {} read as {} gives {}", values::brief(&want_a), e.name, values::brief(&got)), case());
                        } else {
                            out_ref[0].fetch_add(1, Ordering::Relaxed);
                        }
                    }
                }
            }
            if !cols.is_empty() {
                if let Err(p) = (e.deserialize)(&specs, &cols, &row_b) {
                    r.violation(&format!("rows:de:panic-deserialize:{}", e.name), &format!("reading a row whose first column is null as {} panicked: {p}", e.name), case());
                }
            }
        }
    });
    r.counters.add("row_decode_accept_read_back", outcomes[0].load(Ordering::Relaxed));
    r.counters.add("row_decode_reject_refused", outcomes[1].load(Ordering::Relaxed));
    r.counters.add("row_decode_dontcare_accepted", outcomes[2].load(Ordering::Relaxed));
    r.counters.add("row_decode_dontcare_refused", outcomes[3].load(Ordering::Relaxed));
    r.nontrivial(outcomes[0].load(Ordering::Relaxed) + outcomes[1].load(Ordering::Relaxed));
}

/// Named-value rows against column lists with repeated names: BTreeMap / HashMap with String and &str keys; key sets
/// {exact, one surplus key, one missing key}. Surplus or missing keys must be refused; an accepted row carries the
/// value at every occurrence of its name.
fn run_named_rows(r: &Report) {
    let names = ["x", "y", "z"];
    let name_types = [t_int(), t_text(), list_of(t_int())];
    let name_vals: [RowCell; 3] = [
        MaybeUnset::Set(Some(CqlValue::Int(7))),
        MaybeUnset::Set(Some(CqlValue::Text("ab".into()))),
        MaybeUnset::Set(Some(CqlValue::List(vec![CqlValue::Int(1), CqlValue::Int(2)]))),
    ];
    let ref_cells: Vec<Vec<u8>> = (0..3).map(|k| ref_cell(k, &name_types[k])).collect();
    let table = TableSpec::owned("ks".into(), "t".into());
    // all column-name sequences of length 1..4
    let mut lists: Vec<Vec<usize>> = Vec::new();
    let mut layer: Vec<Vec<usize>> = vec![vec![]];
    for _ in 0..4 {
        let mut next = Vec::new();
        for p in &layer {
            for c in 0..3 {
                let mut q = p.clone();
                q.push(c);
                next.push(q);
            }
        }
        lists.extend(next.iter().cloned());
        layer = next;
    }
    r.counters.add("named_row_column_lists", lists.len() as u64);
    let mut accepted_ok = 0u64;
    let mut refused_ok = 0u64;
    for cols in &lists {
        let specs: Vec<ColumnSpec<'static>> = cols.iter().map(|c| ColumnSpec::owned(names[*c].to_string(), column_type(&name_types[*c]), table.clone())).collect();
        let ctx = RowSerializationContext::from_specs(&specs);
        let mut distinct: Vec<usize> = cols.clone();
        distinct.sort();
        distinct.dedup();
        // key sets: (label, keys as (name, cell), must accept)
        let mut keysets: Vec<(String, Vec<(String, RowCell)>, bool)> = Vec::new();
        let exact: Vec<(String, RowCell)> = distinct.iter().map(|k| (names[*k].to_string(), name_vals[*k].clone())).collect();
        keysets.push(("exact".into(), exact.clone(), true));
        // surplus: a key that names no column - a foreign name, and each declared-elsewhere name not among the columns
        let mut s1 = exact.clone();
        s1.push(("w".to_string(), MaybeUnset::Set(Some(CqlValue::Int(9)))));
        keysets.push(("surplus:w".into(), s1, false));
        for k in 0..3 {
            if !distinct.contains(&k) {
                let mut s2 = exact.clone();
                s2.push((names[k].to_string(), name_vals[k].clone()));
                keysets.push((format!("surplus:{}", names[k]), s2, false));
            }
        }
        for k in &distinct {
            let m: Vec<(String, RowCell)> = exact.iter().filter(|(n, _)| n != names[*k]).cloned().collect();
            keysets.push((format!("missing:{}", names[*k]), m, false));
        }
        for (label, keys, must_accept) in &keysets {
            let bs: BTreeMap<String, RowCell> = keys.iter().cloned().collect();
            let hs: HashMap<String, RowCell> = keys.iter().cloned().collect();
            let br: BTreeMap<&str, RowCell> = keys.iter().map(|(n, c)| (n.as_str(), c.clone())).collect();
            let hr: HashMap<&str, RowCell> = keys.iter().map(|(n, c)| (n.as_str(), c.clone())).collect();
            let runs: Vec<(&str, Result<Result<SerializedValues, SerializationError>, String>)> = vec![
                ("BTreeMap<String,T>", catch(AssertUnwindSafe(|| SerializedValues::from_serializable(&ctx, &bs)))),
                ("HashMap<String,T>", catch(AssertUnwindSafe(|| SerializedValues::from_serializable(&ctx, &hs)))),
                ("BTreeMap<&str,T>", catch(AssertUnwindSafe(|| SerializedValues::from_serializable(&ctx, &br)))),
                ("HashMap<&str,T>", catch(AssertUnwindSafe(|| SerializedValues::from_serializable(&ctx, &hr)))),
            ];
            for (form, res) in runs {
                r.eval(1);
                let case = || json!({"leg": "rows", "part": "named-rows", "form": form, "columns": cols.iter().map(|c| names[*c]).collect::<Vec<_>>(), "keys": label});
                let kind = label.split(':').next().unwrap_or("");
                match res {
                    Err(p) => r.violation(&format!("rows:named:panic:{form}"), &format!("named row ({label}) for columns {:?} panicked: {p}", cols.iter().map(|c| names[*c]).collect::<Vec<_>>()), case()),
                    Ok(Err(e)) => {
                        if *must_accept {
                            r.violation(&format!("rows:named:exact-keys-refused:{form}"), &format!("a row naming exactly the columns {:?} was refused: {e}", cols.iter().map(|c| names[*c]).collect::<Vec<_>>()), case());
                        } else {
                            refused_ok += 1;
                        }
                    }
                    Ok(Ok(sv)) => {
                        if !*must_accept {
                            r.violation(
                                &format!("rows:named:{kind}-key-accepted:{form}"),
                                &format!("columns {:?}, row keys {:?} ({label}): accepted with {} cells; a value that names no column is dropped / a column has no value", cols.iter().map(|c| names[*c]).collect::<Vec<_>>(), keys.iter().map(|(n, _)| n.as_str()).collect::<Vec<_>>(), sv.element_count()),
                                case(),
                            );
                            continue;
                        }
                        let snap = snapshot(&sv);
                        let mut expect = Vec::new();
                        for c in cols {
                            expect.extend_from_slice(&ref_cells[*c]);
                        }
                        if snap.count as usize != cols.len() || snap.iterated.len() != cols.len() || snap.bytes[2..] != expect[..] {
                            r.violation(&format!("rows:named:count-or-bytes:{form}"), &format!("columns {:?}: element_count={}, cells={}, bytes differ from the value at every occurrence", cols.iter().map(|c| names[*c]).collect::<Vec<_>>(), snap.count, snap.iterated.len()), case());
                        } else {
                            accepted_ok += 1;
                        }
                    }
                }
            }
        }
    }
    r.counters.add("named_rows_accepted_and_verified", accepted_ok);
    r.counters.add("named_rows_refused_as_required", refused_ok);
    r.nontrivial(accepted_ok + refused_ok);
}

pub fn run_rows(r: &Report) {
    run_count_boundary(r);
    run_named_rows(r);
    run_row_decode_matrix(r);
    run_writer_compositions(r);
    let col_types = [t_int(), t_text(), list_of(t_int())];
    let kinds = row_value_kinds();
    let table = TableSpec::owned("ks".into(), "t".into());
    // all column lists of length 0..3 x all value lists of length 0..3 (arity mismatch included)
    let mut col_lists: Vec<Vec<usize>> = vec![vec![]];
    let mut layer: Vec<Vec<usize>> = vec![vec![]];
    for _ in 0..3 {
        let mut next = Vec::new();
        for p in &layer {
            for c in 0..col_types.len() {
                let mut q = p.clone();
                q.push(c);
                next.push(q);
            }
        }
        col_lists.extend(next.iter().cloned());
        layer = next;
    }
    let mut val_lists: Vec<Vec<usize>> = vec![vec![]];
    let mut layer: Vec<Vec<usize>> = vec![vec![]];
    for _ in 0..3 {
        let mut next = Vec::new();
        for p in &layer {
            for k in 0..kinds.len() {
                let mut q = p.clone();
                q.push(k);
                next.push(q);
            }
        }
        val_lists.extend(next.iter().cloned());
        layer = next;
    }
    r.counters.add("row_column_lists", col_lists.len() as u64);
    r.counters.add("row_value_lists", val_lists.len() as u64);
    let work: Vec<(usize, usize)> = (0..col_lists.len()).flat_map(|c| (0..val_lists.len()).map(move |v| (c, v))).collect();
    let (cl, vl, kinds_ref, table_ref) = (&col_lists, &val_lists, &kinds, &table);
    vcore::par::for_each(r.args.jobs, 64, work.into_iter(), |(ci, vi)| {
        let cols = &cl[ci];
        let vals = &vl[vi];
        // arity mismatch only for |difference| <= 1 and a few shapes, to keep the product small but present
        if cols.len() != vals.len() && (cols.len().abs_diff(vals.len()) > 1 || vals.iter().any(|k| *k != 0)) {
            return;
        }
        let specs: Vec<ColumnSpec<'static>> = cols.iter().enumerate().map(|(i, c)| ColumnSpec::owned(format!("c{i}"), column_type(&col_types[*c]), table_ref.clone())).collect();
        let ctx = RowSerializationContext::from_specs(&specs);
        let cells: Vec<RowCell> = vals.iter().map(|k| kinds_ref[*k].2.clone()).collect();
        let run = |row: &dyn Fn() -> Result<SerializedValues, SerializationError>| catch(AssertUnwindSafe(row));
        r.eval(1);
        judge_row(r, "Vec<T>", cols, vals, true, run(&|| SerializedValues::from_serializable(&ctx, &cells)));
        r.eval(1);
        judge_row(r, "&[T]", cols, vals, true, run(&|| SerializedValues::from_serializable(&ctx, &cells.as_slice())));
        // tuples
        match cells.len() {
            0 => {
                r.eval(1);
                judge_row(r, "()", cols, vals, true, run(&|| SerializedValues::from_serializable(&ctx, &())));
            }
            1 => {
                r.eval(1);
                judge_row(r, "(T,)", cols, vals, true, run(&|| SerializedValues::from_serializable(&ctx, &(cells[0].clone(),))));
            }
            2 => {
                r.eval(1);
                judge_row(r, "(T,T)", cols, vals, true, run(&|| SerializedValues::from_serializable(&ctx, &(cells[0].clone(), cells[1].clone()))));
            }
            _ => {
                r.eval(1);
                judge_row(r, "(T,T,T)", cols, vals, true, run(&|| SerializedValues::from_serializable(&ctx, &(cells[0].clone(), cells[1].clone(), cells[2].clone()))));
            }
        }
        // by-name maps: right names (in reverse insertion order), then one wrong name
        if cols.len() == vals.len() {
            let hm: HashMap<String, RowCell> = cells.iter().enumerate().rev().map(|(i, c)| (format!("c{i}"), c.clone())).collect();
            r.eval(1);
            judge_row(r, "HashMap<String,T>", cols, vals, true, run(&|| SerializedValues::from_serializable(&ctx, &hm)));
            let names: Vec<String> = (0..cells.len()).map(|i| format!("c{i}")).collect();
            let bm: BTreeMap<&str, RowCell> = cells.iter().enumerate().map(|(i, c)| (names[i].as_str(), c.clone())).collect();
            r.eval(1);
            judge_row(r, "BTreeMap<&str,T>", cols, vals, true, run(&|| SerializedValues::from_serializable(&ctx, &bm)));
            if !cells.is_empty() {
                let mut wrong = hm.clone();
                let v0 = wrong.remove("c0").unwrap();
                wrong.insert("zz".into(), v0);
                r.eval(1);
                judge_row(r, "HashMap<String,T>", cols, vals, false, run(&|| SerializedValues::from_serializable(&ctx, &wrong)));
                let mut extra = hm.clone();
                extra.insert("zz".into(), MaybeUnset::Set(None));
                r.eval(1);
                judge_row(r, "HashMap<String,T>", cols, vals, false, run(&|| SerializedValues::from_serializable(&ctx, &extra)));
            }
        }
    });
    r.set_rule("E-ENUM rows. Every column list of length 0..3 over {int, text, list<int>} x every value list of length 0..3 over {int, text, list<int>, a list whose 2nd element is text, null, not-set} (equal arity: all; arity off by one: all-int values) bound as Vec<T>, &[T], Rust tuple, HashMap<String,T> and BTreeMap<&str,T> (right names, one wrong name, one extra name) through SerializedValues::from_serializable: accepted iff every value fits its column and arity/names match; on success element_count() == iter().count() == number of columns and the bytes are the concatenated reference cells. Value-count boundary: {65534, 65535, 65536, 65537, 131072} int values through from_serializable over Vec, slice, HashMap<String,_>, BTreeMap<&str,_> with a matching context of that many columns, from_closure (cell by cell; appending an existing list), and an add_value loop: refused (only above 65535, list unchanged) or element_count() == iter().count() == count on the wire == number bound. RowWriter compositions: every order of {one cell via make_cell_writer, append_serialize_row of a pre-serialized list of 0..3 cells} with at most three cells and three appends, plus 20 boundary sums around 65535 (40000+25535, 40000+25536, 40000+40000, cell+65535, ...), through RowWriter directly (value_count() == encoded cells == bound) and through from_closure (refused only above 65535, else element_count() == iter().count() == count on the wire == bound). Named rows: BTreeMap/HashMap with String and &str keys against all 120 column-name sequences of length 1..4 over {x:int, y:text, z:list<int>} (names repeat up to 4 times) x key sets {exact, one surplus key (foreign name; a name not among the columns), one missing key}: surplus/missing must be refused, exact rows carry the value at every occurrence. Read side: DeserializeRow::type_check + deserialize for Rust tuples of arity 0..4 (21 carriers) and the dynamic Row type against every column list of length 0..5 over {int, text, list<int>}: a tuple must be refused when the column count differs or a field does not fit, a fitting row is read back as bound, and reading never panics (also with a null first column). distinct_nontrivial = accepted rows verified + boundary cases, compositions and read-side cells decided.");
    r.set_exhaustive(true);
    r.sample(json!({"columns": ["int", "list<int>"], "row": "HashMap<String,_> {c1: [1,2], c0: 7}", "expected": "accepted; 2 cells; bytes = reference cells in column order"}));
    r.sample(json!({"columns": ["int", "text"], "row": "(7, [1, 'x'])", "expected": "refused"}));
    let _ = SerializeRow::is_empty(&());
}

pub fn replay(r: &Report, case: &serde_json::Value) {
    match case["leg"].as_str() {
        Some("matrix") if case["part"].as_str() == Some("udt-names") => {
            println!("replaying the UDT-identity cells (case: {case})");
            udt_name_cells(r);
        }
        Some("matrix") => {
            let t = refv::parse_type(case["type"].as_str().unwrap_or("")).unwrap_or_else(|e| vcore::machinery_error(&format!("replay: bad type {e}")));
            let mode = case["frozen"].as_u64().unwrap_or(0) as u8;
            if case["part"].as_str() == Some("empty") {
                println!("replaying the empty-value cells of column type {t} (expected {:?})", empty_rel(&t));
                let st3: [AtomicU64; 3] = Default::default();
                with_frozen(mode, || empty_cells(r, &t, &st3));
                return;
            }
            let ct = with_frozen(mode, || column_type(&t));
            let st = MatrixStats { cells: Default::default(), de_cells: Default::default() };
            if let Some(vt) = case["dyn_value_type"].as_str() {
                let vt = refv::parse_type(vt).unwrap_or_else(|e| vcore::machinery_error(&format!("replay: bad value type {e}")));
                let w = to_cql(&vt, &dyn_witness(&vt)).unwrap();
                println!("replaying matrix cell: CqlValue {w:?} -> column {t}; expected {:?}", dyn_rel(&vt, &t));
                matrix_cell_dyn(r, &vt, &format!("CqlValue[{vt}]"), &w, &t, &ct, &st);
            } else {
                let name = case["carrier"].as_str().unwrap_or("");
                let entries = crate::c01static::all_entries();
                let Some(e) = entries.iter().find(|e| e.name == name) else { vcore::machinery_error(&format!("replay: unknown carrier {name}")) };
                println!("replaying matrix cell: carrier {name} x column {t}; expected ser {:?} de {:?}", (e.rel_ser)(&t), e.rel_de.map(|f| f(&t)));
                matrix_cell_static(r, e, &t, &ct, &st);
            }
        }
        Some("rows") => {
            println!("replaying the rows leg (small; the case is {case})");
            run_rows(r);
        }
        Some("rollback") => {
            let kinds = failure_kinds();
            let kind = case["kind"].as_str().unwrap_or("");
            let prefix: Vec<usize> = case["prefix"].as_array().map(|a| a.iter().filter_map(|x| x.as_u64().map(|x| x as usize)).collect()).unwrap_or_default();
            if let Some((k, root, f)) = kinds.iter().find(|(k, _, _)| *k == kind) {
                println!("replaying rollback case: prefix {prefix:?}, failing kind {k}");
                r.eval(1);
                check_rollback_case(r, &prefix, k, root, *f);
            } else {
                println!("replaying the full-list / two-failures part");
                run_rollback(r);
            }
        }
        _ => vcore::machinery_error("unknown replay leg"),
    }
}
