//! C01/C17: the table of static (typed) Rust carriers.
//!
//! `Carrier` is the harness-side description of one Rust type the crate implements
//! `SerializeValue`/`DeserializeValue` for: how to build it from a reference value of a column type
//! (`from_ref`), how to read it back into reference form (`to_ref`, bit-preserving; `key` = the same with
//! hash-based collections sorted so comparison is multiset comparison), which column types it is
//! *documented* to fit (`home_types`, `rel_*` == Accept), and the three-valued expected relation to every
//! other column type used by C17 (`rel_ser`, `rel_de`):
//!   Accept   - the book (docs/source/data-types/*.md) lists the pair, nested structurally;
//!   Reject   - the wire shapes differ (different native type; sequence vs map vs tuple vs UDT vs vector;
//!              a Rust tuple longer than the CQL tuple; any component pair that is Reject);
//!   DontCare - same wire shape but not documented either way (set-like carrier to a list column, a Rust
//!              tuple shorter than the CQL tuple, zero-dimensional vectors, ...).
//! Conversions never call the crate's own conversion impls (chrono/time/bigint values are built from the
//! raw day/nanosecond/millisecond/two's-complement numbers with the third-party crates' constructors).

use crate::c01dyn::Failure;
use crate::dynconv::*;
use crate::values;
use bytes::Bytes;
use crate::refvalue::{self as refv, Native, Type, Value};
use scylla_cql_core::deserialize::FrameSlice;
use scylla_cql_core::deserialize::value::DeserializeValue;
use scylla_cql_core::frame::response::result::ColumnType;
use scylla_cql_core::serialize::SerializationError;
use scylla_cql_core::serialize::row::SerializedValues;
use scylla_cql_core::serialize::value::{
    BuiltinSerializationError, BuiltinSerializationErrorKind, BuiltinTypeCheckError, MapSerializationErrorKind, SerializeValue, SetOrListSerializationErrorKind, TupleSerializationErrorKind,
    UdtSerializationErrorKind, VectorSerializationErrorKind,
};
use scylla_cql_core::serialize::writers::{CellWriter, WrittenCellProof};
use scylla_cql_core::value::{Counter, CqlDate, CqlDecimal, CqlDuration, CqlTime, CqlTimestamp, CqlTimeuuid, CqlVarint, Emptiable, MaybeEmpty, MaybeUnset};
use std::collections::{BTreeMap, BTreeSet, HashMap, HashSet};
use std::hash::Hash;
use std::net::IpAddr;
use std::panic::AssertUnwindSafe;
use std::sync::Arc;
use std::sync::atomic::{AtomicU64, Ordering};
use vcore::catch;

#[derive(Clone, Copy, PartialEq, Eq, Debug)]
pub enum Rel {
    Accept,
    Reject,
    DontCare,
}

pub fn combine(rs: &[Rel]) -> Rel {
    if rs.iter().any(|r| *r == Rel::Reject) {
        Rel::Reject
    } else if rs.iter().all(|r| *r == Rel::Accept) {
        Rel::Accept
    } else {
        Rel::DontCare
    }
}

fn weaken(r: Rel) -> Rel {
    if r == Rel::Reject { Rel::Reject } else { Rel::DontCare }
}

pub trait Carrier: Sized {
    fn name() -> String;
    /// column types this carrier is documented to fit (MUST-ACCEPT), used by the C01 static leg
    fn home_types() -> Vec<Type>;
    fn rel_ser(t: &Type) -> Rel;
    fn rel_de(t: &Type) -> Rel {
        Self::rel_ser(t)
    }
    fn from_ref(t: &Type, v: &Value) -> Option<Self>;
    /// logical value in the carrier's own iteration order (what its bytes must encode)
    fn to_ref(&self, t: &Type) -> Value;
    /// comparison key: `to_ref` with hash-based collections sorted
    fn key(&self, t: &Type) -> Value {
        self.to_ref(t)
    }
    /// a value with content at every level, shaped after `t` as far as the carrier allows (C17 matrix)
    fn witness(t: &Type) -> Self;
}

fn nat(n: Native) -> Type {
    Type::Native(n)
}

macro_rules! base {
    ($ty:ty, $name:expr, [$($nat:ident),+], |$t:ident, $v:ident| $from:expr, |$c:ident, $t2:ident| $to:expr, $wit:expr) => {
        impl Carrier for $ty {
            fn name() -> String {
                $name.to_string()
            }
            fn home_types() -> Vec<Type> {
                vec![$(nat(Native::$nat)),+]
            }
            fn rel_ser(t: &Type) -> Rel {
                match t {
                    $(Type::Native(Native::$nat))|+ => Rel::Accept,
                    _ => Rel::Reject,
                }
            }
            #[allow(unused_variables)]
            fn from_ref($t: &Type, $v: &Value) -> Option<Self> {
                if Self::rel_ser($t) != Rel::Accept {
                    return None;
                }
                $from
            }
            #[allow(unused_variables)]
            fn to_ref(&self, $t2: &Type) -> Value {
                let $c = self;
                $to
            }
            fn witness(_t: &Type) -> Self {
                $wit
            }
        }
    };
}

macro_rules! m {
    ($v:ident, $p:pat => $e:expr) => {
        match $v {
            $p => Some($e),
            _ => None,
        }
    };
}

fn str_value(t: &Type, s: &str) -> Value {
    if matches!(t, Type::Native(Native::Ascii)) { Value::Ascii(s.to_string()) } else { Value::Text(s.to_string()) }
}
fn str_of(v: &Value) -> Option<String> {
    match v {
        Value::Ascii(s) | Value::Text(s) => Some(s.clone()),
        _ => None,
    }
}

base!(i8, "i8", [TinyInt], |t, v| m!(v, Value::TinyInt(x) => *x), |c, t| Value::TinyInt(*c), 0x12);
base!(i16, "i16", [SmallInt], |t, v| m!(v, Value::SmallInt(x) => *x), |c, t| Value::SmallInt(*c), 0x1234);
base!(i32, "i32", [Int], |t, v| m!(v, Value::Int(x) => *x), |c, t| Value::Int(*c), 0x01020304);
base!(i64, "i64", [BigInt], |t, v| m!(v, Value::BigInt(x) => *x), |c, t| Value::BigInt(*c), 0x0102030405060708);
base!(f32, "f32", [Float], |t, v| m!(v, Value::Float(x) => f32::from_bits(*x)), |c, t| Value::Float(c.to_bits()), 1.5);
base!(f64, "f64", [Double], |t, v| m!(v, Value::Double(x) => f64::from_bits(*x)), |c, t| Value::Double(c.to_bits()), 2.5);
base!(bool, "bool", [Boolean], |t, v| m!(v, Value::Boolean(x) => *x), |c, t| Value::Boolean(*c), true);
base!(String, "String", [Text, Ascii], |t, v| str_of(v), |c, t| str_value(t, c), "w".to_string());
base!(Box<str>, "Box<str>", [Text, Ascii], |t, v| str_of(v).map(|s| s.into_boxed_str()), |c, t| str_value(t, c), "w".into());
base!(Arc<str>, "Arc<str>", [Text, Ascii], |t, v| str_of(v).map(|s| Arc::<str>::from(s)), |c, t| str_value(t, c), "w".into());
base!(Vec<u8>, "Vec<u8>", [Blob], |t, v| m!(v, Value::Blob(b) => b.clone()), |c, t| Value::Blob(c.clone()), vec![1, 2, 3]);
base!(Bytes, "Bytes", [Blob], |t, v| m!(v, Value::Blob(b) => Bytes::from(b.clone())), |c, t| Value::Blob(c.to_vec()), Bytes::from_static(&[1, 2, 3]));
base!(IpAddr, "IpAddr", [Inet], |t, v| match v {
    Value::Inet(b) => ip_from(b),
    _ => None,
}, |c, t| Value::Inet(ip_bytes(c)), IpAddr::from([10, 0, 0, 1]));
base!(uuid::Uuid, "Uuid", [Uuid], |t, v| m!(v, Value::Uuid(b) => uuid::Uuid::from_bytes(*b)), |c, t| Value::Uuid(*c.as_bytes()), uuid::Uuid::from_bytes([7; 16]));
base!(CqlTimeuuid, "CqlTimeuuid", [Timeuuid], |t, v| m!(v, Value::Timeuuid(b) => CqlTimeuuid::from_bytes(*b)), |c, t| Value::Timeuuid(*c.as_bytes()), CqlTimeuuid::from_bytes([7; 16]));
base!(Counter, "Counter", [Counter], |t, v| m!(v, Value::Counter(x) => Counter(*x)), |c, t| Value::Counter(c.0), Counter(9));
base!(CqlDate, "CqlDate", [Date], |t, v| m!(v, Value::Date(x) => CqlDate(*x)), |c, t| Value::Date(c.0), CqlDate(1 << 31));
base!(CqlTime, "CqlTime", [Time], |t, v| m!(v, Value::Time(x) => CqlTime(*x)), |c, t| Value::Time(c.0), CqlTime(1));
base!(CqlTimestamp, "CqlTimestamp", [Timestamp], |t, v| m!(v, Value::Timestamp(x) => CqlTimestamp(*x)), |c, t| Value::Timestamp(c.0), CqlTimestamp(1));
base!(CqlDuration, "CqlDuration", [Duration], |t, v| m!(v, Value::Duration{months, days, nanos} => CqlDuration { months: *months, days: *days, nanoseconds: *nanos }), |c, t| Value::Duration { months: c.months, days: c.days, nanos: c.nanoseconds }, CqlDuration { months: 1, days: 2, nanoseconds: 3 });
base!(CqlVarint, "CqlVarint", [Varint], |t, v| m!(v, Value::Varint(b) => CqlVarint::from_signed_bytes_be(b.clone())), |c, t| Value::Varint(c.as_signed_bytes_be_slice().to_vec()), CqlVarint::from_signed_bytes_be(vec![1, 2]));
base!(CqlDecimal, "CqlDecimal", [Decimal], |t, v| m!(v, Value::Decimal{scale, unscaled} => CqlDecimal::from_signed_be_bytes_and_exponent(unscaled.clone(), *scale)), |c, t| {
    let (b, scale) = c.as_signed_be_bytes_slice_and_exponent();
    Value::Decimal { scale, unscaled: b.to_vec() }
}, CqlDecimal::from_signed_be_bytes_and_exponent(vec![1, 2], 3));

impl<const N: usize> Carrier for [u8; N] {
    fn name() -> String {
        format!("[u8;{N}]")
    }
    fn home_types() -> Vec<Type> {
        vec![nat(Native::Blob)]
    }
    fn rel_ser(t: &Type) -> Rel {
        if *t == nat(Native::Blob) { Rel::Accept } else { Rel::Reject }
    }
    fn from_ref(t: &Type, v: &Value) -> Option<Self> {
        match (t, v) {
            (Type::Native(Native::Blob), Value::Blob(b)) => <[u8; N]>::try_from(b.as_slice()).ok(),
            _ => None,
        }
    }
    fn to_ref(&self, _t: &Type) -> Value {
        Value::Blob(self.to_vec())
    }
    fn witness(_t: &Type) -> Self {
        [7; N]
    }
}

// ---- chrono 0.4 / time 0.3 (built from raw numbers; no crate conversion impls)
const DAYS_CE_TO_UNIX: i64 = 719_163; // 1970-01-01 in days from 0001-01-01 (= day 1)
const JULIAN_UNIX: i64 = 2_440_588; // Julian day number of 1970-01-01

base!(chrono::NaiveDate, "chrono::NaiveDate", [Date], |t, v| match v {
    Value::Date(d) => i32::try_from(*d as i64 - (1i64 << 31) + DAYS_CE_TO_UNIX).ok().and_then(chrono::NaiveDate::from_num_days_from_ce_opt),
    _ => None,
}, |c, t| {
    use chrono::Datelike;
    Value::Date((c.num_days_from_ce() as i64 - DAYS_CE_TO_UNIX + (1i64 << 31)) as u32)
}, chrono::NaiveDate::from_ymd_opt(2020, 2, 29).unwrap());
base!(time::Date, "time::Date", [Date], |t, v| match v {
    Value::Date(d) => i32::try_from(*d as i64 - (1i64 << 31) + JULIAN_UNIX).ok().and_then(|j| time::Date::from_julian_day(j).ok()),
    _ => None,
}, |c, t| Value::Date((c.to_julian_day() as i64 - JULIAN_UNIX + (1i64 << 31)) as u32), time::Date::from_julian_day(2_458_909).unwrap());
base!(chrono::NaiveTime, "chrono::NaiveTime", [Time], |t, v| match v {
    Value::Time(n) if (0..86_400_000_000_000).contains(n) => chrono::NaiveTime::from_num_seconds_from_midnight_opt((*n / 1_000_000_000) as u32, (*n % 1_000_000_000) as u32),
    _ => None,
}, |c, t| {
    use chrono::Timelike;
    Value::Time(c.num_seconds_from_midnight() as i64 * 1_000_000_000 + c.nanosecond() as i64)
}, chrono::NaiveTime::from_hms_nano_opt(1, 2, 3, 4).unwrap());
base!(time::Time, "time::Time", [Time], |t, v| match v {
    Value::Time(n) if (0..86_400_000_000_000).contains(n) => time::Time::from_hms_nano((*n / 3_600_000_000_000) as u8, (*n / 60_000_000_000 % 60) as u8, (*n / 1_000_000_000 % 60) as u8, (*n % 1_000_000_000) as u32).ok(),
    _ => None,
}, |c, t| {
    let (h, mi, s, n) = c.as_hms_nano();
    Value::Time(((h as i64 * 60 + mi as i64) * 60 + s as i64) * 1_000_000_000 + n as i64)
}, time::Time::from_hms_nano(1, 2, 3, 4).unwrap());
base!(chrono::DateTime<chrono::Utc>, "chrono::DateTime<Utc>", [Timestamp], |t, v| match v {
    Value::Timestamp(ms) => chrono::DateTime::<chrono::Utc>::from_timestamp(ms.div_euclid(1000), (ms.rem_euclid(1000) * 1_000_000) as u32),
    _ => None,
}, |c, t| Value::Timestamp(c.timestamp() * 1000 + c.timestamp_subsec_millis() as i64), chrono::DateTime::<chrono::Utc>::from_timestamp(1_600_000_000, 123_000_000).unwrap());
base!(time::OffsetDateTime, "time::OffsetDateTime", [Timestamp], |t, v| match v {
    Value::Timestamp(ms) => time::OffsetDateTime::from_unix_timestamp_nanos(*ms as i128 * 1_000_000).ok(),
    _ => None,
}, |c, t| Value::Timestamp(c.unix_timestamp_nanos().div_euclid(1_000_000) as i64), time::OffsetDateTime::from_unix_timestamp_nanos(1_600_000_000_123_000_000).unwrap());

// ---- big numbers: two's complement computed here from (sign, magnitude)
fn twos_complement_min(negative: bool, magnitude_be: &[u8]) -> Vec<u8> {
    // strip leading zeros of the magnitude
    let mag: Vec<u8> = magnitude_be.iter().copied().skip_while(|b| *b == 0).collect();
    if mag.is_empty() {
        return vec![0];
    }
    if !negative {
        let mut out = mag;
        if out[0] & 0x80 != 0 {
            out.insert(0, 0);
        }
        return out;
    }
    // negate: invert and add one over a buffer one byte wider, then trim redundant 0xff
    let mut buf = vec![0u8];
    buf.extend_from_slice(&mag);
    for b in buf.iter_mut() {
        *b = !*b;
    }
    for b in buf.iter_mut().rev() {
        let (nb, carry) = b.overflowing_add(1);
        *b = nb;
        if !carry {
            break;
        }
    }
    while buf.len() > 1 && buf[0] == 0xff && buf[1] & 0x80 != 0 {
        buf.remove(0);
    }
    buf
}
fn sign_magnitude(twos: &[u8]) -> (bool, Vec<u8>) {
    if twos.is_empty() {
        return (false, vec![]);
    }
    let neg = twos[0] & 0x80 != 0;
    if !neg {
        return (false, twos.to_vec());
    }
    let mut buf: Vec<u8> = twos.iter().map(|b| !*b).collect();
    for b in buf.iter_mut().rev() {
        let (nb, carry) = b.overflowing_add(1);
        *b = nb;
        if !carry {
            break;
        }
    }
    // -2^(8n): magnitude needs one more byte
    if twos.iter().skip(1).all(|b| *b == 0) && twos[0] == 0x80 {
        let mut m = vec![0u8; twos.len()];
        m[0] = 0x80;
        return (true, m);
    }
    (true, buf)
}

macro_rules! bigint_carrier {
    ($krate:ident, $name:expr) => {
        base!($krate::BigInt, $name, [Varint], |t, v| match v {
            Value::Varint(b) => {
                let (neg, mag) = sign_magnitude(b);
                Some($krate::BigInt::from_bytes_be(if neg { $krate::Sign::Minus } else { $krate::Sign::Plus }, &mag))
            }
            _ => None,
        }, |c, t| {
            let (sign, mag) = c.to_bytes_be();
            Value::Varint(twos_complement_min(sign == $krate::Sign::Minus, &mag))
        }, $krate::BigInt::from(258));
    };
}
bigint_carrier!(num_bigint, "num_bigint_04::BigInt");
bigint_carrier!(num_bigint_03, "num_bigint_03::BigInt");

base!(bigdecimal::BigDecimal, "bigdecimal::BigDecimal", [Decimal], |t, v| match v {
    Value::Decimal { scale, unscaled } => {
        let (neg, mag) = sign_magnitude(unscaled);
        let bi = bigdecimal::num_bigint::BigInt::from_bytes_be(if neg { bigdecimal::num_bigint::Sign::Minus } else { bigdecimal::num_bigint::Sign::Plus }, &mag);
        Some(bigdecimal::BigDecimal::new(bi, *scale as i64))
    }
    _ => None,
}, |c, t| {
    let (bi, scale) = c.as_bigint_and_exponent();
    let (sign, mag) = bi.to_bytes_be();
    Value::Decimal { scale: scale as i32, unscaled: twos_complement_min(sign == bigdecimal::num_bigint::Sign::Minus, &mag) }
}, bigdecimal::BigDecimal::new(bigdecimal::num_bigint::BigInt::from(258), 3));

// ---- secrecy wrappers (newtype-free: the secret types are the carriers)
macro_rules! delegate {
    ($outer:ty, $inner:ty, $name:expr, |$x:ident| $wrap:expr, |$s:ident| $expose:expr) => {
        impl Carrier for $outer {
            fn name() -> String {
                format!($name, <$inner as Carrier>::name())
            }
            fn home_types() -> Vec<Type> {
                <$inner as Carrier>::home_types()
            }
            fn rel_ser(t: &Type) -> Rel {
                <$inner as Carrier>::rel_ser(t)
            }
            fn rel_de(t: &Type) -> Rel {
                <$inner as Carrier>::rel_de(t)
            }
            fn from_ref(t: &Type, v: &Value) -> Option<Self> {
                <$inner as Carrier>::from_ref(t, v).map(|$x| $wrap)
            }
            fn to_ref(&self, t: &Type) -> Value {
                let $s = self;
                <$inner as Carrier>::to_ref($expose, t)
            }
            fn key(&self, t: &Type) -> Value {
                let $s = self;
                <$inner as Carrier>::key($expose, t)
            }
            fn witness(t: &Type) -> Self {
                let $x = <$inner as Carrier>::witness(t);
                $wrap
            }
        }
    };
}
delegate!(secrecy_08::Secret<String>, String, "secrecy_08::Secret<{}>", |x| secrecy_08::Secret::new(x), |s| {
    use secrecy_08::ExposeSecret;
    s.expose_secret()
});
delegate!(secrecy_08::Secret<i32>, i32, "secrecy_08::Secret<{}>", |x| secrecy_08::Secret::new(x), |s| {
    use secrecy_08::ExposeSecret;
    s.expose_secret()
});
delegate!(secrecy_08::Secret<Vec<u8>>, Vec<u8>, "secrecy_08::Secret<{}>", |x| secrecy_08::Secret::new(x), |s| {
    use secrecy_08::ExposeSecret;
    s.expose_secret()
});
delegate!(secrecy::SecretBox<String>, String, "secrecy_10::SecretBox<{}>", |x| secrecy::SecretBox::new(Box::new(x)), |s| {
    use secrecy::ExposeSecret;
    s.expose_secret()
});
delegate!(secrecy::SecretBox<i64>, i64, "secrecy_10::SecretBox<{}>", |x| secrecy::SecretBox::new(Box::new(x)), |s| {
    use secrecy::ExposeSecret;
    s.expose_secret()
});
delegate!(secrecy::SecretBox<Vec<u8>>, Vec<u8>, "secrecy_10::SecretBox<{}>", |x| secrecy::SecretBox::new(Box::new(x)), |s| {
    use secrecy::ExposeSecret;
    s.expose_secret()
});


// ---- the dynamic value type as a component of static wrappers (Vec<CqlValue>, HashMap<String, CqlValue>, ...)
/// A value of `t` with content at every level (one element per collection, every tuple/UDT field set).
pub fn witness_value(t: &Type) -> Value {
    match t {
        Type::Native(n) => values::native_alphabet(*n, false)[0].clone(),
        Type::List(e) => Value::List(vec![witness_value(e)]),
        Type::Set(e) => Value::Set(vec![witness_value(e)]),
        Type::Map(k, v) => Value::Map(vec![(witness_value(k), witness_value(v))]),
        Type::Tuple(ts) => Value::Tuple(ts.iter().map(witness_value).collect()),
        Type::Udt { fields, .. } => Value::Udt(fields.iter().map(|(n, t)| (n.clone(), witness_value(t))).collect()),
        Type::Vector(e, d) => Value::Vector((0..*d).map(|_| witness_value(e)).collect()),
    }
}

impl Carrier for scylla_cql_core::value::CqlValue {
    fn name() -> String {
        "CqlValue".to_string()
    }
    fn home_types() -> Vec<Type> {
        let mut v: Vec<Type> = Native::ALL.iter().map(|n| nat(*n)).collect();
        for s in ["list<int>", "set<text>", "map<text,int>", "tuple<int,text>", "udt:ks.u2<a:int,b:text>", "vector<text,2>", "vector<int,2>", "list<tuple<int,text>>"] {
            v.push(refv::parse_type(s).unwrap());
        }
        v
    }
    /// the dynamic type takes the shape of the column: always a documented pairing
    fn rel_ser(_t: &Type) -> Rel {
        Rel::Accept
    }
    fn from_ref(t: &Type, v: &Value) -> Option<Self> {
        to_cql(t, v)
    }
    fn to_ref(&self, _t: &Type) -> Value {
        from_cql(self).unwrap_or(Value::Null)
    }
    fn witness(t: &Type) -> Self {
        to_cql(t, &witness_value(t)).unwrap_or(scylla_cql_core::value::CqlValue::Empty)
    }
}


// secrecy 0.10 has dedicated impls for SecretString (= SecretBox<str>) and SecretSlice<S> (= SecretBox<[S]>)
impl Carrier for secrecy::SecretString {
    fn name() -> String {
        "secrecy_10::SecretString".to_string()
    }
    fn home_types() -> Vec<Type> {
        String::home_types()
    }
    fn rel_ser(t: &Type) -> Rel {
        String::rel_ser(t)
    }
    fn from_ref(t: &Type, v: &Value) -> Option<Self> {
        String::from_ref(t, v).map(secrecy::SecretString::from)
    }
    fn to_ref(&self, t: &Type) -> Value {
        use secrecy::ExposeSecret;
        str_value(t, self.expose_secret())
    }
    fn witness(_t: &Type) -> Self {
        secrecy::SecretString::from("w".to_string())
    }
}
impl Carrier for secrecy::SecretSlice<i32> {
    fn name() -> String {
        "secrecy_10::SecretSlice<i32>".to_string()
    }
    fn home_types() -> Vec<Type> {
        <Vec<i32>>::home_types()
    }
    fn rel_ser(t: &Type) -> Rel {
        <Vec<i32>>::rel_ser(t)
    }
    fn from_ref(t: &Type, v: &Value) -> Option<Self> {
        <Vec<i32>>::from_ref(t, v).map(secrecy::SecretSlice::from)
    }
    fn to_ref(&self, t: &Type) -> Value {
        use secrecy::ExposeSecret;
        seq_to_ref(t, self.expose_secret().iter(), false)
    }
    fn witness(t: &Type) -> Self {
        secrecy::SecretSlice::from(<Vec<i32>>::witness(t))
    }
}

// ---- generic wrappers
macro_rules! transparent {
    ($outer:ident, $fmt:expr, |$x:ident| $wrap:expr, |$s:ident| $get:expr) => {
        impl<C: Carrier> Carrier for $outer<C> {
            fn name() -> String {
                format!($fmt, C::name())
            }
            fn home_types() -> Vec<Type> {
                C::home_types()
            }
            fn rel_ser(t: &Type) -> Rel {
                C::rel_ser(t)
            }
            fn rel_de(t: &Type) -> Rel {
                C::rel_de(t)
            }
            fn from_ref(t: &Type, v: &Value) -> Option<Self> {
                C::from_ref(t, v).map(|$x| $wrap)
            }
            fn to_ref(&self, t: &Type) -> Value {
                let $s = self;
                C::to_ref($get, t)
            }
            fn key(&self, t: &Type) -> Value {
                let $s = self;
                C::key($get, t)
            }
            fn witness(t: &Type) -> Self {
                let $x = C::witness(t);
                $wrap
            }
        }
    };
}
transparent!(Box, "Box<{}>", |x| Box::new(x), |s| &**s);
transparent!(Arc, "Arc<{}>", |x| Arc::new(x), |s| &**s);

/// `&T` as a bound value (serialization only)
pub struct RefOf<C>(pub C);
transparent!(RefOf, "&{}", |x| RefOf(x), |s| &s.0);
impl<C: SerializeValue> SerializeValue for RefOf<C> {
    fn serialize<'b>(&self, typ: &ColumnType, writer: CellWriter<'b>) -> Result<WrittenCellProof<'b>, SerializationError> {
        <&C as SerializeValue>::serialize(&&self.0, typ, writer)
    }
}

impl<C: Carrier> Carrier for Option<C> {
    fn name() -> String {
        format!("Option<{}>", C::name())
    }
    fn home_types() -> Vec<Type> {
        C::home_types()
    }
    fn rel_ser(t: &Type) -> Rel {
        C::rel_ser(t)
    }
    fn rel_de(t: &Type) -> Rel {
        C::rel_de(t)
    }
    fn from_ref(t: &Type, v: &Value) -> Option<Self> {
        match v {
            Value::Null => Some(None),
            v => C::from_ref(t, v).map(Some),
        }
    }
    fn to_ref(&self, t: &Type) -> Value {
        match self {
            None => Value::Null,
            Some(c) => c.to_ref(t),
        }
    }
    fn key(&self, t: &Type) -> Value {
        match self {
            None => Value::Null,
            Some(c) => c.key(t),
        }
    }
    fn witness(t: &Type) -> Self {
        Some(C::witness(t))
    }
}

impl<C: Carrier> Carrier for MaybeUnset<C> {
    fn name() -> String {
        format!("MaybeUnset<{}>", C::name())
    }
    fn home_types() -> Vec<Type> {
        C::home_types()
    }
    fn rel_ser(t: &Type) -> Rel {
        C::rel_ser(t)
    }
    fn from_ref(t: &Type, v: &Value) -> Option<Self> {
        match v {
            Value::Unset => Some(MaybeUnset::Unset),
            v => C::from_ref(t, v).map(MaybeUnset::Set),
        }
    }
    fn to_ref(&self, t: &Type) -> Value {
        match self {
            MaybeUnset::Unset => Value::Unset,
            MaybeUnset::Set(c) => c.to_ref(t),
        }
    }
    fn witness(t: &Type) -> Self {
        MaybeUnset::Set(C::witness(t))
    }
}

impl<C: Carrier + Emptiable> Carrier for MaybeEmpty<C> {
    fn name() -> String {
        format!("MaybeEmpty<{}>", C::name())
    }
    fn home_types() -> Vec<Type> {
        C::home_types()
    }
    fn rel_ser(t: &Type) -> Rel {
        C::rel_ser(t)
    }
    fn rel_de(t: &Type) -> Rel {
        C::rel_de(t)
    }
    fn from_ref(t: &Type, v: &Value) -> Option<Self> {
        match v {
            Value::Empty if C::rel_ser(t) == Rel::Accept => Some(MaybeEmpty::Empty),
            v => C::from_ref(t, v).map(MaybeEmpty::Value),
        }
    }
    fn to_ref(&self, t: &Type) -> Value {
        match self {
            MaybeEmpty::Empty => Value::Empty,
            MaybeEmpty::Value(c) => c.to_ref(t),
        }
    }
    fn witness(t: &Type) -> Self {
        MaybeEmpty::Value(C::witness(t))
    }
}

fn seq_homes(inner: Vec<Type>, with_vectors: bool) -> Vec<Type> {
    let mut out = Vec::new();
    for h in &inner {
        out.push(Type::List(Box::new(h.clone())));
    }
    for h in &inner {
        out.push(Type::Set(Box::new(h.clone())));
    }
    if with_vectors {
        for h in &inner {
            if matches!(h, Type::Vector(_, 0)) {
                continue; // a 0-dimensional vector is not a CQL type; only exercised as a bound column, never as an element
            }
            let dims: &[u16] = if h.depth() == 0 { &[0, 1, 2, 3] } else { &[1, 2] };
            for d in dims {
                out.push(Type::Vector(Box::new(h.clone()), *d));
            }
        }
    }
    out
}

fn seq_from_ref<C: Carrier>(t: &Type, v: &Value) -> Option<Vec<C>> {
    match (t, v) {
        (Type::List(et), Value::List(xs)) | (Type::Set(et), Value::Set(xs)) | (Type::Vector(et, _), Value::Vector(xs)) => xs.iter().map(|x| C::from_ref(et, x)).collect(),
        _ => None,
    }
}
fn seq_to_ref<'a, C: Carrier + 'a>(t: &Type, items: impl Iterator<Item = &'a C>, key: bool) -> Value {
    let conv = |et: &Type, c: &C| if key { c.key(et) } else { c.to_ref(et) };
    match t {
        Type::List(et) => Value::List(items.map(|c| conv(et, c)).collect()),
        Type::Set(et) => Value::Set(items.map(|c| conv(et, c)).collect()),
        Type::Vector(et, _) => Value::Vector(items.map(|c| conv(et, c)).collect()),
        _ => Value::Null,
    }
}
fn sorted_seq(v: Value) -> Value {
    match v {
        Value::List(mut xs) => {
            xs.sort();
            Value::List(xs)
        }
        Value::Set(mut xs) => {
            xs.sort();
            Value::Set(xs)
        }
        Value::Map(mut kvs) => {
            kvs.sort();
            Value::Map(kvs)
        }
        o => o,
    }
}
fn vec_rel(t: &Type, inner: fn(&Type) -> Rel) -> Rel {
    match t {
        Type::List(et) | Type::Set(et) => inner(et),
        // a zero-dimensional vector carries no element: an element mismatch cannot show on the wire
        Type::Vector(et, 0) => weaken_accept_only(inner(et)),
        Type::Vector(et, _) => inner(et),
        _ => Rel::Reject,
    }
}
fn weaken_accept_only(r: Rel) -> Rel {
    if r == Rel::Accept { Rel::Accept } else { Rel::DontCare }
}
fn seq_witness<C: Carrier>(t: &Type) -> Vec<C> {
    match t {
        Type::List(et) | Type::Set(et) => vec![C::witness(et)],
        Type::Vector(et, d) => (0..*d).map(|_| C::witness(et)).collect(),
        other => vec![C::witness(other)],
    }
}

impl<C: Carrier> Carrier for Vec<C> {
    fn name() -> String {
        format!("Vec<{}>", C::name())
    }
    fn home_types() -> Vec<Type> {
        seq_homes(C::home_types(), true)
    }
    fn rel_ser(t: &Type) -> Rel {
        vec_rel(t, C::rel_ser)
    }
    fn rel_de(t: &Type) -> Rel {
        vec_rel(t, C::rel_de)
    }
    fn from_ref(t: &Type, v: &Value) -> Option<Self> {
        seq_from_ref(t, v)
    }
    fn to_ref(&self, t: &Type) -> Value {
        seq_to_ref(t, self.iter(), false)
    }
    fn key(&self, t: &Type) -> Value {
        seq_to_ref(t, self.iter(), true)
    }
    fn witness(t: &Type) -> Self {
        seq_witness(t)
    }
}

/// `[T]` as a bound value (serialization only)
pub struct SliceOf<C>(pub Vec<C>);
impl<C: SerializeValue> SerializeValue for SliceOf<C> {
    fn serialize<'b>(&self, typ: &ColumnType, writer: CellWriter<'b>) -> Result<WrittenCellProof<'b>, SerializationError> {
        <[C] as SerializeValue>::serialize(&self.0[..], typ, writer)
    }
}
impl<C: Carrier> Carrier for SliceOf<C> {
    fn name() -> String {
        format!("[{}]", C::name())
    }
    fn home_types() -> Vec<Type> {
        seq_homes(C::home_types(), true)
    }
    fn rel_ser(t: &Type) -> Rel {
        vec_rel(t, C::rel_ser)
    }
    fn from_ref(t: &Type, v: &Value) -> Option<Self> {
        seq_from_ref(t, v).map(SliceOf)
    }
    fn to_ref(&self, t: &Type) -> Value {
        seq_to_ref(t, self.0.iter(), false)
    }
    fn witness(t: &Type) -> Self {
        SliceOf(seq_witness(t))
    }
}

fn set_rel(t: &Type, inner: fn(&Type) -> Rel) -> Rel {
    match t {
        Type::Set(et) => inner(et),
        // same wire shape as a set; the book only lists sets for set-like carriers
        Type::List(et) => weaken(inner(et)),
        _ => Rel::Reject,
    }
}

impl<C: Carrier + Ord> Carrier for BTreeSet<C> {
    fn name() -> String {
        format!("BTreeSet<{}>", C::name())
    }
    fn home_types() -> Vec<Type> {
        C::home_types().into_iter().map(|h| Type::Set(Box::new(h))).collect()
    }
    fn rel_ser(t: &Type) -> Rel {
        set_rel(t, C::rel_ser)
    }
    fn rel_de(t: &Type) -> Rel {
        set_rel(t, C::rel_de)
    }
    fn from_ref(t: &Type, v: &Value) -> Option<Self> {
        if !matches!(t, Type::Set(_)) {
            return None;
        }
        let xs: Vec<C> = seq_from_ref(t, v)?;
        let n = xs.len();
        let s: BTreeSet<C> = xs.into_iter().collect();
        if s.len() == n { Some(s) } else { None }
    }
    fn to_ref(&self, t: &Type) -> Value {
        seq_to_ref(t, self.iter(), false)
    }
    fn key(&self, t: &Type) -> Value {
        sorted_seq(seq_to_ref(t, self.iter(), true))
    }
    fn witness(t: &Type) -> Self {
        seq_witness::<C>(t).into_iter().take(1).collect()
    }
}

impl<C: Carrier + Hash + Eq> Carrier for HashSet<C> {
    fn name() -> String {
        format!("HashSet<{}>", C::name())
    }
    fn home_types() -> Vec<Type> {
        C::home_types().into_iter().map(|h| Type::Set(Box::new(h))).collect()
    }
    fn rel_ser(t: &Type) -> Rel {
        set_rel(t, C::rel_ser)
    }
    fn rel_de(t: &Type) -> Rel {
        set_rel(t, C::rel_de)
    }
    fn from_ref(t: &Type, v: &Value) -> Option<Self> {
        if !matches!(t, Type::Set(_)) {
            return None;
        }
        let xs: Vec<C> = seq_from_ref(t, v)?;
        let n = xs.len();
        let s: HashSet<C> = xs.into_iter().collect();
        if s.len() == n { Some(s) } else { None }
    }
    fn to_ref(&self, t: &Type) -> Value {
        seq_to_ref(t, self.iter(), false)
    }
    fn key(&self, t: &Type) -> Value {
        sorted_seq(seq_to_ref(t, self.iter(), true))
    }
    fn witness(t: &Type) -> Self {
        seq_witness::<C>(t).into_iter().take(1).collect()
    }
}

fn map_homes(k: Vec<Type>, v: Vec<Type>) -> Vec<Type> {
    let mut out = Vec::new();
    for kt in &k {
        for vt in &v {
            out.push(Type::Map(Box::new(kt.clone()), Box::new(vt.clone())));
        }
    }
    out
}
fn map_rel(t: &Type, k: fn(&Type) -> Rel, v: fn(&Type) -> Rel) -> Rel {
    match t {
        Type::Map(kt, vt) => combine(&[k(kt), v(vt)]),
        _ => Rel::Reject,
    }
}
fn map_from_ref<K: Carrier, V: Carrier>(t: &Type, v: &Value) -> Option<Vec<(K, V)>> {
    match (t, v) {
        (Type::Map(kt, vt), Value::Map(kvs)) => kvs.iter().map(|(k, x)| Some((K::from_ref(kt, k)?, V::from_ref(vt, x)?))).collect(),
        _ => None,
    }
}
fn map_to_ref<'a, K: Carrier + 'a, V: Carrier + 'a>(t: &Type, items: impl Iterator<Item = (&'a K, &'a V)>, key: bool) -> Value {
    match t {
        Type::Map(kt, vt) => Value::Map(items.map(|(k, v)| if key { (k.key(kt), v.key(vt)) } else { (k.to_ref(kt), v.to_ref(vt)) }).collect()),
        _ => Value::Null,
    }
}
fn map_witness<K: Carrier, V: Carrier>(t: &Type) -> (K, V) {
    match t {
        Type::Map(kt, vt) => (K::witness(kt), V::witness(vt)),
        o => (K::witness(o), V::witness(o)),
    }
}

impl<K: Carrier + Ord, V: Carrier> Carrier for BTreeMap<K, V> {
    fn name() -> String {
        format!("BTreeMap<{},{}>", K::name(), V::name())
    }
    fn home_types() -> Vec<Type> {
        map_homes(K::home_types(), V::home_types())
    }
    fn rel_ser(t: &Type) -> Rel {
        map_rel(t, K::rel_ser, V::rel_ser)
    }
    fn rel_de(t: &Type) -> Rel {
        map_rel(t, K::rel_de, V::rel_de)
    }
    fn from_ref(t: &Type, v: &Value) -> Option<Self> {
        let kvs = map_from_ref::<K, V>(t, v)?;
        let n = kvs.len();
        let m: BTreeMap<K, V> = kvs.into_iter().collect();
        if m.len() == n { Some(m) } else { None }
    }
    fn to_ref(&self, t: &Type) -> Value {
        map_to_ref(t, self.iter(), false)
    }
    fn key(&self, t: &Type) -> Value {
        sorted_seq(map_to_ref(t, self.iter(), true))
    }
    fn witness(t: &Type) -> Self {
        let (k, v) = map_witness::<K, V>(t);
        BTreeMap::from([(k, v)])
    }
}

impl<K: Carrier + Hash + Eq, V: Carrier> Carrier for HashMap<K, V> {
    fn name() -> String {
        format!("HashMap<{},{}>", K::name(), V::name())
    }
    fn home_types() -> Vec<Type> {
        map_homes(K::home_types(), V::home_types())
    }
    fn rel_ser(t: &Type) -> Rel {
        map_rel(t, K::rel_ser, V::rel_ser)
    }
    fn rel_de(t: &Type) -> Rel {
        map_rel(t, K::rel_de, V::rel_de)
    }
    fn from_ref(t: &Type, v: &Value) -> Option<Self> {
        let kvs = map_from_ref::<K, V>(t, v)?;
        let n = kvs.len();
        let m: HashMap<K, V> = kvs.into_iter().collect();
        if m.len() == n { Some(m) } else { None }
    }
    fn to_ref(&self, t: &Type) -> Value {
        map_to_ref(t, self.iter(), false)
    }
    fn key(&self, t: &Type) -> Value {
        sorted_seq(map_to_ref(t, self.iter(), true))
    }
    fn witness(t: &Type) -> Self {
        let (k, v) = map_witness::<K, V>(t);
        HashMap::from([(k, v)])
    }
}

// ---- Rust tuples
fn tuple_homes(parts: Vec<Vec<Type>>) -> Vec<Type> {
    // product over at most two home types per position
    let mut out: Vec<Vec<Type>> = vec![vec![]];
    for p in parts {
        let mut next = Vec::new();
        for prefix in &out {
            for h in p.iter().take(2) {
                let mut l = prefix.clone();
                l.push(h.clone());
                next.push(l);
            }
        }
        out = next;
    }
    // a Rust tuple may be bound to a CQL tuple with more fields (the prefix is written, the rest is null):
    // every exact-arity home also with one and with two extra fields
    let mut all = Vec::new();
    for l in out {
        let mut l1 = l.clone();
        l1.push(nat(Native::Text));
        let mut l2 = l1.clone();
        l2.push(Type::List(Box::new(nat(Native::Int))));
        all.push(Type::Tuple(l));
        all.push(Type::Tuple(l1));
        all.push(Type::Tuple(l2));
    }
    all
}
fn tuple_rel_ser(t: &Type, parts: &[fn(&Type) -> Rel]) -> Rel {
    match t {
        Type::Tuple(ts) if ts.len() < parts.len() => Rel::Reject, // Rust tuple longer than the CQL tuple
        Type::Tuple(ts) => {
            let r = combine(&parts.iter().zip(ts).map(|(f, et)| f(et)).collect::<Vec<_>>());
            if ts.len() == parts.len() { r } else { weaken(r) }
        }
        _ => Rel::Reject,
    }
}
fn tuple_rel_de(t: &Type, parts: &[fn(&Type) -> Rel]) -> Rel {
    match t {
        Type::Tuple(ts) => {
            let r = combine(&parts.iter().zip(ts).map(|(f, et)| f(et)).collect::<Vec<_>>());
            if ts.len() == parts.len() { r } else { weaken(r) }
        }
        _ => Rel::Reject,
    }
}

macro_rules! tuple_carrier {
    ($n:expr; $($T:ident $i:tt),+) => {
        impl<$($T: Carrier),+> Carrier for ($($T,)+) {
            fn name() -> String {
                format!("({},)", [$($T::name()),+].join(","))
            }
            fn home_types() -> Vec<Type> {
                tuple_homes(vec![$($T::home_types()),+])
            }
            fn rel_ser(t: &Type) -> Rel {
                tuple_rel_ser(t, &[$($T::rel_ser as fn(&Type) -> Rel),+])
            }
            fn rel_de(t: &Type) -> Rel {
                tuple_rel_de(t, &[$($T::rel_de as fn(&Type) -> Rel),+])
            }
            fn from_ref(t: &Type, v: &Value) -> Option<Self> {
                match (t, v) {
                    (Type::Tuple(ts), Value::Tuple(xs)) if ts.len() >= $n && xs.len() == $n => Some(($($T::from_ref(&ts[$i], &xs[$i])?,)+)),
                    _ => None,
                }
            }
            fn to_ref(&self, t: &Type) -> Value {
                match t {
                    Type::Tuple(ts) if ts.len() >= $n => Value::Tuple(vec![$(self.$i.to_ref(&ts[$i])),+]),
                    _ => Value::Null,
                }
            }
            fn key(&self, t: &Type) -> Value {
                match t {
                    Type::Tuple(ts) if ts.len() >= $n => Value::Tuple(vec![$(self.$i.key(&ts[$i])),+]),
                    _ => Value::Null,
                }
            }
            fn witness(t: &Type) -> Self {
                match t {
                    Type::Tuple(ts) => ($($T::witness(ts.get($i).unwrap_or(t)),)+),
                    o => ($($T::witness(o),)+),
                }
            }
        }
    };
}
tuple_carrier!(1; A 0);
tuple_carrier!(2; A 0, B 1);
tuple_carrier!(3; A 0, B 1, C 2);
tuple_carrier!(4; A 0, B 1, C 2, D 3);
impl Carrier for () {
    fn name() -> String {
        "()".to_string()
    }
    fn home_types() -> Vec<Type> {
        vec![Type::Tuple(vec![])]
    }
    fn rel_ser(t: &Type) -> Rel {
        tuple_rel_ser(t, &[])
    }
    fn rel_de(t: &Type) -> Rel {
        tuple_rel_de(t, &[])
    }
    fn from_ref(t: &Type, v: &Value) -> Option<Self> {
        match (t, v) {
            (Type::Tuple(_), Value::Tuple(xs)) if xs.is_empty() => Some(()),
            _ => None,
        }
    }
    fn to_ref(&self, _t: &Type) -> Value {
        Value::Tuple(vec![])
    }
    fn witness(_t: &Type) -> Self {}
}

// ------------------------------------------------------------------------------------------------
// error classification

/// Root cause of a serialization error chain.
pub fn ser_error_root(e: &SerializationError) -> &'static str {
    if e.downcast_ref::<BuiltinTypeCheckError>().is_some() {
        return "typecheck";
    }
    if let Some(b) = e.downcast_ref::<BuiltinSerializationError>() {
        return match &b.kind {
            BuiltinSerializationErrorKind::SizeOverflow => "size-overflow",
            BuiltinSerializationErrorKind::ValueOverflow => "value-overflow",
            BuiltinSerializationErrorKind::SetOrListError(SetOrListSerializationErrorKind::ElementSerializationFailed(i)) => ser_error_root(i),
            BuiltinSerializationErrorKind::SetOrListError(_) => "too-many-elements",
            BuiltinSerializationErrorKind::VectorError(VectorSerializationErrorKind::ElementSerializationFailed(i)) => ser_error_root(i),
            BuiltinSerializationErrorKind::VectorError(_) => "vector-dimension",
            BuiltinSerializationErrorKind::MapError(MapSerializationErrorKind::KeySerializationFailed(i)) | BuiltinSerializationErrorKind::MapError(MapSerializationErrorKind::ValueSerializationFailed(i)) => ser_error_root(i),
            BuiltinSerializationErrorKind::MapError(_) => "too-many-elements",
            BuiltinSerializationErrorKind::TupleError(TupleSerializationErrorKind::ElementSerializationFailed { err, .. }) => ser_error_root(err),
            BuiltinSerializationErrorKind::UdtError(UdtSerializationErrorKind::FieldSerializationFailed { err, .. }) => ser_error_root(err),
            _ => "other-serialization-error",
        };
    }
    "foreign-error"
}

// ------------------------------------------------------------------------------------------------
// the checks, generic over a carrier

#[derive(Default)]
pub struct SStats {
    pub cases: AtomicU64,
    pub skipped_not_representable: AtomicU64,
    pub deser_roundtrips: AtomicU64,
    pub dyn_cross_checks: AtomicU64,
    pub padded_decodes: AtomicU64,
}

fn fail<T>(check: &'static str, what: String) -> Result<T, Failure> {
    Err(Failure { check, what })
}
fn hex_brief(b: &[u8]) -> String {
    if b.len() <= 96 { vcore::hex(b) } else { format!("{}..({} bytes)", vcore::hex(&b[..96]), b.len()) }
}

/// Serialize `c` both ways, compare with the reference encoding of its logical value and with the
/// dynamic value's bytes. Returns the framed cell.
pub fn c01_ser_value(name: &str, c: &dyn DynSer, logical: &Value, t: &Type, ct: &ColumnType<'static>) -> Result<Vec<u8>, Failure> {
    let framed = match refv::encode(t, logical) {
        Ok(cell) => cell.framed(),
        Err(e) => vcore::machinery_error(&format!("carrier {name}: logical value {logical:?} of {t} rejected by the reference: {e}")),
    };
    let run = catch(AssertUnwindSafe(|| (ser_add_value(c, ct), ser_cell_writer(c, ct))));
    let ((add, count, iterated), cw) = match run {
        Ok(x) => x,
        Err(p) => return fail("static-panic-serialize", format!("{name} = {} into {t} panicked at {}: {p}", values::brief(logical), vcore::last_panic_location())),
    };
    let add = match add {
        Ok(b) => b,
        Err(e) => return fail("static-reject", format!("documented pair refused: {name} = {} into {t}: {e}", values::brief(logical))),
    };
    if add != framed {
        return fail("static-encode", format!("{name} = {} bound to {t}: driver bytes {} != CQL v4 encoding {}", values::brief(logical), hex_brief(&add), hex_brief(&framed)));
    }
    if count != 1 || iterated != 1 {
        return fail("static-count", format!("{name} into {t}: one value added but element_count={count}, iter().count()={iterated}"));
    }
    match cw {
        Ok(b) if b == framed => {}
        Ok(b) => return fail("static-encode-cellwriter", format!("{name} = {} into {t} (CellWriter): driver bytes {} != CQL v4 encoding {}", values::brief(logical), hex_brief(&b), hex_brief(&framed))),
        Err(e) => return fail("static-reject", format!("documented pair refused by serialize(): {name} = {} into {t}: {e}", values::brief(logical))),
    }
    // check 3: same bytes as the dynamic value for the same logical value
    if let Some(cv) = to_cql(t, logical) {
        if let Ok(Ok(b)) = catch(AssertUnwindSafe(|| ser_cell_writer(&cv, ct))) {
            if b != add {
                return fail("static-vs-dynamic", format!("{name} = {} into {t}: {} but CqlValue gives {}", values::brief(logical), hex_brief(&add), hex_brief(&b)));
            }
        }
    }
    Ok(add)
}

fn c01_ser_part<C: Carrier + SerializeValue>(c: &C, t: &Type, ct: &ColumnType<'static>) -> Result<Vec<u8>, Failure> {
    c01_ser_value(&C::name(), c, &c.to_ref(t), t, ct)
}

/// Compare a decoded logical value with the expected one (canonical forms; see `crate::refvalue::canon`).
pub fn compare_back(name: &str, t: &Type, bytes: &[u8], want: &Value, got: Result<Result<Value, String>, String>) -> Result<(), Failure> {
    match got {
        Err(p) => fail("static-panic-deserialize", format!("{name}: deserializing {} against {t} panicked at {}: {p}", hex_brief(bytes), vcore::last_panic_location())),
        Ok(Err(e)) => fail("static-decode-error", format!("{name} = {} into {t} -> {} does not decode as {name}: {e}", values::brief(want), hex_brief(bytes))),
        Ok(Ok(back)) => {
            // canonical forms: a zero-length body is the same cell whether the carrier calls it `Empty` or a zero-byte varint
            if refv::canon(t, &back) != refv::canon(t, want) {
                return fail("static-roundtrip", format!("{name} = {} into {t} -> {} decodes to {}", values::brief(want), hex_brief(bytes), values::brief(&back)));
            }
            Ok(())
        }
    }
}

pub fn c01_ser<C: Carrier + SerializeValue>(t: &Type, v: &Value, st: &SStats) -> Result<bool, Failure> {
    let Some(c) = C::from_ref(t, v) else {
        st.skipped_not_representable.fetch_add(1, Ordering::Relaxed);
        return Ok(false);
    };
    let ct = column_type(t);
    c01_ser_part(&c, t, &ct)?;
    st.cases.fetch_add(1, Ordering::Relaxed);
    Ok(true)
}

fn decode_as<C>(ct: &ColumnType<'static>, framed: &[u8], t: &Type) -> Result<Result<Result<Value, String>, String>, Failure>
where
    C: Carrier + for<'f, 'm> DeserializeValue<'f, 'm>,
{
    let body = unframe(framed).map_err(|e| Failure { check: "static-encode", what: format!("{} into {t}: malformed cell: {e}", C::name()) })?;
    let owned = body.map(Bytes::copy_from_slice);
    let got = catch(AssertUnwindSafe(|| -> Result<C, String> {
        <C as DeserializeValue>::type_check(ct).map_err(|e| format!("TYPECHECK {e}"))?;
        <C as DeserializeValue>::deserialize(ct, owned.as_ref().map(FrameSlice::new)).map_err(|e| format!("DESERIALIZE {e}"))
    }));
    Ok(got.map(|r| r.map(|c2| c2.key(t))))
}

pub fn c01_full<C>(t: &Type, v: &Value, st: &SStats) -> Result<bool, Failure>
where
    C: Carrier + SerializeValue + for<'f, 'm> DeserializeValue<'f, 'm>,
{
    let Some(c) = C::from_ref(t, v) else {
        // The carrier cannot hold the value as given. If it can hold the value's canonical (decoded) form -
        // a short tuple padded with nulls - then the reference encoding of the value must decode to that.
        if C::rel_de(t) == Rel::Accept && *v != Value::Unset {
            if let Ok(cv) = refv::canon(t, v) {
                if &cv != v {
                    if let Some(c) = C::from_ref(t, &cv) {
                        let ct = column_type(t);
                        let framed = refv::encode(t, v).map_err(|e| Failure { check: "machinery", what: e })?.framed();
                        let got = decode_as::<C>(&ct, &framed, t)?;
                        compare_back(&C::name(), t, &framed, &c.key(t), got).map_err(|f| Failure { check: if f.check == "static-roundtrip" { "static-decode-padded" } else { f.check }, what: f.what })?;
                        st.padded_decodes.fetch_add(1, Ordering::Relaxed);
                        return Ok(true);
                    }
                }
            }
        }
        st.skipped_not_representable.fetch_add(1, Ordering::Relaxed);
        return Ok(false);
    };
    let ct = column_type(t);
    let bytes = c01_ser_part(&c, t, &ct)?;
    st.cases.fetch_add(1, Ordering::Relaxed);
    if C::rel_de(t) != Rel::Accept {
        // serialization-only pairing (a Rust tuple shorter than the CQL tuple): the prefix encoding was compared
        // above; it must come back through the dynamic type padded with nulls
        let logical = c.to_ref(t);
        if let Ok(want) = refv::canon(t, &logical) {
            let body = unframe(&bytes).map_err(|e| Failure { check: "static-encode", what: format!("{} into {t}: malformed cell: {e}", C::name()) })?;
            match catch(AssertUnwindSafe(|| deser_dynamic(&ct, body))) {
                Ok(Ok((got, _))) if got == want => {
                    st.padded_decodes.fetch_add(1, Ordering::Relaxed);
                }
                other => return fail("static-prefix-roundtrip", format!("{} = {} bound to {t} -> {} decodes (dynamic type) to {other:?}, expected {}", C::name(), values::brief(&logical), hex_brief(&bytes), values::brief(&want))),
            }
        }
        return Ok(true);
    }
    let got = decode_as::<C>(&ct, &bytes, t)?;
    compare_back(&C::name(), t, &bytes, &c.key(t), got)?;
    st.deser_roundtrips.fetch_add(1, Ordering::Relaxed);
    Ok(true)
}

/// C17 probe: add `witness(t)` to a value list that already holds one value.
pub struct Probe {
    pub accepted: bool,
    pub root: &'static str,
    pub err: String,
    pub state_intact: bool,
    pub grew_by_one: bool,
    pub panic: Option<String>,
    /// the value list could not even be read back after the call (iterating it panicked)
    pub corrupt: Option<String>,
}

fn dump(sv: &SerializedValues) -> (Vec<u8>, u16, usize) {
    let mut buf = Vec::new();
    sv.write_to_request(&mut buf);
    (buf, sv.element_count(), sv.iter().count())
}

pub fn probe_ser<C: Carrier + SerializeValue>(t: &Type, ct: &ColumnType<'static>) -> Probe {
    probe_value(&C::witness(t), ct)
}

pub fn probe_value(w: &dyn DynSer, ct: &ColumnType<'static>) -> Probe {
    let mut sv = SerializedValues::new();
    sv.add_value(&0x0a0b0c0di32, &ColumnType::Native(scylla_cql_core::frame::response::result::NativeType::Int)).expect("prefix value");
    let before = dump(&sv);
    let r = catch(AssertUnwindSafe(|| w.add_to(&mut sv, ct)));
    let after = match catch(AssertUnwindSafe(|| dump(&sv))) {
        Ok(a) => a,
        Err(p) => {
            let what = match &r {
                Ok(Ok(())) => "accepted".to_string(),
                Ok(Err(e)) => format!("refused ({e})"),
                Err(pp) => format!("panicked ({pp})"),
            };
            return Probe { accepted: false, root: "", err: String::new(), state_intact: false, grew_by_one: false, panic: None, corrupt: Some(format!("the value was {what}; reading the list back panicked: {p}")) };
        }
    };
    match r {
        Err(p) => Probe { accepted: false, root: "panic", err: String::new(), state_intact: false, grew_by_one: false, panic: Some(format!("{p} at {}", vcore::last_panic_location())), corrupt: None },
        Ok(Ok(())) => Probe {
            accepted: true,
            root: "",
            err: String::new(),
            state_intact: false,
            grew_by_one: after.1 == before.1 + 1 && after.2 == before.2 + 1 && after.0.len() > before.0.len() && after.0[2..before.0.len()] == before.0[2..],
            panic: None,
            corrupt: None,
        },
        Ok(Err(e)) => Probe { accepted: false, root: ser_error_root(&e), err: e.to_string(), state_intact: after == before, grew_by_one: false, panic: None, corrupt: None },
    }
}

pub fn type_check_of<C>(ct: &ColumnType<'static>) -> Result<Result<(), String>, String>
where
    C: for<'f, 'm> DeserializeValue<'f, 'm>,
{
    catch(AssertUnwindSafe(|| <C as DeserializeValue>::type_check(ct).map_err(|e| e.to_string())))
}

pub struct Entry {
    pub name: String,
    pub homes: Vec<Type>,
    pub rel_ser: fn(&Type) -> Rel,
    pub rel_de: Option<fn(&Type) -> Rel>,
    pub c01: fn(&Type, &Value, &SStats) -> Result<bool, Failure>,
    pub probe_ser: fn(&Type, &ColumnType<'static>) -> Probe,
    pub type_check: Option<fn(&ColumnType<'static>) -> Result<Result<(), String>, String>>,
}

pub fn full<C>() -> Entry
where
    C: Carrier + SerializeValue + for<'f, 'm> DeserializeValue<'f, 'm>,
{
    Entry { name: C::name(), homes: C::home_types(), rel_ser: C::rel_ser, rel_de: Some(C::rel_de), c01: c01_full::<C>, probe_ser: probe_ser::<C>, type_check: Some(type_check_of::<C>) }
}
pub fn ser_only<C: Carrier + SerializeValue>() -> Entry {
    Entry { name: C::name(), homes: C::home_types(), rel_ser: C::rel_ser, rel_de: None, c01: c01_ser::<C>, probe_ser: probe_ser::<C>, type_check: None }
}

macro_rules! reg_full { ($v:ident; $($t:ty),* $(,)?) => { $( $v.push(full::<$t>()); )* } }
macro_rules! reg_ser { ($v:ident; $($t:ty),* $(,)?) => { $( $v.push(ser_only::<$t>()); )* } }

/// wrappers every base carrier gets
macro_rules! fam_all {
    ($v:ident; $($T:ty),* $(,)?) => { $(
        reg_full!($v; $T, Option<$T>, Box<$T>, Arc<$T>, Vec<$T>, Vec<Option<$T>>, Option<Vec<$T>>, BTreeMap<i32, $T>, HashMap<String, $T>, ($T,), ($T, i32), (String, $T, Option<i64>));
        reg_ser!($v; MaybeUnset<$T>, RefOf<$T>, SliceOf<$T>);
    )* };
}
/// deeper wrappers for a few representatives (two levels)
macro_rules! fam_deep {
    ($v:ident; $($T:ty),* $(,)?) => { $(
        reg_full!($v; (Option<$T>, Option<i32>), (Option<$T>, Option<String>, Option<$T>), Vec<(Option<$T>, Option<i32>)>, Vec<Vec<$T>>, HashMap<i32, Vec<$T>>, BTreeMap<String, Option<$T>>, Option<Box<$T>>, Arc<Vec<$T>>, Vec<($T, i32)>, (Vec<$T>, $T), Option<($T,)>, Box<Arc<$T>>);
        reg_ser!($v; MaybeUnset<Option<$T>>, RefOf<Vec<$T>>, SliceOf<Option<$T>>);
    )* };
}
macro_rules! fam_ord { ($v:ident; $($T:ty),* $(,)?) => { $( reg_full!($v; BTreeSet<$T>, BTreeMap<$T, i32>, Option<BTreeSet<$T>>); )* }; }
macro_rules! fam_hash { ($v:ident; $($T:ty),* $(,)?) => { $( reg_full!($v; HashSet<$T>, HashMap<$T, i32>, Vec<HashSet<$T>>); )* }; }
macro_rules! fam_empt { ($v:ident; $($T:ty),* $(,)?) => { $( reg_full!($v; MaybeEmpty<$T>, Option<MaybeEmpty<$T>>, Vec<MaybeEmpty<$T>>); )* }; }

/// The table (owned carriers). Borrowed carriers (&str, &[u8], Cow, *Borrowed) are in `borrowed.rs`.
pub fn table() -> Vec<Entry> {
    let mut v: Vec<Entry> = Vec::new();
    fam_all!(v; i8, i16, i32, i64, f32, f64, bool, String, Box<str>, Arc<str>, Vec<u8>, Bytes, IpAddr, uuid::Uuid, CqlTimeuuid, Counter,
        CqlDate, CqlTime, CqlTimestamp, CqlDuration, CqlVarint, CqlDecimal,
        chrono::NaiveDate, chrono::NaiveTime, chrono::DateTime<chrono::Utc>, time::Date, time::Time, time::OffsetDateTime,
        num_bigint::BigInt, num_bigint_03::BigInt, bigdecimal::BigDecimal, scylla_cql_core::value::CqlValue);
    fam_deep!(v; i32, String, CqlVarint, f64, Vec<u8>);
    fam_ord!(v; i8, i16, i32, i64, bool, String, Vec<u8>, Bytes, IpAddr, uuid::Uuid, CqlTimeuuid, CqlTimestamp, Counter,
        chrono::NaiveDate, chrono::NaiveTime, chrono::DateTime<chrono::Utc>, time::Date, time::Time, time::OffsetDateTime,
        num_bigint::BigInt, num_bigint_03::BigInt, bigdecimal::BigDecimal);
    fam_hash!(v; i8, i16, i32, i64, bool, String, Box<str>, Arc<str>, Vec<u8>, Bytes, IpAddr, uuid::Uuid, CqlTimeuuid, CqlTimestamp, CqlVarint,
        chrono::NaiveDate, chrono::NaiveTime, chrono::DateTime<chrono::Utc>, time::Date, time::Time, time::OffsetDateTime,
        num_bigint::BigInt, num_bigint_03::BigInt, bigdecimal::BigDecimal);
    fam_empt!(v; i8, i16, i32, i64, f32, f64, bool, IpAddr, uuid::Uuid, CqlTimeuuid, CqlDate, CqlTime, CqlTimestamp, CqlVarint, CqlDecimal,
        chrono::NaiveDate, chrono::NaiveTime, chrono::DateTime<chrono::Utc>, time::Date, time::Time, time::OffsetDateTime,
        num_bigint::BigInt, num_bigint_03::BigInt, bigdecimal::BigDecimal);
    reg_ser!(v; [u8; 0], [u8; 1], [u8; 4], [u8; 128], Option<[u8; 1]>, Vec<[u8; 1]>);
    reg_full!(v; secrecy_08::Secret<String>, secrecy_08::Secret<i32>, secrecy_08::Secret<Vec<u8>>, Option<secrecy_08::Secret<String>>, Vec<secrecy_08::Secret<i32>>,
        secrecy::SecretString, Option<secrecy::SecretString>, Vec<secrecy::SecretString>, secrecy::SecretSlice<i32>, Option<secrecy::SecretSlice<i32>>,
        secrecy::SecretBox<String>, secrecy::SecretBox<i64>, secrecy::SecretBox<Vec<u8>>, Option<secrecy::SecretBox<String>>, Vec<secrecy::SecretBox<i64>>);
    v
}
