//! C01/C17: the enumerated column-type space (DESIGN.md 2/C01 (a)).
//!
//! depth 0: the 20 native types.
//! depth 1: list/set/vector(dim 0..3) of every native, map of every (native, native), tuple and UDT of
//!          arity 0, 1 (every native), 2 (every pair), 3 (all triples over six class representatives
//!          + (n, int, text) for every native n).
//! depth 2: every constructor applied to every depth-1 type `T`: list<T>, set<T>, vector<T,d>,
//!          map<T,r>, map<r,T>, map<T,T>, tuple/UDT <T>, <T,r>, <r,T>, <r,T,r>, with partner types r
//!          from a per-tier list (quick: int, text; thorough: all natives).
//! depth 3 (thorough): the same construction twice over depth-1 types built from the three class
//!          representatives int (fixed-width), text (variable-width), tuple<int,text> (nullable composite).
//!
//! Depth-2/3 types are produced lazily per inner type (`derived`), so the space is never materialised.

use crate::refvalue::{Native, Type};

pub fn nat(n: Native) -> Type {
    Type::Native(n)
}

pub fn natives() -> Vec<Type> {
    Native::ALL.iter().map(|n| nat(*n)).collect()
}

pub const FIELD_NAMES: [&str; 3] = ["a", "b", "c"];

pub fn udt(fields: Vec<Type>) -> Type {
    Type::Udt {
        keyspace: "ks".into(),
        name: format!("u{}", fields.len()),
        fields: fields.into_iter().enumerate().map(|(i, t)| (FIELD_NAMES[i].to_string(), t)).collect(),
    }
}

/// The six natives used for full arity-3 products: one per encoding class that the builders distinguish.
pub fn class_reps6() -> Vec<Type> {
    [Native::Int, Native::Text, Native::Boolean, Native::Varint, Native::Uuid, Native::Duration].iter().map(|n| nat(*n)).collect()
}

/// All depth-1 types over the given native list (`full` = also the big binary/ternary products).
pub fn depth1_over(ns: &[Type], vector_dims: &[u16], full: bool) -> Vec<Type> {
    let mut out = Vec::new();
    for n in ns {
        out.push(Type::List(Box::new(n.clone())));
    }
    for n in ns {
        out.push(Type::Set(Box::new(n.clone())));
    }
    for d in vector_dims {
        for n in ns {
            out.push(Type::Vector(Box::new(n.clone()), *d));
        }
    }
    out.push(Type::Tuple(vec![]));
    out.push(udt(vec![]));
    for n in ns {
        out.push(Type::Tuple(vec![n.clone()]));
        out.push(udt(vec![n.clone()]));
    }
    for k in ns {
        for v in ns {
            out.push(Type::Map(Box::new(k.clone()), Box::new(v.clone())));
        }
    }
    for a in ns {
        for b in ns {
            out.push(Type::Tuple(vec![a.clone(), b.clone()]));
            out.push(udt(vec![a.clone(), b.clone()]));
        }
    }
    let triples: Vec<Type> = if full { class_reps6() } else { ns.to_vec() };
    for a in &triples {
        for b in &triples {
            for c in &triples {
                out.push(Type::Tuple(vec![a.clone(), b.clone(), c.clone()]));
                out.push(udt(vec![a.clone(), b.clone(), c.clone()]));
            }
        }
    }
    if full {
        for n in ns {
            let t = vec![n.clone(), nat(Native::Int), nat(Native::Text)];
            if !out.contains(&Type::Tuple(t.clone())) {
                out.push(Type::Tuple(t.clone()));
                out.push(udt(t));
            }
        }
    }
    out
}

pub fn depth1() -> Vec<Type> {
    depth1_over(&natives(), &[0, 1, 2, 3], true)
}

/// Every constructor applied to `t` (one level deeper), with partner types `partners` for the n-ary ones.
pub fn derived(t: &Type, partners: &[Type], vector_dims: &[u16]) -> Vec<Type> {
    let b = |x: &Type| Box::new(x.clone());
    let mut out = vec![Type::List(b(t)), Type::Set(b(t))];
    for d in vector_dims {
        out.push(Type::Vector(b(t), *d));
    }
    out.push(Type::Map(b(t), b(t)));
    out.push(Type::Tuple(vec![t.clone()]));
    out.push(udt(vec![t.clone()]));
    for r in partners {
        out.push(Type::Map(b(t), b(r)));
        out.push(Type::Map(b(r), b(t)));
        out.push(Type::Tuple(vec![t.clone(), r.clone()]));
        out.push(Type::Tuple(vec![r.clone(), t.clone()]));
        out.push(Type::Tuple(vec![r.clone(), t.clone(), r.clone()]));
        out.push(udt(vec![t.clone(), r.clone()]));
        out.push(udt(vec![r.clone(), t.clone()]));
        out.push(udt(vec![r.clone(), t.clone(), r.clone()]));
    }
    out
}

/// Representatives of the three encoding classes for depth 3.
pub fn class_reps3() -> Vec<Type> {
    vec![nat(Native::Int), nat(Native::Text), Type::Tuple(vec![nat(Native::Int), nat(Native::Text)])]
}

/// The materialised depth<=2 column-type set used by the C17 matrix (quick partners: int, text).
pub fn matrix_types(partners: &[Type], vector_dims_d2: &[u16]) -> Vec<Type> {
    let mut out = natives();
    let d1 = depth1();
    out.extend(d1.iter().cloned());
    for t in &d1 {
        out.extend(derived(t, partners, vector_dims_d2));
    }
    out
}
