//! C17 - type mismatches are rejected; a failed bind leaves the request intact. Engine E-ENUM.
//! Legs (selected with `--leg`): `matrix`, `rollback`, `rows`.
use vcore::Report;

fn main() {
    vcore::quiet_panics();
    let args = vcore::Args::parse("C17.x");
    let leg = args.extra_value("--leg").unwrap_or("matrix").to_string();
    let r = Report::new("C17", &leg, "exploration", "E-ENUM");
    if let Some(case) = r.replay_case() {
        h_val::c17::replay(&r, &case);
        r.finish_replay();
    }
    match leg.as_str() {
        "matrix" => h_val::c17::run_matrix(&r),
        "rollback" => h_val::c17::run_rollback(&r),
        "rows" => h_val::c17::run_rows(&r),
        other => vcore::machinery_error(&format!("unknown leg {other}")),
    }
    r.finish();
}
