//! C01 - CQL value encoding conforms to the protocol and round-trips. Engine E-ENUM vs `cqlref::value`.
//! Legs (selected with `--leg`): `dyn` (dynamic value type), `static` (typed Rust carriers).
use vcore::Report;

fn main() {
    vcore::quiet_panics();
    let args = vcore::Args::parse("C01.x");
    let leg = args.extra_value("--leg").unwrap_or("dyn").to_string();
    let r = Report::new("C01", &leg, "exploration", "E-ENUM");
    if let Some(case) = r.replay_case() {
        match case["leg"].as_str().unwrap_or(&leg) {
            "dyn" => h_val::c01dyn::replay(&r, &case),
            "static" => h_val::c01static::replay(&r, &case),
            other => vcore::machinery_error(&format!("unknown replay leg {other}")),
        }
        r.finish_replay();
    }
    match leg.as_str() {
        "dyn" => h_val::c01dyn::run(&r),
        "static" => h_val::c01static::run(&r),
        other => vcore::machinery_error(&format!("unknown leg {other}")),
    }
    r.finish();
}
