//! C15 model: the real `TabletsInfo` inside a real `ClusterState` (hook H-TABLETS) driven by an
//! event alphabet, next to the reference latest-wins interval map `cqlref::tablets::RefMap`.
//! Used by the E-BFS leg (fixpoint), the production-path audit, the replay and the sampled walk.
use cqlref::tablets::{NodeLabel, RefMap, encode_payload};
use scylla::verif::tablets::{KeyspaceSpec, NodeSpec, PayloadOutcome, ReplicaView, TableDump, World};
use std::collections::{BTreeSet, HashMap};
use std::net::SocketAddr;
use std::panic::AssertUnwindSafe;
use std::sync::Mutex;
use uuid::Uuid;

pub const KS: &str = "ks";
pub const LABEL_A: NodeLabel = 1;
pub const LABEL_B: NodeLabel = 2;
pub const LABEL_C: NodeLabel = 3;
pub const LABEL_D: NodeLabel = 4; // initially absent; joins / leaves (a node replaced under a new host id = C leaves + D joins)
pub const LABEL_X: NodeLabel = 9; // never known

pub fn uuid_of(label: NodeLabel) -> Uuid {
    Uuid::from_u128(0x5c11_1a00_0000_4000_8000_0000_0000_0000 + label as u128)
}
pub fn label_of(u: Uuid) -> NodeLabel {
    (u.as_u128() & 0xffff_ffff) as NodeLabel
}

/// What the fetched schema says about the tables of keyspace `ks`.
#[derive(Clone, Copy, Debug, PartialEq, Eq, Hash)]
pub enum Schema {
    /// every configured table/view present, keyspace tablet-based
    AllPresent,
    /// table #i absent from the keyspace (dropped)
    Dropped(u8),
    /// keyspace no longer tablet-based
    NotTabletBased,
    /// keyspace absent
    KeyspaceGone,
}

#[derive(Clone, Debug, PartialEq, Eq, Hash)]
pub enum Ev {
    /// a response for table #table carried a tablet covering universe[a] ..= universe[b] with replica set #r
    Learn { table: u8, a: u8, b: u8, r: u8 },
    /// a tablet with explicit bounds (walk / replay of arbitrary tokens)
    LearnRaw { table: u8, first: i64, last: i64, r: u8 },
    /// several responses drained at once: ONE `update_tablets` call carrying these tablets in this order;
    /// items are (table, a, b, r) with universe indexes
    LearnBatch { items: Vec<(u8, u8, u8, u8)> },
    /// metadata refresh: topology changes (C joins/leaves, A re-created with a new address,
    /// B re-created in another datacenter) and the fetched schema
    Refresh { toggle_c: bool, toggle_d: bool, recreate_a: bool, move_b: bool, schema: Schema },
}

impl Ev {
    pub fn to_json(&self) -> serde_json::Value {
        match self {
            Ev::Learn { table, a, b, r } => serde_json::json!({"ev":"learn","table":table,"a":a,"b":b,"r":r}),
            Ev::LearnRaw { table, first, last, r } => serde_json::json!({"ev":"learn_raw","table":table,"first":first,"last":last,"r":r}),
            Ev::LearnBatch { items } => serde_json::json!({"ev":"learn_batch","items":items.iter().map(|(t, a, b, r)| serde_json::json!([t, a, b, r])).collect::<Vec<_>>()}),
            Ev::Refresh { toggle_c, toggle_d, recreate_a, move_b, schema } => {
                let (s, i) = match schema {
                    Schema::AllPresent => ("all_present", 0),
                    Schema::Dropped(i) => ("dropped", *i),
                    Schema::NotTabletBased => ("not_tablet_based", 0),
                    Schema::KeyspaceGone => ("keyspace_gone", 0),
                };
                serde_json::json!({"ev":"refresh","toggle_c":toggle_c,"toggle_d":toggle_d,"recreate_a":recreate_a,"move_b":move_b,"schema":s,"schema_table":i})
            }
        }
    }
    pub fn from_json(v: &serde_json::Value) -> Option<Ev> {
        let u = |k: &str| v[k].as_u64().map(|x| x as u8);
        let b = |k: &str| v[k].as_bool().unwrap_or(false);
        match v["ev"].as_str()? {
            "learn" => Some(Ev::Learn { table: u("table")?, a: u("a")?, b: u("b")?, r: u("r")? }),
            "learn_batch" => Some(Ev::LearnBatch { items: v["items"].as_array()?.iter().map(|x| Some((x[0].as_u64()? as u8, x[1].as_u64()? as u8, x[2].as_u64()? as u8, x[3].as_u64()? as u8))).collect::<Option<_>>()? }),
            "learn_raw" => Some(Ev::LearnRaw { table: u("table")?, first: v["first"].as_i64()?, last: v["last"].as_i64()?, r: u("r")? }),
            "refresh" => {
                let schema = match v["schema"].as_str()? {
                    "all_present" => Schema::AllPresent,
                    "dropped" => Schema::Dropped(u("schema_table")?),
                    "not_tablet_based" => Schema::NotTabletBased,
                    "keyspace_gone" => Schema::KeyspaceGone,
                    _ => return None,
                };
                Some(Ev::Refresh { toggle_c: b("toggle_c"), toggle_d: b("toggle_d"), recreate_a: b("recreate_a"), move_b: b("move_b"), schema })
            }
            _ => None,
        }
    }
}

#[derive(Clone, Debug)]
pub struct Cfg {
    pub name: String,
    pub universe: Vec<i64>,
    /// extra tokens that are only looked up
    pub probes: Vec<i64>,
    /// (name, is a materialized view)
    pub tables: Vec<(String, bool)>,
    pub schemas: Vec<Schema>,
    /// replica-set alphabet: (node label, shard)
    pub rsets: Vec<Vec<(NodeLabel, i32)>>,
    /// allow several topology changes in one refresh
    pub combos: bool,
    /// allow B to move between datacenters
    pub move_b: bool,
    /// node D (initially absent) may join / leave
    pub toggle_d: bool,
    /// A may be re-created with a new address
    pub recreate_a: bool,
    /// schema changes come with at most one topology change (quick tier)
    pub light_schema_combos: bool,
    /// 1-in-k states (by canon hash) whose history is kept for the production-path audit
    pub audit_mod: u64,
    pub audit_cap: usize,
    /// batch events: 0 none, 2 batches of two tablets, 3 also batches of three
    pub batch: u8,
    /// node D has no datacenter information
    pub d_no_dc: bool,
}

impl Cfg {
    pub fn to_json(&self) -> serde_json::Value {
        serde_json::json!({
            "name": self.name, "universe": self.universe, "probes": self.probes,
            "tables": self.tables.iter().map(|(n, v)| serde_json::json!([n, v])).collect::<Vec<_>>(),
            "rsets": self.rsets, "combos": self.combos, "move_b": self.move_b, "toggle_d": self.toggle_d, "batch": self.batch, "d_no_dc": self.d_no_dc,
        })
    }
    pub fn from_json(v: &serde_json::Value) -> Option<Cfg> {
        let ints = |k: &str| -> Option<Vec<i64>> { v[k].as_array()?.iter().map(|x| x.as_i64()).collect() };
        Some(Cfg {
            name: v["name"].as_str()?.to_string(),
            universe: ints("universe")?,
            probes: ints("probes")?,
            tables: v["tables"].as_array()?.iter().map(|t| Some((t[0].as_str()?.to_string(), t[1].as_bool()?))).collect::<Option<_>>()?,
            schemas: vec![],
            rsets: v["rsets"].as_array()?.iter().map(|r| r.as_array()?.iter().map(|p| Some((p[0].as_u64()? as NodeLabel, p[1].as_i64()? as i32))).collect::<Option<Vec<_>>>()).collect::<Option<_>>()?,
            combos: v["combos"].as_bool()?,
            move_b: v["move_b"].as_bool()?,
            toggle_d: v["toggle_d"].as_bool().unwrap_or(false),
            recreate_a: true,
            light_schema_combos: false,
            audit_mod: 0,
            audit_cap: 0,
            batch: v["batch"].as_u64().unwrap_or(0) as u8,
            d_no_dc: v["d_no_dc"].as_bool().unwrap_or(false),
        })
    }
}

pub const DCS: [&str; 4] = ["dc1", "dc2", "dc3", "nope"];

#[derive(Clone, Copy, Debug, PartialEq, Eq)]
pub struct Topo {
    pub c_present: bool,
    pub d_present: bool,
    pub a_variant: bool,
    pub b_dc3: bool,
    /// D reports no datacenter (a peers row without data_center): its replicas are in no per-DC list
    pub d_no_dc: bool,
}

impl Topo {
    pub fn nodes(&self) -> Vec<NodeSpec> {
        let mk = |label: NodeLabel, addr: &str, dc: &str| NodeSpec { host_id: uuid_of(label), address: addr.parse::<SocketAddr>().unwrap(), datacenter: Some(dc.to_string()), rack: Some("r1".to_string()) };
        let mut v = vec![mk(LABEL_A, if self.a_variant { "10.0.1.1:9042" } else { "10.0.0.1:9042" }, "dc1"), mk(LABEL_B, "10.0.0.2:9042", if self.b_dc3 { "dc3" } else { "dc2" })];
        if self.c_present {
            v.push(mk(LABEL_C, "10.0.0.3:9042", "dc1"));
        }
        if self.d_present {
            let mut d = mk(LABEL_D, "10.0.0.4:9042", "dc2");
            if self.d_no_dc {
                d.datacenter = None;
            }
            v.push(d);
        }
        v
    }
    pub fn known(&self) -> BTreeSet<NodeLabel> {
        let mut s: BTreeSet<NodeLabel> = [LABEL_A, LABEL_B].into_iter().collect();
        if self.c_present {
            s.insert(LABEL_C);
        }
        if self.d_present {
            s.insert(LABEL_D);
        }
        s
    }
    fn spec_of(&self, label: NodeLabel) -> Option<NodeSpec> {
        self.nodes().into_iter().find(|n| n.host_id == uuid_of(label))
    }
}

#[derive(Clone)]
pub struct Obj {
    pub world: World,
    pub reference: RefMap,
    pub topo: Topo,
    pub history: Vec<Ev>,
}

/// What the E-BFS engine holds: the event history, materialised on demand. The engine rebuilds
/// every state by replaying its history on a fresh instance, once per enabled event; the replay
/// of the common prefix is memoised per thread (one entry: the parent state), and the parent is
/// duplicated with `ClusterState::clone` - the very operation the driver performs before each
/// tablet update - so a state is still exactly "fresh instance + history".
pub struct LazyObj {
    pub history: Vec<u16>,
    state: std::cell::RefCell<Option<Result<Obj, String>>>,
    canon: std::cell::RefCell<Option<Vec<u8>>>,
}

thread_local! {
    /// (model instance id, parent state)
    static PARENT: std::cell::RefCell<Option<(u64, Obj)>> = const { std::cell::RefCell::new(None) };
}
static NEXT_MODEL_ID: std::sync::atomic::AtomicU64 = std::sync::atomic::AtomicU64::new(1);

pub struct TabModel {
    /// distinguishes model instances in the per-thread memo
    id: u64,
    pub cfg: Cfg,
    /// the event menu; the E-BFS engine sees events as indexes into it (compact histories)
    pub menu: Vec<Ev>,
    /// canon hash -> hash of all lookup answers (differential oracle)
    seen_answers: Vec<Mutex<HashMap<u64, u64>>>,
    pub audit: Mutex<Vec<Vec<Ev>>>,
    audit_seen: Mutex<BTreeSet<u64>>,
}

/// A configured table name is `table` (keyspace `ks`) or `keyspace.table`.
pub fn split_name(name: &str) -> (&str, &str) {
    name.split_once('.').unwrap_or((KS, name))
}

/// The fetched schema. `NotTabletBased` / `KeyspaceGone` hit the keyspace of table #0 only; tables of
/// other keyspaces stay tablet tables (the driver must tell keyspaces apart, also for equal table names).
pub fn keyspaces(cfg: &Cfg, schema: Schema) -> Vec<KeyspaceSpec> {
    let ks0 = split_name(&cfg.tables[0].0).0.to_string();
    let mut out: Vec<KeyspaceSpec> = vec![KeyspaceSpec { name: "other".into(), tablet_based: true, tables: vec![], views: vec![] }];
    for (i, (name, is_view)) in cfg.tables.iter().enumerate() {
        let (ks, tb) = split_name(name);
        if ks == ks0 && schema == Schema::KeyspaceGone {
            continue;
        }
        if !out.iter().any(|k| k.name == ks) {
            out.push(KeyspaceSpec { name: ks.to_string(), tablet_based: !(ks == ks0 && schema == Schema::NotTabletBased), tables: vec![], views: vec![] });
        }
        if schema == Schema::Dropped(i as u8) {
            continue;
        }
        let k = out.iter_mut().find(|k| k.name == ks).unwrap();
        if *is_view { k.views.push(tb.to_string()) } else { k.tables.push(tb.to_string()) }
    }
    out
}

fn tablet_tables(cfg: &Cfg, schema: Schema) -> BTreeSet<String> {
    let ks0 = split_name(&cfg.tables[0].0).0;
    cfg.tables
        .iter()
        .enumerate()
        .filter(|(i, (n, _))| schema != Schema::Dropped(*i as u8) && !(split_name(n).0 == ks0 && matches!(schema, Schema::KeyspaceGone | Schema::NotTabletBased)))
        .map(|(_, (n, _))| n.clone())
        .collect()
}

fn catch<R>(f: impl FnOnce() -> R) -> Result<R, String> {
    vcore::catch(AssertUnwindSafe(f))
}

/// An oracle complaint: "KEY|text" (the key is the stable violation key).
fn complaint(key: &str, text: String) -> String {
    format!("{key}|{text}")
}

impl TabModel {
    pub fn new(cfg: Cfg) -> TabModel {
        let mut m = TabModel { id: NEXT_MODEL_ID.fetch_add(1, std::sync::atomic::Ordering::Relaxed), menu: Vec::new(), cfg, seen_answers: (0..4096).map(|_| Mutex::new(HashMap::new())).collect(), audit: Mutex::new(Vec::new()), audit_seen: Mutex::new(BTreeSet::new()) };
        m.menu = m.events();
        m
    }

    pub fn decode(&self, h: &[u16]) -> Vec<Ev> {
        h.iter().map(|c| self.menu[*c as usize].clone()).collect()
    }

    pub fn fresh(&self) -> Obj {
        let topo = Topo { c_present: true, d_present: false, a_variant: false, b_dc3: false, d_no_dc: self.cfg.d_no_dc };
        let world = World::new(&topo.nodes(), &keyspaces(&self.cfg, Schema::AllPresent));
        let mut reference = RefMap::new();
        reference.maintenance(&tablet_tables(&self.cfg, Schema::AllPresent), &BTreeSet::new(), &topo.known());
        Obj { world, reference, topo, history: Vec::new() }
    }

    pub fn events(&self) -> Vec<Ev> {
        let mut evs = Vec::new();
        let n = self.cfg.universe.len() as u8;
        // simplest first: short ranges before long ones
        for width in 0..n {
            for a in 0..n - width {
                for table in 0..self.cfg.tables.len() as u8 {
                    for r in 0..self.cfg.rsets.len() as u8 {
                        evs.push(Ev::Learn { table, a, b: a + width, r });
                    }
                }
            }
        }
        evs.extend(self.batch_menu());
        for &schema in &self.cfg.schemas {
            for bits in 0..16u8 {
                let (toggle_c, recreate_a, move_b, toggle_d) = (bits & 1 != 0, bits & 2 != 0, bits & 4 != 0, bits & 8 != 0);
                if toggle_d && !self.cfg.toggle_d {
                    continue;
                }
                if recreate_a && !self.cfg.recreate_a {
                    continue;
                }
                // light menu: several simultaneous topology changes only together with the unchanged schema
                if self.cfg.light_schema_combos && schema != Schema::AllPresent && bits.count_ones() > 1 {
                    continue;
                }
                if move_b && !self.cfg.move_b {
                    continue;
                }
                if !self.cfg.combos && bits.count_ones() > 1 {
                    continue;
                }
                evs.push(Ev::Refresh { toggle_c, toggle_d, recreate_a, move_b, schema });
            }
        }
        evs
    }

    /// Batches delivered by one `update_tablets` call. In correct code a batch equals its tablets
    /// learnt one after the other, so batches add transitions, never states. Shapes: identical range
    /// with different replica sets (every ordered pair of sets, several ranges), overlapping,
    /// containing, adjacent and disjoint ranges in both orders, the same range on two tables
    /// (must not be confused), and with `batch >= 3` triples incl. A,B,A patterns.
    fn batch_menu(&self) -> Vec<Ev> {
        let mut out = Vec::new();
        if self.cfg.batch < 2 {
            return out;
        }
        let n = self.cfg.universe.len() as u8;
        let nr = self.cfg.rsets.len() as u8;
        let nt = self.cfg.tables.len() as u8;
        let hi = n - 1;
        let mid = n / 2;
        let full = self.cfg.batch >= 3;
        let same_ranges: Vec<(u8, u8)> = if !full { vec![(0, 0), (0, hi)] } else if n >= 3 { vec![(0, 0), (mid.saturating_sub(1), mid), (0, hi), (hi, hi)] } else { vec![(0, 0), (0, hi), (hi, hi)] };
        for t in 0..nt {
            for &(a, b) in &same_ranges {
                for r1 in 0..nr {
                    for r2 in 0..nr {
                        // quick: neighbouring sets in both orders; thorough: every ordered pair
                        if r1 != r2 && (full || (r1 + 1) % nr == r2 || (r2 + 1) % nr == r1) {
                            out.push(Ev::LearnBatch { items: vec![(t, a, b, r1), (t, a, b, r2)] });
                        }
                    }
                }
            }
            // overlapping / containing / adjacent / disjoint, both orders
            let pairs: Vec<((u8, u8), (u8, u8))> = vec![((0, mid), (mid, hi)), ((0, hi), (mid, mid)), ((0, 0), (hi, hi)), ((0, mid.saturating_sub(1).max(0)), (mid, hi))];
            for (i, (x, y)) in pairs.iter().enumerate().take(if full { 4 } else { 2 }) {
                let (r1, r2) = ((i as u8) % nr, (i as u8 + 1) % nr);
                out.push(Ev::LearnBatch { items: vec![(t, x.0, x.1, r1), (t, y.0, y.1, r2)] });
                out.push(Ev::LearnBatch { items: vec![(t, y.0, y.1, r2), (t, x.0, x.1, r1)] });
            }
            if self.cfg.batch >= 3 {
                for r1 in 0..nr {
                    let (r2, r3) = ((r1 + 1) % nr, (r1 + 2) % nr);
                    out.push(Ev::LearnBatch { items: vec![(t, 0, hi, r1), (t, 0, hi, r2), (t, 0, hi, r3)] });
                    out.push(Ev::LearnBatch { items: vec![(t, mid, mid, r1), (t, mid, mid, r2), (t, mid, mid, r1)] });
                    out.push(Ev::LearnBatch { items: vec![(t, 0, mid, r1), (t, mid, hi, r2), (t, 0, mid, r3)] });
                }
            }
        }
        if nt >= 2 {
            // the same range on the table and on the view in one batch, and interleaved
            for r1 in 0..nr {
                let r2 = (r1 + 1) % nr;
                out.push(Ev::LearnBatch { items: vec![(0, 0, hi, r1), (1, 0, hi, r2)] });
                out.push(Ev::LearnBatch { items: vec![(1, 0, 0, r1), (0, 0, 0, r2)] });
                out.push(Ev::LearnBatch { items: vec![(0, 0, 0, r1), (1, 0, 0, r2), (0, 0, 0, r2)] });
            }
        }
        out
    }

    pub fn expected_view(&self, topo: &Topo, label: NodeLabel, shard: u32) -> Option<ReplicaView> {
        let spec = topo.spec_of(label)?;
        Some(ReplicaView { host_id: spec.host_id, address: spec.address, datacenter: spec.datacenter, shard, is_current_node_object: true })
    }

    /// Apply to the real world only (shared by the sync model and the production-path audit).
    fn learn(&self, o: &mut Obj, table: u8, first: i64, last: i64, r: u8) -> Result<(), String> {
        let tname = &self.cfg.tables[table as usize].0;
        let rset = &self.cfg.rsets[r as usize];
        let raw: Vec<([u8; 16], i32)> = rset.iter().map(|(l, s)| (*uuid_of(*l).as_bytes(), *s)).collect();
        // server sends the left-open range (first-1, last]
        let payload = encode_payload(first - 1, last, &raw);
        let out = catch(|| o.world.learn_from_payload(split_name(tname).0, split_name(tname).1, &payload)).map_err(|p| complaint("panic:learn", format!("learning tablet [{first},{last}] with replicas {rset:?} panicked: {p}")))?;
        let want = PayloadOutcome::Accepted { first_token: first, last_token: last, replicas: rset.iter().map(|(l, s)| (uuid_of(*l), *s as u32)).collect() };
        if out != want {
            return Err(complaint("payload", format!("payload for ({}, {last}] with replicas {rset:?}: parser produced {out:?}, expected {want:?}", first - 1)));
        }
        let raw_ref: Vec<(NodeLabel, u32)> = rset.iter().map(|(l, s)| (*l, *s as u32)).collect();
        o.reference.learn(tname, first, last, &raw_ref, &o.topo.known());
        Ok(())
    }

    fn next_topo(topo: &Topo, toggle_c: bool, toggle_d: bool, recreate_a: bool, move_b: bool) -> Topo {
        Topo { c_present: topo.c_present ^ toggle_c, d_present: topo.d_present ^ toggle_d, a_variant: topo.a_variant ^ recreate_a, b_dc3: topo.b_dc3 ^ move_b, d_no_dc: topo.d_no_dc }
    }

    pub fn apply_ev(&self, o: &mut Obj, ev: &Ev) -> Result<(), String> {
        match ev {
            Ev::Learn { table, a, b, r } => {
                let (first, last) = (self.cfg.universe[*a as usize], self.cfg.universe[*b as usize]);
                self.learn(o, *table, first, last, *r)?;
            }
            Ev::LearnRaw { table, first, last, r } => self.learn(o, *table, *first, *last, *r)?,
            Ev::LearnBatch { items } => {
                let mut payloads: Vec<(String, Vec<u8>)> = Vec::new();
                for (table, a, b, r) in items {
                    let (first, last) = (self.cfg.universe[*a as usize], self.cfg.universe[*b as usize]);
                    let raw: Vec<([u8; 16], i32)> = self.cfg.rsets[*r as usize].iter().map(|(l, s)| (*uuid_of(*l).as_bytes(), *s)).collect();
                    payloads.push((self.cfg.tables[*table as usize].0.clone(), encode_payload(first - 1, last, &raw)));
                }
                let refs: Vec<(&str, &str, &[u8])> = payloads.iter().map(|(t, p)| (split_name(t).0, split_name(t).1, p.as_slice())).collect();
                let outs = catch(|| o.world.learn_batch_from_payloads(&refs)).map_err(|p| complaint("panic:learn", format!("learning batch {items:?} panicked: {p}")))?;
                if outs.iter().any(|x| !matches!(x, PayloadOutcome::Accepted { .. })) {
                    return Err(complaint("payload", format!("a payload of batch {items:?} was not accepted: {outs:?}")));
                }
                // reference: the tablets in the order they arrived, latest wins
                for (table, a, b, r) in items {
                    let raw_ref: Vec<(NodeLabel, u32)> = self.cfg.rsets[*r as usize].iter().map(|(l, s)| (*l, *s as u32)).collect();
                    o.reference.learn(&self.cfg.tables[*table as usize].0, self.cfg.universe[*a as usize], self.cfg.universe[*b as usize], &raw_ref, &o.topo.known());
                }
            }
            Ev::Refresh { toggle_c, toggle_d, recreate_a, move_b, schema } => {
                let new_topo = Self::next_topo(&o.topo, *toggle_c, *toggle_d, *recreate_a, *move_b);
                let removed: BTreeSet<NodeLabel> = o.topo.known().difference(&new_topo.known()).copied().collect();
                let ks = keyspaces(&self.cfg, *schema);
                catch(|| o.world.refresh(&new_topo.nodes(), &ks)).map_err(|p| complaint("panic:refresh", format!("metadata refresh {ev:?} panicked: {p}")))?;
                o.reference.maintenance(&tablet_tables(&self.cfg, *schema), &removed, &new_topo.known());
                o.topo = new_topo;
            }
        }
        o.history.push(ev.clone());
        Ok(())
    }

    /// Same event through the production async constructors (audit). `alt` picks the
    /// topology-only production path when the schema does not change.
    pub async fn apply_ev_production(&self, o: &mut Obj, ev: &Ev, current_schema: &mut Schema, alt: bool) -> Result<(), String> {
        match ev {
            Ev::Refresh { toggle_c, toggle_d, recreate_a, move_b, schema } => {
                let new_topo = Self::next_topo(&o.topo, *toggle_c, *toggle_d, *recreate_a, *move_b);
                let removed: BTreeSet<NodeLabel> = o.topo.known().difference(&new_topo.known()).copied().collect();
                if alt && schema == current_schema {
                    o.world.refresh_topology_production(&new_topo.nodes()).await;
                } else {
                    o.world.refresh_production(&new_topo.nodes(), &keyspaces(&self.cfg, *schema)).await;
                }
                *current_schema = *schema;
                o.reference.maintenance(&tablet_tables(&self.cfg, *schema), &removed, &new_topo.known());
                o.topo = new_topo;
                o.history.push(ev.clone());
                Ok(())
            }
            other => self.apply_ev(o, other),
        }
    }

    pub fn lookup_tokens(&self) -> Vec<i64> {
        let mut v = self.cfg.universe.clone();
        v.extend(self.cfg.probes.iter().copied());
        v
    }

    /// All invariants + reference agreement in the current state. Returns the hash of all
    /// lookup answers (relabelled) for the differential oracle.
    pub fn verify(&self, o: &Obj) -> Result<u64, String> {
        self.verify_with(o, &self.dumps(o))
    }

    /// The stored tablets of every configured table (read once per state, shared by the oracles and the canonical form).
    pub fn dumps(&self, o: &Obj) -> Vec<Option<TableDump>> {
        self.cfg.tables.iter().map(|(t, _)| o.world.table_dump(split_name(t).0, split_name(t).1)).collect()
    }

    pub fn verify_with(&self, o: &Obj, dumps: &[Option<TableDump>]) -> Result<u64, String> {
        let mut answers: Vec<u8> = Vec::with_capacity(256);
        let mut any_failed = false;
        for (tidx, (tname, _)) in self.cfg.tables.iter().enumerate() {
            let (ksn, tbn) = split_name(tname);
            let dump: Option<&TableDump> = dumps[tidx].as_ref();
            let is_ref = o.reference.is_tablet_table(tname);
            if dump.is_some() != is_ref {
                return Err(complaint("table-entry", format!("table {tname}: driver {} a tablet entry, the schema/learn history says it {}", if dump.is_some() { "has" } else { "has no" }, if is_ref { "should have one" } else { "should not" })));
            }
            let Some(dump) = dump else {
                if o.world.lookup(ksn, tbn, 0, None).is_some() {
                    return Err(complaint("table-entry", format!("table {tname}: lookup answers for a table without entry")));
                }
                answers.push(0xee);
                continue;
            };
            // 1. sorted, pairwise disjoint, non-empty ranges
            for (i, t) in dump.tablets.iter().enumerate() {
                if t.first_token > t.last_token {
                    return Err(complaint("order", format!("table {tname}: stored tablet [{},{}] is empty/inverted", t.first_token, t.last_token)));
                }
                if i > 0 && dump.tablets[i - 1].last_token >= t.first_token {
                    let p = &dump.tablets[i - 1];
                    return Err(complaint("order", format!("table {tname}: stored tablets [{},{}] and [{},{}] are not sorted and disjoint", p.first_token, p.last_token, t.first_token, t.last_token)));
                }
            }
            // 2. hidden flags are sound: a tablet still carrying unresolved ids must keep both flags up
            for t in &dump.tablets {
                if t.failed.is_some() {
                    any_failed = true;
                    if !dump.has_unknown_replicas {
                        return Err(complaint("flags", format!("table {tname}: tablet [{},{}] has unresolved replica ids but the table's has_unknown_replicas is false (maintenance would never resolve or discard it)", t.first_token, t.last_token)));
                    }
                }
            }
            // 3. the stored set equals the reference's alive set, replica for replica
            let alive = o.reference.alive(tname);
            if alive.len() != dump.tablets.len() {
                return Err(complaint("structure", format!("table {tname}: driver stores ranges {:?}, reference (latest wins, maintenance discards) has {:?}", dump.tablets.iter().map(|t| (t.first_token, t.last_token)).collect::<Vec<_>>(), alive.iter().map(|t| (t.first, t.last)).collect::<Vec<_>>())));
            }
            for (d, rf) in dump.tablets.iter().zip(alive.iter()) {
                if (d.first_token, d.last_token) != (rf.first, rf.last) {
                    return Err(complaint("structure", format!("table {tname}: driver stores ranges {:?}, reference has {:?}", dump.tablets.iter().map(|t| (t.first_token, t.last_token)).collect::<Vec<_>>(), alive.iter().map(|t| (t.first, t.last)).collect::<Vec<_>>())));
                }
                let want: Vec<ReplicaView> = rf.usable.iter().filter_map(|(l, s)| self.expected_view(&o.topo, *l, *s)).collect();
                if d.all != want {
                    let key = if d.all.iter().any(|r| !r.is_current_node_object) { "structure:stale-node-object" } else { "structure:replicas" };
                    return Err(complaint(key, format!("table {tname}: tablet [{},{}] holds replicas {:?}, expected {:?}", d.first_token, d.last_token, d.all, want)));
                }
                if d.failed.is_some() != rf.unresolved {
                    return Err(complaint("structure:unresolved", format!("table {tname}: tablet [{},{}] failed-marker {:?} but reference unresolved={}", d.first_token, d.last_token, d.failed, rf.unresolved)));
                }
                // stored per-DC grouping is the restriction of the stored full list
                for dc in DCS {
                    let restr: Vec<ReplicaView> = d.all.iter().filter(|r| r.datacenter.as_deref() == Some(dc)).cloned().collect();
                    let got = d.per_dc.get(dc).cloned().unwrap_or_default();
                    if got != restr {
                        return Err(complaint("dc-restriction", format!("table {tname}: tablet [{},{}] per-DC list for {dc} is {:?}, the restriction of its full list {:?} is {:?}", d.first_token, d.last_token, got, d.all, restr)));
                    }
                }
            }
            // 4. every token: latest-wins answer or nothing; DC-restricted answers are restrictions
            for tok in self.lookup_tokens() {
                let got = catch(|| o.world.lookup(ksn, tbn, tok, None)).map_err(|p| complaint("panic:lookup", format!("lookup of {tok} panicked: {p}")))?.unwrap_or_default();
                // i64::MIN is not a ring token: the driver's Token::new maps it to i64::MAX
                let rtok = if tok == i64::MIN { i64::MAX } else { tok };
                let rf = o.reference.lookup(tname, rtok).map_err(|e| complaint("reference", e))?;
                let want: Vec<ReplicaView> = rf.map(|t| t.usable.iter().filter_map(|(l, s)| self.expected_view(&o.topo, *l, *s)).collect()).unwrap_or_default();
                if got != want {
                    let key = if rf.is_none() { "lookup:stale-answer" } else if got.is_empty() { "lookup:missing-answer" } else { "lookup:wrong-answer" };
                    return Err(complaint(key, format!("table {tname}: token {tok} answered with {:?}; latest-wins reference says {:?} ({})", got, want, rf.map(|t| format!("tablet #{} [{},{}]", t.seq, t.first, t.last)).unwrap_or_else(|| "nothing".into()))));
                }
                for r in &got {
                    answers.extend([label_of(r.host_id) as u8, r.shard as u8]);
                }
                answers.push(0xfe);
                for dc in DCS {
                    // a datacenter nobody is in: asked for the first token only
                    if (dc == "nope" && tok != self.lookup_tokens()[0]) || (!self.cfg.universe.is_empty() && !self.cfg.universe.contains(&tok)) {
                        continue;
                    }
                    let got_dc = o.world.lookup(ksn, tbn, tok, Some(dc)).unwrap_or_default();
                    let restr: Vec<ReplicaView> = got.iter().filter(|r| r.datacenter.as_deref() == Some(dc)).cloned().collect();
                    if got_dc != restr {
                        return Err(complaint("lookup:dc-restriction", format!("table {tname}: token {tok} restricted to {dc} answers {:?}, the restriction of the full answer {:?} is {:?}", got_dc, got, restr)));
                    }
                }
            }
            // 5. the rest of the public lookup surface answers from the same tablet
            let n_u = self.cfg.universe.len();
            for (ti, &tok) in self.cfg.universe.iter().enumerate() {
                if ti != 0 && ti + 1 != n_u {
                    continue;
                }
                // first token: unrestricted; last token: restricted to a datacenter
                for dc in [if ti == 0 { None } else { Some("dc2") }] {
                    let base = o.world.lookup(ksn, tbn, tok, dc).unwrap_or_default();
                    let full = o.world.lookup(ksn, tbn, tok, None).unwrap_or_default();
                    let api = catch(|| o.world.lookup_api(ksn, tbn, tok, dc)).map_err(|p| complaint("panic:lookup-api", format!("public lookup surface panicked for token {tok} dc {dc:?}: {p}")))?;
                    let Some(api) = api else { return Err(complaint("lookup-api:entry", format!("table {tname}: lookup_api has no entry where lookup has one"))) };
                    let n = base.len();
                    let bad = |what: &str, detail: String| Err(complaint(&format!("lookup-api:{what}"), format!("table {tname}, token {tok}, dc {dc:?}: {what}: {detail}; iteration gives {base:?}")));
                    if api.iter != base {
                        return bad("iter", format!("{:?}", api.iter));
                    }
                    if api.len != n || api.is_empty != (n == 0) {
                        return bad("len", format!("len()={} is_empty()={}", api.len, api.is_empty));
                    }
                    if api.size_hint != (n, Some(n)) {
                        return bad("size_hint", format!("{:?}", api.size_hint));
                    }
                    for (k, got) in api.nth.iter().enumerate() {
                        if got.as_ref() != base.get(k) {
                            return bad("nth", format!("nth({k}) = {got:?}"));
                        }
                    }
                    let rest: Vec<ReplicaView> = base.iter().skip(2).cloned().collect();
                    if api.after_nth1.0 != rest || api.after_nth1.1 != (rest.len(), Some(rest.len())) {
                        return bad("after-nth", format!("after nth(1): {:?}", api.after_nth1));
                    }
                    if api.ordered != base {
                        return bad("ordered", format!("into_replicas_ordered gives {:?}", api.ordered));
                    }
                    match &api.choose {
                        None if n == 0 => {}
                        Some(c) if base.contains(c) => {}
                        other => return bad("choose_filtered", format!("{other:?}")),
                    }
                    if !api.choose_none {
                        return bad("choose_filtered", "a rejecting predicate still got a replica".into());
                    }
                    if api.token_endpoints != full {
                        return bad("get_token_endpoints", format!("{:?} vs full answer {full:?}", api.token_endpoints));
                    }
                }
            }
            answers.push(0xff);
        }
        if any_failed && !o.world.info_has_unknown_replicas() {
            return Err(complaint("flags", "a tablet has unresolved replica ids but TabletsInfo::has_unknown_replicas is false".into()));
        }
        Ok(vcore::fnv64(&answers))
    }

    /// Canonical form: the hook's range list with replica labels, failed markers, both flags,
    /// table-entry existence and the part of the topology later transitions depend on.
    /// Relabelling only: A's concrete address is replaced by "equals the current address of A".
    pub fn canon_bytes(&self, o: &Obj) -> Vec<u8> {
        self.canon_with(o, &self.dumps(o))
    }

    pub fn canon_with(&self, o: &Obj, dumps: &[Option<TableDump>]) -> Vec<u8> {
        let mut c: Vec<u8> = Vec::with_capacity(128);
        c.push(o.topo.c_present as u8 | (o.topo.b_dc3 as u8) << 1 | (o.world.info_has_unknown_replicas() as u8) << 2 | (o.topo.d_present as u8) << 3);
        let dc_code = |d: &Option<String>| -> u8 {
            match d.as_deref() {
                None => 0,
                Some("dc1") => 1,
                Some("dc2") => 2,
                Some("dc3") => 3,
                _ => 9,
            }
        };
        let push_replica = |c: &mut Vec<u8>, r: &ReplicaView| {
            let label = label_of(r.host_id);
            let cur_addr = o.topo.spec_of(label).map(|s| s.address);
            c.extend([label as u8, r.shard as u8, r.is_current_node_object as u8 | ((cur_addr == Some(r.address)) as u8) << 1, dc_code(&r.datacenter)]);
        };
        for d in dumps {
            match d {
                None => c.push(0xe0),
                Some(d) => {
                    c.push(0xe1 + d.has_unknown_replicas as u8);
                    for t in &d.tablets {
                        c.extend(t.first_token.to_be_bytes());
                        c.extend(t.last_token.to_be_bytes());
                        c.push(t.all.len() as u8);
                        for r in &t.all {
                            push_replica(&mut c, r);
                        }
                        c.push(t.per_dc.len() as u8);
                        for (dc, v) in &t.per_dc {
                            c.push(dc_code(&Some(dc.clone())));
                            c.push(v.len() as u8);
                            for r in v {
                                push_replica(&mut c, r);
                            }
                        }
                        match &t.failed {
                            None => c.push(0xf0),
                            Some(f) => {
                                c.push(0xf1);
                                c.push(f.len() as u8);
                                for (u, s) in f {
                                    c.extend([label_of(*u) as u8, *s as u8]);
                                }
                            }
                        }
                    }
                    c.push(0xef);
                }
            }
        }
        c
    }

    /// Differential oracle: two histories with equal canon must answer every lookup identically.
    pub fn differential(&self, canon: &[u8], answers: u64) -> Result<(), String> {
        let h = vcore::fnv64(canon);
        let shard = (h.wrapping_mul(0x9e37_79b9_7f4a_7c15) >> 52) as usize; // top 12 bits after mixing
        let mut g = self.seen_answers[shard].lock().unwrap();
        match g.get(&h) {
            Some(prev) if *prev != answers => Err(complaint("differential", "two histories reach the same canonical form but answer lookups differently (the canonical form misses state)".into())),
            Some(_) => Ok(()),
            None => {
                g.insert(h, answers);
                Ok(())
            }
        }
    }

    fn maybe_keep_for_audit(&self, canon: &[u8], o: &Obj) {
        if self.cfg.audit_mod == 0 {
            return;
        }
        let h = vcore::fnv64(canon) ^ 0x9e37_79b9_7f4a_7c15;
        if h % self.cfg.audit_mod != 0 {
            return;
        }
        let mut seen = self.audit_seen.lock().unwrap();
        if seen.len() < self.cfg.audit_cap && seen.insert(h) {
            self.audit.lock().unwrap().push(o.history.clone());
        }
    }
}

impl TabModel {
    /// Replay `history` on a fresh instance (prefix memoised per thread), apply its last event.
    fn materialise(&self, codes: &[u16]) -> Result<Obj, String> {
        let history = self.decode(codes);
        let Some((last, prefix)) = history.split_last() else { return Ok(self.fresh()) };
        let mut o = PARENT.with(|p| {
            let mut p = p.borrow_mut();
            match p.as_ref() {
                Some((id, parent)) if *id == self.id && parent.history == prefix => parent.clone(),
                _ => {
                    let mut o = self.fresh();
                    for e in prefix {
                        // the prefix was accepted when it was first explored
                        if let Err(w) = self.apply_ev(&mut o, e) {
                            panic!("REPLAY-DIVERGENCE: accepted prefix fails on replay: {w}");
                        }
                    }
                    *p = Some((self.id, o.clone()));
                    o
                }
            }
        });
        self.apply_ev(&mut o, last)?;
        Ok(o)
    }

    fn with_state<R>(&self, lo: &LazyObj, f: impl FnOnce(&Obj) -> Result<R, String>) -> Result<R, String> {
        let mut g = lo.state.borrow_mut();
        if g.is_none() {
            *g = Some(self.materialise(&lo.history));
        }
        match g.as_ref().unwrap() {
            Ok(o) => f(o),
            Err(w) => Err(w.clone()),
        }
    }
}

/// 128-bit digest of the canonical form (what the engine's visited set stores).
pub fn digest(c: &[u8]) -> Vec<u8> {
    let a = vcore::fnv64(c);
    let mut b: u64 = 0x6c62_272e_07bb_0142 ^ c.len() as u64;
    for x in c.iter().rev() {
        b = (b ^ *x as u64).wrapping_mul(0x0000_0100_0000_01b3).rotate_left(29);
    }
    let mut out = a.to_le_bytes().to_vec();
    out.extend(b.to_le_bytes());
    out
}

impl vcore::bfs::Model for TabModel {
    type Event = u16;
    type Obj = LazyObj;
    fn init(&self) -> LazyObj {
        LazyObj { history: Vec::new(), state: std::cell::RefCell::new(None), canon: std::cell::RefCell::new(None) }
    }
    fn enabled(&self, _o: &LazyObj) -> Vec<u16> {
        (0..self.menu.len() as u16).collect()
    }
    fn apply(&self, o: &mut LazyObj, ev: &u16) -> Result<(), String> {
        o.history.push(*ev);
        *o.state.borrow_mut() = None;
        *o.canon.borrow_mut() = None;
        Ok(())
    }
    fn check(&self, o: &LazyObj) -> Result<(), String> {
        self.with_state(o, |st| {
            let dumps = self.dumps(st);
            let answers = self.verify_with(st, &dumps)?;
            let canon = self.canon_with(st, &dumps);
            let res = self.differential(&canon, answers);
            *o.canon.borrow_mut() = Some(canon);
            res
        })
    }
    fn canon(&self, o: &LazyObj) -> Vec<u8> {
        let cached = o.canon.borrow_mut().take();
        self.with_state(o, |st| {
            let c = cached.unwrap_or_else(|| self.canon_bytes(st));
            self.maybe_keep_for_audit(&c, st);
            Ok(digest(&c))
        })
        .unwrap_or_default()
    }
}

/// Split "KEY|text".
pub fn split_complaint(w: &str) -> (String, String) {
    match w.split_once('|') {
        Some((k, t)) if !k.contains(' ') => (k.to_string(), t.to_string()),
        _ => ("unclassified".to_string(), w.to_string()),
    }
}
