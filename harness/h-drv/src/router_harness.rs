//! Shared E-ASYNC harness around the real `Connection::router` (hook H-CONN-ROUTER): a scripted
//! CQL peer on a `vasync::ScriptedStream`, caller futures running the real
//! `RouterHandle::send_request`, everything polled by the explorer. Used by C02 leg B and C10 leg A.
//!
//! The peer side is written here from the protocol description (9-byte v4 header: version, flags,
//! stream i16 BE, opcode, length u32 BE) and shares no code with the crates under test.

use std::cell::RefCell;
use std::rc::Rc;
use std::time::Duration;

use scylla::verif::conn as hook;
use vasync::{Exec, StreamCtl, TaskId};
use vcore::dfs::Chooser;

pub const OP_ERROR: u8 = 0x00;
pub const OP_OPTIONS: u8 = 0x05;
pub const OP_SUPPORTED: u8 = 0x06;
pub const OP_QUERY: u8 = 0x07;
pub const OP_RESULT: u8 = 0x08;
pub const OP_PREPARE: u8 = 0x09;
pub const OP_EXECUTE: u8 = 0x0A;

/// One frame as the peer sees / writes it.
#[derive(Clone, Debug, PartialEq, Eq)]
pub struct Frame {
    pub version: u8,
    pub flags: u8,
    pub stream: i16,
    pub opcode: u8,
    pub body: Vec<u8>,
}

impl Frame {
    pub fn encode(&self) -> Vec<u8> {
        let mut v = Vec::with_capacity(9 + self.body.len());
        v.push(self.version);
        v.push(self.flags);
        v.extend_from_slice(&self.stream.to_be_bytes());
        v.push(self.opcode);
        v.extend_from_slice(&(self.body.len() as u32).to_be_bytes());
        v.extend_from_slice(&self.body);
        v
    }
    pub fn response(stream: i16, opcode: u8, body: &[u8]) -> Frame {
        Frame { version: 0x84, flags: 0, stream, opcode, body: body.to_vec() }
    }
}

/// Split complete frames off the front of `buf`; an incomplete tail stays in `buf`.
pub fn parse_frames(buf: &mut Vec<u8>) -> Vec<Frame> {
    let mut out = Vec::new();
    loop {
        if buf.len() < 9 {
            return out;
        }
        let len = u32::from_be_bytes([buf[5], buf[6], buf[7], buf[8]]) as usize;
        if buf.len() < 9 + len {
            return out;
        }
        let f = Frame { version: buf[0], flags: buf[1], stream: i16::from_be_bytes([buf[2], buf[3]]), opcode: buf[4], body: buf[9..9 + len].to_vec() };
        buf.drain(..9 + len);
        out.push(f);
    }
}

#[derive(Clone, Debug)]
pub struct CallerSpec {
    pub opcode: u8,
    /// request body: a unique token (the router never looks inside)
    pub request_body: Vec<u8>,
    /// the body the peer will answer with (unique per caller)
    pub response_body: Vec<u8>,
    pub response_opcode: u8,
}

pub fn caller_spec(idx: usize) -> CallerSpec {
    // different request kinds and sizes; response bodies of size 0, 4, 17, ... all distinct
    let (opcode, req_pad, resp): (u8, usize, Vec<u8>) = match idx {
        0 => (OP_QUERY, 3, Vec::new()),
        1 => (OP_PREPARE, 40, b"r1:x".to_vec()),
        2 => (OP_EXECUTE, 0, b"response-two-17by".to_vec()),
        3 => (OP_QUERY, 11, b"late-caller-response".to_vec()),
        k => (OP_QUERY, k, format!("response-of-caller-{k}").into_bytes()),
    };
    let mut request_body = format!("REQ#{idx}#").into_bytes();
    request_body.extend(std::iter::repeat_n(b'.', req_pad));
    CallerSpec { opcode, request_body, response_body: resp, response_opcode: if idx == 1 { OP_ERROR } else { OP_RESULT } }
}

/// caller `idx` whose response body is `size` bytes of a position-dependent pattern (for bodies larger than the reader's
/// initial 32 KiB allocation)
pub fn caller_spec_big(idx: usize, size: usize) -> CallerSpec {
    let mut s = caller_spec(idx);
    s.response_body = (0..size).map(|i| ((i as u32).wrapping_mul(31).wrapping_add(7) >> 2) as u8).collect();
    s.response_opcode = OP_RESULT;
    s
}

/// A well-formed EVENT frame (stream -1): STATUS_CHANGE UP 10.0.0.<n>:9042.
pub fn event_frame(n: u8) -> Frame {
    let mut b = Vec::new();
    for s in ["STATUS_CHANGE", "UP"] {
        b.extend_from_slice(&(s.len() as u16).to_be_bytes());
        b.extend_from_slice(s.as_bytes());
    }
    b.push(4);
    b.extend_from_slice(&[10, 0, 0, n]);
    b.extend_from_slice(&9042i32.to_be_bytes());
    Frame::response(-1, 0x0C, &b)
}

pub type Outcome = Result<hook::RawResponse, hook::SendError>;

pub struct Caller {
    pub spec: CallerSpec,
    pub task: TaskId,
    pub out: Rc<RefCell<Option<Outcome>>>,
    pub cancelled: bool,
    /// outcome already inspected by the oracle
    pub checked: bool,
    /// stream on which the peer saw this caller's request
    pub stream: Option<i16>,
    /// the peer wrote the complete response frame for this caller
    pub answered_fully: bool,
    /// the peer started writing the response
    pub answer_started: bool,
    pub cancelled_while_owed: bool,
}

#[derive(Clone, Debug)]
pub struct Held {
    pub stream: i16,
    /// None: a keep-alive OPTIONS request of the driver itself
    pub caller: Option<usize>,
}

pub struct World {
    pub ex: Exec,
    pub ctl: StreamCtl,
    pub router: TaskId,
    pub handle: hook::RouterHandle,
    pub errors: Box<dyn hook::ErrorRxOps>,
    pub events: Option<Box<dyn hook::EventRxOps>>,
    pub events_received: usize,
    pub error_seen: Option<String>,
    pub callers: Vec<Caller>,
    /// requests the peer has received and not (completely) answered, in arrival order
    pub held: Vec<Held>,
    pub inbuf: Vec<u8>,
    /// observation trace (for the determinism audit and for replay output)
    pub trace: Vec<String>,
    pub frames_seen: usize,
    pub writes_seen: usize,
    pub max_frames_per_write: usize,
    pub keepalives_seen: usize,
    ex_trace_pos: usize,
}

impl World {
    pub fn new(cfg: hook::RouterCfg, read_chunk: usize) -> World {
        let (ctl, stream) = StreamCtl::new();
        ctl.set_max_read_chunk(read_chunk);
        let parts = hook::build_router(stream, cfg);
        let mut ex = Exec::new();
        let router = ex.spawn("router", parts.router);
        World {
            ex,
            ctl,
            router,
            handle: parts.handle,
            errors: parts.errors,
            events: parts.events,
            events_received: 0,
            error_seen: None,
            callers: Vec::new(),
            held: Vec::new(),
            inbuf: Vec::new(),
            trace: Vec::new(),
            frames_seen: 0,
            writes_seen: 0,
            max_frames_per_write: 0,
            keepalives_seen: 0,
            ex_trace_pos: 0,
        }
    }

    pub fn log(&mut self, s: String) {
        self.sync_exec_trace();
        self.trace.push(s);
    }
    fn sync_exec_trace(&mut self) {
        while self.ex_trace_pos < self.ex.trace.len() {
            let t = self.ex.trace[self.ex_trace_pos].clone();
            self.trace.push(t);
            self.ex_trace_pos += 1;
        }
    }

    /// Create the caller's future (the real `send_request`); it starts woken and does nothing until polled.
    pub fn start_caller(&mut self, spec: CallerSpec) -> usize {
        let idx = self.callers.len();
        let fut = self.handle.send_raw(spec.opcode, spec.request_body.clone());
        let (task, out) = self.ex.spawn_with_output(&format!("caller{idx}"), fut);
        self.callers.push(Caller { spec, task, out, cancelled: false, checked: false, stream: None, answered_fully: false, answer_started: false, cancelled_while_owed: false });
        self.log(format!("start caller{idx}"));
        idx
    }

    pub fn cancel_caller(&mut self, idx: usize) {
        let owed = self.callers[idx].stream.is_some() && !self.callers[idx].answered_fully;
        let done_unseen = self.callers[idx].out.borrow().is_some();
        let c = &mut self.callers[idx];
        c.cancelled = true;
        c.cancelled_while_owed = owed;
        let t = c.task;
        self.ex.cancel(t);
        self.log(format!("cancel caller{idx} (response owed by peer: {owed}, outcome already produced: {done_unseen})"));
    }

    pub fn caller_done(&self, idx: usize) -> bool {
        self.callers[idx].out.borrow().is_some()
    }
    pub fn caller_pending(&self, idx: usize) -> bool {
        !self.callers[idx].cancelled && !self.caller_done(idx)
    }

    pub async fn poll_task(&mut self, t: TaskId) {
        self.ex.poll(t);
        vasync::flush_deferred().await;
        self.sync_exec_trace();
    }

    pub async fn woken(&mut self) -> Vec<TaskId> {
        let w = self.ex.woken();
        if !w.is_empty() {
            return w;
        }
        vasync::flush_deferred().await;
        self.ex.woken()
    }

    /// Poll until nothing is woken; scheduling order is an explorer choice (non-lowest = 1 deviation).
    pub async fn quiesce(&mut self, ch: &mut Chooser, max_polls: usize) -> Result<(), String> {
        let r = self.ex.run_until_quiescent(ch, max_polls).await;
        self.sync_exec_trace();
        r.map_err(|e| format!("livelock|{e}"))
    }
    pub async fn quiesce_default(&mut self, max_polls: usize) -> Result<(), String> {
        let r = self.ex.run_until_quiescent_default(max_polls).await;
        self.sync_exec_trace();
        r.map_err(|e| format!("livelock|{e}"))
    }

    /// Peer side: take what the client wrote, split it into frames, remember who sent what.
    /// Err = an oracle complaint about what the peer sees ("key|text").
    pub fn ingest(&mut self) -> Result<(), String> {
        let bytes = self.ctl.take_written();
        if bytes.is_empty() {
            return Ok(());
        }
        self.writes_seen += 1;
        self.inbuf.extend_from_slice(&bytes);
        let frames = parse_frames(&mut self.inbuf);
        self.max_frames_per_write = self.max_frames_per_write.max(frames.len());
        for f in frames {
            self.frames_seen += 1;
            if f.version != 0x04 {
                return Err(format!("request-frame:bad-version|peer received a frame with version byte {:#x}", f.version));
            }
            if f.stream < 0 {
                return Err(format!("request-frame:negative-stream|peer received a request on stream {}", f.stream));
            }
            let who = if f.opcode == OP_OPTIONS && f.body.is_empty() {
                self.keepalives_seen += 1;
                None
            } else {
                let idx = self.callers.iter().position(|c| c.spec.request_body == f.body && c.spec.opcode == f.opcode);
                match idx {
                    None => return Err(format!("request-frame:unknown-content|peer received a frame (opcode {:#x}, {} body bytes) that no caller sent", f.opcode, f.body.len())),
                    Some(i) => {
                        if self.callers[i].stream.is_some() {
                            return Err(format!("request-frame:duplicate|peer received the request of caller{i} twice"));
                        }
                        Some(i)
                    }
                }
            };
            if let Some(h) = self.held.iter().find(|h| h.stream == f.stream) {
                let holder = h.caller.map(|c| format!("caller{c} (cancelled: {})", self.callers[c].cancelled)).unwrap_or_else(|| "the keep-alive".into());
                return Err(format!(
                    "stream-reuse-while-held|peer received the request of {} on stream {} while it still holds the unanswered request of {} on that stream",
                    who.map(|c| format!("caller{c}")).unwrap_or_else(|| "a keep-alive".into()),
                    f.stream,
                    holder
                ));
            }
            if let Some(i) = who {
                self.callers[i].stream = Some(f.stream);
            }
            self.held.push(Held { stream: f.stream, caller: who });
            self.log(format!("peer got {} on stream {}", who.map(|c| format!("request of caller{c}")).unwrap_or_else(|| "keep-alive OPTIONS".into()), f.stream));
        }
        Ok(())
    }

    /// The response frame the peer writes for held request `h`.
    pub fn response_frame(&self, h: &Held) -> Frame {
        match h.caller {
            Some(c) => Frame::response(h.stream, self.callers[c].spec.response_opcode, &self.callers[c].spec.response_body),
            None => Frame::response(h.stream, OP_SUPPORTED, b"\x00\x00"),
        }
    }

    pub fn deliver(&mut self, bytes: &[u8], what: &str) {
        self.ctl.deliver(bytes);
        self.log(format!("peer wrote {} bytes ({what})", bytes.len()));
    }

    /// Mark held request `pos` as completely answered by the peer.
    pub fn mark_answered(&mut self, pos: usize) {
        let h = self.held.remove(pos);
        if let Some(c) = h.caller {
            self.callers[c].answered_fully = true;
        }
    }

    pub fn poll_error_receiver(&mut self) -> Result<(), String> {
        if self.error_seen.is_some() {
            return Ok(());
        }
        match self.errors.poll() {
            Ok(Some(e)) => {
                self.log("error receiver fired".to_string());
                self.error_seen = Some(e);
                Ok(())
            }
            Ok(None) => Ok(()),
            Err(()) => Err("error-receiver:dropped-silently|the router dropped the connection error sender without sending an error".into()),
        }
    }

    /// Take what arrived on the event channel (the consumer of a control connection's events).
    pub fn drain_events(&mut self) {
        if let Some(e) = self.events.as_mut() {
            let got = e.drain();
            if !got.is_empty() {
                self.events_received += got.len();
                let n = got.len();
                self.log(format!("event consumer took {n} event(s)"));
            }
        }
    }

    pub fn router_done(&self) -> bool {
        self.ex.is_done(self.router)
    }

    pub fn finish_trace(&mut self) -> Vec<String> {
        self.sync_exec_trace();
        std::mem::take(&mut self.trace)
    }
}

/// What the oracle says about a completed caller, given what the peer wrote for it.
/// `Ok(class)`: acceptable, with a short outcome class for the distinct-outcome statistics.
pub fn judge_completed(idx: usize, c: &Caller, out: &Outcome) -> Result<String, String> {
    match out {
        Ok(resp) => {
            if !c.answered_fully {
                return Err(format!(
                    "misdelivery:ok-without-complete-response|caller{idx} completed Ok with {} body bytes (opcode {:#x}, stream {}) although the peer never completely wrote a response to its request (request seen on stream {:?}, response started: {})",
                    resp.body.len(),
                    resp.opcode,
                    resp.stream,
                    c.stream,
                    c.answer_started
                ));
            }
            if resp.body != c.spec.response_body || resp.opcode != c.spec.response_opcode {
                let show = |b: &[u8]| -> String {
                    if b.len() <= 48 { format!("{:?}", String::from_utf8_lossy(b)) } else { format!("{} bytes starting {}", b.len(), vcore::hex(&b[..16])) }
                };
                let first_diff = resp.body.iter().zip(c.spec.response_body.iter()).position(|(x, y)| x != y).unwrap_or(resp.body.len().min(c.spec.response_body.len()));
                return Err(format!(
                    "misdelivery:foreign-response|caller{idx} received body {} (opcode {:#x}) - the peer answered its request with {} (opcode {:#x}); the two agree on the first {first_diff} bytes",
                    show(&resp.body),
                    resp.opcode,
                    show(&c.spec.response_body),
                    c.spec.response_opcode
                ));
            }
            if Some(resp.stream) != c.stream {
                return Err(format!("misdelivery:foreign-stream|caller{idx} received a frame of stream {} - its request travelled on {:?}", resp.stream, c.stream));
            }
            Ok("ok".into())
        }
        Err(e) => Ok(format!("err:{:?}", e.kind)),
    }
}

pub fn split_key(what: &str) -> (String, String) {
    match what.split_once('|') {
        Some((k, t)) => (k.to_string(), t.to_string()),
        None => ("other".into(), what.to_string()),
    }
}

pub fn coalescing_of(name: &str) -> Option<scylla::client::WriteCoalescingDelay> {
    match name {
        "off" => None,
        "yield" => Some(scylla::client::WriteCoalescingDelay::SmallNondeterministic),
        "1ms" => Some(scylla::client::WriteCoalescingDelay::Milliseconds(std::num::NonZeroU64::new(1).unwrap())),
        other => panic!("unknown coalescing mode {other}"),
    }
}

pub const MS: Duration = Duration::from_millis(1);

/// Result of the determinism audit of one execution (DESIGN.md 1.2).
pub enum Audit {
    /// replayed with the same verdict (and, for a passing execution, the identical observation trace)
    Stable,
    /// the same choice sequence violates the oracle in some replays and not in others: the driver's behaviour depends on
    /// randomness the harness does not own (select! start branch, hash order). Every violating run is a real execution of
    /// the real code, so it is reported - with this note, because `vf replay` may need several attempts.
    FlakyViolation { what: String, violating_runs: u32, runs: u32 },
    /// replays disagree without any violation, or a violation never shows again: harness trouble, exit 2
    Diverged(String),
}

/// `rerun` executes the same choice sequence again: Some((verdict, trace)) or None if it panicked.
pub fn audit(first: &Result<(), String>, first_trace: &[String], rerun: &dyn Fn() -> Option<(Result<(), String>, Vec<String>)>) -> Audit {
    match first {
        Ok(()) => match rerun() {
            Some((Ok(()), t)) => {
                if t == first_trace {
                    Audit::Stable
                } else {
                    let at = t.iter().zip(first_trace.iter()).position(|(a, b)| a != b).unwrap_or(t.len().min(first_trace.len()));
                    Audit::Diverged(format!("two passing runs of one choice sequence differ at trace line {at}: {:?} vs {:?}", first_trace.get(at), t.get(at)))
                }
            }
            Some((Err(e), _)) => Audit::FlakyViolation { what: e, violating_runs: 1, runs: 2 },
            None => Audit::FlakyViolation { what: panic_complaint("replay of a passing choice sequence", "panic"), violating_runs: 1, runs: 2 },
        },
        Err(e) => {
            let key = split_key(e).0;
            let mut violating = 1;
            let mut runs = 1;
            for i in 0..64 {
                runs += 1;
                let again = rerun();
                let same = match &again {
                    Some((Err(e2), _)) => split_key(e2).0 == key,
                    None => key.starts_with("panic"),
                    _ => false,
                };
                if same {
                    violating += 1;
                    if i == 0 {
                        return Audit::Stable;
                    }
                    return Audit::FlakyViolation { what: e.clone(), violating_runs: violating, runs };
                }
            }
            Audit::Diverged(format!("a violation ({key}) did not show again in 64 replays of the same choice sequence"))
        }
    }
}

/// Turn a caught panic into an oracle complaint. A panic whose location is inside the driver crates (or inside a
/// dependency the driver called) is a violation with the stable key `panic:<source file>`; a panic inside harness code
/// is a machinery error (exit 2), never a verdict.
pub fn panic_complaint(context: &str, msg: &str) -> String {
    let loc = vcore::last_panic_location();
    let file = loc.rsplit_once(':').map(|(f, _)| f).unwrap_or(&loc).to_string();
    let in_driver = ["/scylla/src/", "/scylla-cql/", "/scylla-cql-core/", "/scylla-macros/"].iter().any(|p| file.contains(p));
    let in_harness = ["/h-drv/", "/vasync/", "/vcore/", "/cqlref/", "/h-cql/"].iter().any(|p| file.contains(p));
    if in_harness && !in_driver {
        vcore::machinery_error(&format!("panic in harness code ({context}): {msg} at {loc}"));
    }
    let site = if in_driver { file.rsplit('/').next().unwrap_or("driver").to_string() } else { "dependency".to_string() };
    format!("panic:{site}|{context}: the driver panicked: {msg} at {loc}")
}
