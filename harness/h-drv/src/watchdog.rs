//! A mutated driver must never hang the checker. Every leg that calls driver code in-process runs as
//!   parent (thin)  ->  child (`--inner`: the real leg + a monitor thread)
//! Worker threads publish what they are about to run (`enter(case bytes)` ... `leave()`); the monitor
//! thread sees a call that has not returned within the deadline (a poll / modify / drop of the channel
//! does microseconds of work; the deadline is > 1000x that even on a heavily loaded machine), prints
//! `HANG-DETECTED <json case>` and exits the child. The parent turns that into a proper violation
//! (`<what>:does-not-return`, the case is the history that was running), writes the evidence part and
//! exits 1; otherwise it passes the child's output and exit code through (the child wrote the part).
use serde_json::{Value, json};
use std::sync::Mutex;
use std::sync::atomic::{AtomicUsize, Ordering};
use std::time::{Duration, Instant};

const SLOTS: usize = 256;
type Slot = Mutex<(Option<Instant>, Vec<u8>)>;
static TABLE: [Slot; SLOTS] = [const { Mutex::new((None, Vec::new())) }; SLOTS];
static NEXT: AtomicUsize = AtomicUsize::new(0);
thread_local! {
    static MY: usize = NEXT.fetch_add(1, Ordering::Relaxed) % SLOTS;
}

/// The calling thread is about to run driver code for the case `bytes` (leg-defined encoding).
#[inline]
pub fn enter(bytes: &[u8]) {
    MY.with(|i| {
        let mut g = TABLE[*i].lock().unwrap();
        g.1.clear();
        g.1.extend_from_slice(bytes);
        g.0 = Some(Instant::now());
    })
}
#[inline]
pub fn leave() {
    MY.with(|i| TABLE[*i].lock().unwrap().0 = None)
}

/// Child side: report a call that does not return and end the process (stuck threads cannot be joined).
pub fn report_hang(case: Value, secs: f64) -> ! {
    println!("HANG-DETECTED {}", json!({"case": case, "stuck_for_s": secs}));
    use std::io::Write;
    let _ = std::io::stdout().flush();
    std::process::exit(3)
}

/// Child side: start the monitor. `describe` decodes the published bytes into the replayable case.
pub fn start_monitor(deadline: Duration, describe: fn(&[u8]) -> Value) {
    std::thread::spawn(move || {
        loop {
            std::thread::sleep(Duration::from_millis(250));
            for s in TABLE.iter() {
                let hit = {
                    let g = s.lock().unwrap();
                    match g.0 {
                        Some(t) if t.elapsed() > deadline => Some((g.1.clone(), t.elapsed().as_secs_f64())),
                        _ => None,
                    }
                };
                if let Some((bytes, secs)) = hit {
                    report_hang(describe(&bytes), secs);
                }
            }
        }
    });
}

pub fn is_inner() -> bool {
    std::env::args().any(|a| a == "--inner")
}

/// Parent side. Runs this binary again with `--inner`; returns only in the child (to run the real leg).
/// `key`: violation key for a call that does not return.
pub fn guard(property: &str, leg: &str, level: &str, engine: &str, key: &str) {
    if is_inner() {
        return;
    }
    let mut args: Vec<String> = std::env::args().skip(1).collect();
    args.push("--inner".into());
    let a: Vec<&str> = args.iter().map(|s| s.as_str()).collect();
    let c = vcore::sandbox::run_self(&a, b"", Duration::from_secs(4 * 3600));
    let so = String::from_utf8_lossy(&c.stdout).to_string();
    let hang = so.lines().find_map(|l| l.strip_prefix("HANG-DETECTED ")).and_then(|l| serde_json::from_str::<Value>(l).ok());
    for l in so.lines().filter(|l| !l.starts_with("HANG-DETECTED ")) {
        println!("{l}");
    }
    let Some(h) = hang else {
        if !c.stderr_tail.trim().is_empty() && c.exit_code != Some(0) && c.exit_code != Some(1) {
            eprintln!("{}", c.stderr_tail);
        }
        std::process::exit(c.exit_code.unwrap_or(2));
    };
    let what = format!(
        "a driver call did not return within {:.1} s (it normally takes microseconds): the channel spins or blocks inside one poll / modify / drop; case = the history that was running",
        h["stuck_for_s"].as_f64().unwrap_or(0.0)
    );
    let r = vcore::Report::new(property, leg, level, engine);
    if r.args.replay.is_some() {
        println!("REPLAY property={property} leg={leg} reproduced: [{key}] {what}");
        std::process::exit(1);
    }
    r.eval(1);
    r.states.store(1, Ordering::Relaxed);
    r.transitions.store(1, Ordering::Relaxed);
    r.violation(key, &format!("{what}: {}", h["case"]), h["case"].clone());
    r.sample(h["case"].clone());
    r.set_rule("the leg's child process was stopped by its watchdog: one driver call did not return; counts of the interrupted search are not reported");
    r.finish();
}
