//! Shared helpers for the driver-level checks (bins under src/bin).
pub mod baton; // C19-B: E-THREAD baton scheduler (two OS threads at hooked yield points)
