//! Shared helpers for the driver-level checks (bins under src/bin).
pub mod retrysym; // C06: failure alphabet as driver error values + mappings to cqlref::retry
pub mod topo; // C04/C05: small-topology enumerator, H-CLUSTER builders, scripted RNG
pub mod tabmodel; // C15: TabletsInfo model (H-TABLETS) + reference map glue
pub mod baton; // C19-B: E-THREAD baton scheduler (two OS threads at hooked yield points)
pub mod router_harness; // C02-B / C10-A: E-ASYNC world around the real Connection::router (H-CONN-ROUTER), scripted peer, frame helper
pub mod specmodel; // C13: reference model of the speculative-execution contract
pub mod execharness; // C06-B/C13-B: recording retry policy + history listener for runs through H-EXEC
pub mod bfs_reuse; // C02-A: vcore E-BFS that reuses the object rebuilt for `enabled` (expensive 32768-id pre-fill)
pub mod watchdog; // C19: a driver call that does not return becomes a violation (parent/child + monitor thread)
