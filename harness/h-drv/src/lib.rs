//! Shared helpers for the driver-level checks (bins under src/bin).
