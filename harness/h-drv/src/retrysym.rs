//! C06 (shared by legs A and B): the per-attempt failure alphabet as real driver error values, and the
//! mappings driver value -> cqlref::retry enums. The *classification* of a symbol (ErrClass) is stated here
//! per symbol from the property text, not derived from driver code.

use cqlref::retry::{Cl, Decision, ErrClass};
use scylla::errors::{DbError, RequestAttemptError, WriteType};
use scylla::policies::retry::RetryDecision;
use scylla::statement::Consistency;

pub struct Sym {
    pub name: String,
    pub class: ErrClass,
    pub err: RequestAttemptError,
}

fn db(e: DbError) -> RequestAttemptError {
    RequestAttemptError::DbError(e, String::from("verif"))
}

pub fn write_types() -> Vec<(&'static str, WriteType)> {
    vec![
        ("SIMPLE", WriteType::Simple),
        ("BATCH", WriteType::Batch),
        ("UNLOGGED_BATCH", WriteType::UnloggedBatch),
        ("COUNTER", WriteType::Counter),
        ("BATCH_LOG", WriteType::BatchLog),
        ("CAS", WriteType::Cas),
        ("VIEW", WriteType::View),
        ("CDC", WriteType::Cdc),
        ("OTHER", WriteType::Other("WEIRD".to_string())),
    ]
}

/// The full alphabet: every `DbError` variant with the field combinations any built-in policy branches on,
/// broken connection, stream-id exhaustion, one representative of each parse/serialisation error.
pub fn alphabet() -> Vec<Sym> {
    let mut v: Vec<Sym> = Vec::new();
    let mut push = |name: String, class: ErrClass, err: RequestAttemptError| v.push(Sym { name, class, err });
    for alive in 0..=3 {
        push(format!("Unavailable(alive={alive})"), ErrClass::Unavailable, db(DbError::Unavailable { consistency: Consistency::Quorum, required: 3, alive }));
    }
    push("IsBootstrapping".into(), ErrClass::IsBootstrapping, db(DbError::IsBootstrapping));
    push("UnableToAllocStreamId".into(), ErrClass::StreamIdExhausted, RequestAttemptError::UnableToAllocStreamId);
    // read timeouts: received < required (0..3 of 4) and received >= required, x data_present
    for (received, required) in [(0, 4), (1, 4), (2, 4), (3, 4), (2, 2), (3, 2)] {
        for data_present in [false, true] {
            push(
                format!("ReadTimeout(received={received},required={required},data_present={data_present})"),
                ErrClass::ReadTimeout,
                db(DbError::ReadTimeout { consistency: Consistency::Quorum, received, required, data_present }),
            );
        }
    }
    for (n, wt) in write_types() {
        let recs: &[i32] = if n == "UNLOGGED_BATCH" { &[0, 1, 2, 3] } else { &[0, 1] };
        for &received in recs {
            push(
                format!("WriteTimeout({n},received={received})"),
                ErrClass::WriteTimeout,
                db(DbError::WriteTimeout { consistency: Consistency::Quorum, received, required: 4, write_type: wt.clone() }),
            );
        }
    }
    push(
        "BrokenConnection".into(),
        ErrClass::BrokenConnection,
        RequestAttemptError::BrokenConnectionError(BrokenConnectionErrorKind::TooManyOrphanedStreamIds(5).into()),
    );
    push("Overloaded".into(), ErrClass::Overloaded, db(DbError::Overloaded));
    push("ServerError".into(), ErrClass::ServerError, db(DbError::ServerError));
    push("TruncateError".into(), ErrClass::TruncateError, db(DbError::TruncateError));
    let others: Vec<(&str, DbError)> = vec![
        ("SyntaxError", DbError::SyntaxError),
        ("Invalid", DbError::Invalid),
        ("AlreadyExists", DbError::AlreadyExists { keyspace: "ks".into(), table: "t".into() }),
        ("FunctionFailure", DbError::FunctionFailure { keyspace: "ks".into(), function: "f".into(), arg_types: vec!["int".into()] }),
        ("AuthenticationError", DbError::AuthenticationError),
        ("Unauthorized", DbError::Unauthorized),
        ("ConfigError", DbError::ConfigError),
        ("ReadFailure", DbError::ReadFailure { consistency: Consistency::Quorum, received: 1, required: 2, numfailures: 1, data_present: false }),
        ("WriteFailure", DbError::WriteFailure { consistency: Consistency::Quorum, received: 1, required: 2, numfailures: 1, write_type: WriteType::BatchLog }),
        ("Unprepared", DbError::Unprepared { statement_id: bytes::Bytes::from_static(b"id") }),
        ("ProtocolError", DbError::ProtocolError),
        ("RateLimitReached", DbError::RateLimitReached { op_type: OperationType::Write, rejected_by_coordinator: true }),
        ("Other(0x1234)", DbError::Other(0x1234)),
    ];
    for (n, e) in others {
        push(n.to_string(), ErrClass::OtherDb, db(e));
    }
    use scylla::errors::*;
    let low = || scylla_cql_core::frame::frame_errors::LowLevelDeserializationError::TooFewBytesReceived { expected: 4, received: 1 };
    #[derive(Debug)]
    struct E;
    impl std::fmt::Display for E {
        fn fmt(&self, f: &mut std::fmt::Formatter<'_>) -> std::fmt::Result {
            write!(f, "verif")
        }
    }
    impl std::error::Error for E {}
    let client: Vec<(&str, RequestAttemptError)> = vec![
        ("SerializationError", RequestAttemptError::SerializationError(SerializationError::new(E))),
        (
            "CqlRequestSerialization",
            RequestAttemptError::CqlRequestSerialization(CqlRequestSerializationError::BatchSerialization(
                scylla_cql_core::frame::frame_errors::BatchSerializationError::TooManyStatements(70000),
            )),
        ),
        ("BodyExtensionsParseError", RequestAttemptError::BodyExtensionsParseError(FrameBodyExtensionsParseError::NoCompressionNegotiated)),
        ("CqlResultParseError", RequestAttemptError::CqlResultParseError(CqlResultParseError::UnknownResultId(77))),
        ("CqlErrorParseError", RequestAttemptError::CqlErrorParseError(CqlErrorParseError::ErrorCodeParseError(low()))),
        ("UnexpectedResponse", RequestAttemptError::UnexpectedResponse(CqlResponseKind::Ready)),
        ("RepreparedIdChanged", RequestAttemptError::RepreparedIdChanged { statement: "s".into(), expected_id: vec![1], reprepared_id: vec![2] }),
        ("RepreparedIdMissingInBatch", RequestAttemptError::RepreparedIdMissingInBatch),
        ("NonfinishedPagingState", RequestAttemptError::NonfinishedPagingState),
    ];
    for (n, e) in client {
        push(n.to_string(), ErrClass::ClientSide, e);
    }
    v
}

/// A 14-symbol class alphabet for the loop leg: one or two representatives per behaviour class (three for a broken
/// connection: orphaned stream ids, socket write error, keepalive timeout).
pub fn class_alphabet() -> Vec<Sym> {
    let want = [
        "Unavailable(alive=0)",
        "Unavailable(alive=2)",
        "IsBootstrapping",
        "UnableToAllocStreamId",
        "ReadTimeout(received=2,required=2,data_present=false)",
        "ReadTimeout(received=1,required=4,data_present=false)",
        "WriteTimeout(BATCH_LOG,received=0)",
        "WriteTimeout(SIMPLE,received=1)",
        "BrokenConnection",
        "BrokenConnection:WriteError(BrokenPipe)",
        "BrokenConnection:KeepaliveTimeout",
        "Overloaded",
        "SyntaxError",
        "CqlResultParseError",
    ];
    let all = extended_alphabet();
    let mut out = Vec::new();
    for w in want {
        let s = all.iter().find(|s| s.name == w).unwrap_or_else(|| vcore::machinery_error(&format!("class alphabet symbol {w} missing")));
        out.push(Sym { name: s.name.clone(), class: s.class, err: s.err.clone() });
    }
    out
}

pub const CONSISTENCIES: [Consistency; 11] = [
    Consistency::Any,
    Consistency::One,
    Consistency::Two,
    Consistency::Three,
    Consistency::Quorum,
    Consistency::All,
    Consistency::LocalQuorum,
    Consistency::EachQuorum,
    Consistency::Serial,
    Consistency::LocalSerial,
    Consistency::LocalOne,
];

/// driver consistency -> reference consistency, by wire code (protocol specification numbering)
pub fn cl_of(c: Consistency) -> Cl {
    Cl::from_code(c as u16).unwrap_or_else(|| vcore::machinery_error("consistency with unknown wire code"))
}

pub fn cons_of(c: Cl) -> Consistency {
    CONSISTENCIES[c.code() as usize]
}

pub fn decision_of(d: &RetryDecision) -> Decision {
    match d {
        RetryDecision::RetrySameTarget(c) => Decision::RetrySame(c.map(cl_of)),
        RetryDecision::RetryNextTarget(c) => Decision::RetryNext(c.map(cl_of)),
        RetryDecision::DontRetry => Decision::DontRetry,
        RetryDecision::IgnoreWriteError => Decision::IgnoreWrite,
        _ => vcore::machinery_error("unknown RetryDecision variant"),
    }
}

pub fn retry_decision_of(d: Decision) -> RetryDecision {
    match d {
        Decision::RetrySame(c) => RetryDecision::RetrySameTarget(c.map(cons_of)),
        Decision::RetryNext(c) => RetryDecision::RetryNextTarget(c.map(cons_of)),
        Decision::DontRetry => RetryDecision::DontRetry,
        Decision::IgnoreWrite => RetryDecision::IgnoreWriteError,
    }
}

pub fn policy_of(p: cqlref::retry::Policy) -> std::sync::Arc<dyn scylla::policies::retry::RetryPolicy> {
    use scylla::policies::retry::*;
    match p {
        cqlref::retry::Policy::Default => std::sync::Arc::new(DefaultRetryPolicy::new()),
        cqlref::retry::Policy::Downgrading => std::sync::Arc::new(DowngradingConsistencyRetryPolicy::new()),
        cqlref::retry::Policy::Fallthrough => std::sync::Arc::new(FallthroughRetryPolicy::new()),
    }
}

/// Keeps, per violation key, the smallest failing case (by `size`, then by the case's JSON text), so that the
/// reported counterexample does not depend on which worker thread got there first.
#[derive(Default)]
pub struct MinViolations(std::sync::Mutex<std::collections::BTreeMap<String, (usize, String, String, serde_json::Value)>>);

impl MinViolations {
    pub fn add(&self, key: &str, size: usize, text: String, case: serde_json::Value) {
        let cs = case.to_string();
        let mut g = self.0.lock().unwrap();
        match g.get(key) {
            Some((s, c, _, _)) if (*s, c.as_str()) <= (size, cs.as_str()) => {}
            _ => {
                g.insert(key.to_string(), (size, cs, text, case));
            }
        }
    }
    pub fn has(&self, key: &str) -> bool {
        self.0.lock().unwrap().contains_key(key)
    }
    pub fn len(&self) -> usize {
        self.0.lock().unwrap().len()
    }
    pub fn is_empty(&self) -> bool {
        self.len() == 0
    }
    pub fn flush(&self, r: &vcore::Report) {
        for (k, (_, _, text, case)) in self.0.lock().unwrap().iter() {
            r.violation(k, text, case.clone());
        }
    }
}

/// The enlarged alphabet: `alphabet()` plus ONE SYMBOL PER VARIANT (not per family) of every non-database error
/// family a policy or the loop could branch on: every constructible `BrokenConnectionErrorKind` (with its nested
/// frame-header / event-handling variants and several `io::ErrorKind` payloads), and every variant of the
/// parse / serialisation / unexpected-response families of `RequestAttemptError`.
/// A broken connection of ANY kind is "may have been applied" (the router hands the same error to every request
/// in flight on the connection, including ones fully written earlier).
pub fn extended_alphabet() -> Vec<Sym> {
    use scylla::errors::*;
    use scylla_cql_core::frame::TryFromPrimitiveError;
    use scylla_cql_core::frame::frame_errors::{FrameHeaderParseError, LowLevelDeserializationError};
    use std::io::{Error as IoError, ErrorKind};
    use std::sync::Arc;
    let mut v = alphabet();
    let io = |k: ErrorKind| IoError::new(k, "verif");
    let low = || LowLevelDeserializationError::TooFewBytesReceived { expected: 4, received: 1 };
    #[derive(Debug)]
    struct E;
    impl std::fmt::Display for E {
        fn fmt(&self, f: &mut std::fmt::Formatter<'_>) -> std::fmt::Result {
            write!(f, "verif")
        }
    }
    impl std::error::Error for E {}
    let mut broken: Vec<(String, BrokenConnectionErrorKind)> = Vec::new();
    for k in [ErrorKind::BrokenPipe, ErrorKind::ConnectionReset, ErrorKind::ConnectionAborted, ErrorKind::TimedOut, ErrorKind::WouldBlock, ErrorKind::WriteZero, ErrorKind::Other] {
        broken.push((format!("WriteError({k:?})"), BrokenConnectionErrorKind::WriteError(io(k))));
    }
    for k in [ErrorKind::UnexpectedEof, ErrorKind::ConnectionReset, ErrorKind::TimedOut] {
        broken.push((format!("FrameHeaderParseError(HeaderIoError({k:?}))"), BrokenConnectionErrorKind::FrameHeaderParseError(FrameHeaderParseError::HeaderIoError(io(k)))));
        broken.push((format!("FrameHeaderParseError(BodyChunkIoError({k:?}))"), BrokenConnectionErrorKind::FrameHeaderParseError(FrameHeaderParseError::BodyChunkIoError(17, io(k)))));
    }
    broken.push(("FrameHeaderParseError(FrameFromClient)".into(), BrokenConnectionErrorKind::FrameHeaderParseError(FrameHeaderParseError::FrameFromClient)));
    broken.push(("FrameHeaderParseError(FrameFromServer)".into(), BrokenConnectionErrorKind::FrameHeaderParseError(FrameHeaderParseError::FrameFromServer)));
    broken.push(("FrameHeaderParseError(VersionNotSupported)".into(), BrokenConnectionErrorKind::FrameHeaderParseError(FrameHeaderParseError::VersionNotSupported(5))));
    broken.push((
        "FrameHeaderParseError(UnknownResponseOpcode)".into(),
        BrokenConnectionErrorKind::FrameHeaderParseError(FrameHeaderParseError::UnknownResponseOpcode(TryFromPrimitiveError::new("ResponseOpcode", 0x77u8))),
    ));
    broken.push(("FrameHeaderParseError(ConnectionClosed)".into(), BrokenConnectionErrorKind::FrameHeaderParseError(FrameHeaderParseError::ConnectionClosed(3, 9))));
    broken.push(("KeepaliveTimeout".into(), BrokenConnectionErrorKind::KeepaliveTimeout("127.0.0.1".parse().unwrap())));
    broken.push(("KeepaliveRequestError".into(), BrokenConnectionErrorKind::KeepaliveRequestError(Arc::new(E))));
    broken.push(("CqlEventHandlingError(SendError)".into(), BrokenConnectionErrorKind::CqlEventHandlingError(CqlEventHandlingError::SendError)));
    broken.push(("CqlEventHandlingError(UnexpectedResponse)".into(), BrokenConnectionErrorKind::CqlEventHandlingError(CqlEventHandlingError::UnexpectedResponse(CqlResponseKind::Result))));
    broken.push((
        "CqlEventHandlingError(BodyExtensionParseError)".into(),
        BrokenConnectionErrorKind::CqlEventHandlingError(CqlEventHandlingError::BodyExtensionParseError(FrameBodyExtensionsParseError::NoCompressionNegotiated)),
    ));
    broken.push((
        "CqlEventHandlingError(CqlEventParseError)".into(),
        BrokenConnectionErrorKind::CqlEventHandlingError(CqlEventHandlingError::CqlEventParseError(CqlEventParseError::UnknownEventType("X".into()))),
    ));
    broken.push(("UnexpectedStreamId".into(), BrokenConnectionErrorKind::UnexpectedStreamId(77)));
    broken.push(("ChannelError".into(), BrokenConnectionErrorKind::ChannelError));
    for (n, k) in broken {
        v.push(Sym { name: format!("BrokenConnection:{n}"), class: ErrClass::BrokenConnection, err: RequestAttemptError::BrokenConnectionError(k.into()) });
    }
    // database errors: every further FIELD COMBINATION a policy could branch on (the base alphabet has one representative of
    // these shapes). Classes follow the variant, never the payload: only unavailable / bootstrapping / read timeout prove
    // non-application.
    {
        use scylla::errors::OperationType;
        let mut more: Vec<(String, ErrClass, DbError)> = Vec::new();
        for (on, op) in [("Read", OperationType::Read), ("Write", OperationType::Write), ("Other(7)", OperationType::Other(7))] {
            for rbc in [false, true] {
                if on == "Write" && rbc {
                    continue; // the base alphabet's representative
                }
                more.push((format!("RateLimitReached({on},rejected_by_coordinator={rbc})"), ErrClass::OtherDb, DbError::RateLimitReached { op_type: op.clone(), rejected_by_coordinator: rbc }));
            }
        }
        // consistency carried in the error BODY (the request's own consistency is what counts), required/alive extremes
        for (cn, c) in [("SERIAL", Consistency::Serial), ("LOCAL_SERIAL", Consistency::LocalSerial), ("EACH_QUORUM", Consistency::EachQuorum), ("ANY", Consistency::Any)] {
            more.push((format!("Unavailable(body_cl={cn},alive=1)"), ErrClass::Unavailable, DbError::Unavailable { consistency: c, required: 2, alive: 1 }));
            more.push((format!("ReadTimeout(body_cl={cn},received=2,required=2,data_present=false)"), ErrClass::ReadTimeout, DbError::ReadTimeout { consistency: c, received: 2, required: 2, data_present: false }));
            more.push((format!("WriteTimeout(body_cl={cn},BATCH_LOG,received=0)"), ErrClass::WriteTimeout, DbError::WriteTimeout { consistency: c, received: 0, required: 1, write_type: WriteType::BatchLog }));
            more.push((format!("WriteTimeout(body_cl={cn},CAS,received=0)"), ErrClass::WriteTimeout, DbError::WriteTimeout { consistency: c, received: 0, required: 1, write_type: WriteType::Cas }));
        }
        for (required, alive) in [(0, 0), (1, 5), (i32::MAX, i32::MAX), (3, -1), (i32::MIN, 0)] {
            more.push((format!("Unavailable(required={required},alive={alive})"), ErrClass::Unavailable, DbError::Unavailable { consistency: Consistency::Quorum, required, alive }));
        }
        for (received, required) in [(0, 0), (-1, 1), (i32::MAX, 1), (5, i32::MAX)] {
            for data_present in [false, true] {
                more.push((format!("ReadTimeout(received={received},required={required},data_present={data_present})"), ErrClass::ReadTimeout, DbError::ReadTimeout { consistency: Consistency::Quorum, received, required, data_present }));
            }
        }
        for (n, wt) in write_types() {
            for (received, required) in [(2, 1), (i32::MAX, 1), (-1, 1), (0, 0)] {
                more.push((format!("WriteTimeout({n},received={received},required={required})"), ErrClass::WriteTimeout, DbError::WriteTimeout { consistency: Consistency::Quorum, received, required, write_type: wt.clone() }));
            }
            for (received, numfailures) in [(0, 1), (2, 0)] {
                more.push((format!("WriteFailure({n},received={received},numfailures={numfailures})"), ErrClass::OtherDb, DbError::WriteFailure { consistency: Consistency::Quorum, received, required: 2, numfailures, write_type: wt.clone() }));
            }
        }
        for (received, required, numfailures) in [(0, 2, 2), (2, 2, 0), (3, 2, 1)] {
            for data_present in [false, true] {
                more.push((
                    format!("ReadFailure(received={received},required={required},numfailures={numfailures},data_present={data_present})"),
                    ErrClass::OtherDb,
                    DbError::ReadFailure { consistency: Consistency::Quorum, received, required, numfailures, data_present },
                ));
            }
        }
        more.push(("AlreadyExists(keyspace only)".into(), ErrClass::OtherDb, DbError::AlreadyExists { keyspace: "ks".into(), table: String::new() }));
        more.push(("FunctionFailure(no args)".into(), ErrClass::OtherDb, DbError::FunctionFailure { keyspace: String::new(), function: String::new(), arg_types: vec![] }));
        more.push(("Unprepared(empty id)".into(), ErrClass::OtherDb, DbError::Unprepared { statement_id: bytes::Bytes::new() }));
        // unknown codes, incl. ones that collide with the codes of retryable errors and the extremes
        for code in [0x1000, 0x1001, 0x1002, 0x1200, 0, -1, i32::MAX, i32::MIN] {
            more.push((format!("Other({code:#x})"), ErrClass::OtherDb, DbError::Other(code)));
        }
        for (n, c, e) in more {
            v.push(Sym { name: n, class: c, err: db(e) });
        }
    }
    // the other non-database families, one symbol per variant
    let mut client: Vec<(String, RequestAttemptError)> = Vec::new();
    let tfi = || u8::try_from(300i32).unwrap_err();
    use scylla_cql_core::frame::frame_errors as fe;
    client.push(("CqlRequestSerialization(StartupSerialization)".into(), RequestAttemptError::CqlRequestSerialization(fe::StartupSerializationError::OptionsSerialization(tfi()).into())));
    client.push(("CqlRequestSerialization(RegisterSerialization)".into(), RequestAttemptError::CqlRequestSerialization(fe::RegisterSerializationError::EventTypesSerialization(tfi()).into())));
    client.push(("CqlRequestSerialization(AuthResponseSerialization)".into(), RequestAttemptError::CqlRequestSerialization(fe::AuthResponseSerializationError::ResponseSerialization(tfi()).into())));
    client.push(("CqlRequestSerialization(SnapCompressError)".into(), RequestAttemptError::CqlRequestSerialization(CqlRequestSerializationError::SnapCompressError(Arc::new(E)))));
    client.push(("BodyExtensionsParseError(TraceIdParse)".into(), RequestAttemptError::BodyExtensionsParseError(FrameBodyExtensionsParseError::TraceIdParse(low()))));
    client.push(("BodyExtensionsParseError(WarningsListParse)".into(), RequestAttemptError::BodyExtensionsParseError(FrameBodyExtensionsParseError::WarningsListParse(low()))));
    client.push(("BodyExtensionsParseError(CustomPayloadMapParse)".into(), RequestAttemptError::BodyExtensionsParseError(FrameBodyExtensionsParseError::CustomPayloadMapParse(low()))));
    client.push(("BodyExtensionsParseError(SnapDecompressError)".into(), RequestAttemptError::BodyExtensionsParseError(FrameBodyExtensionsParseError::SnapDecompressError(Arc::new(E)))));
    client.push(("BodyExtensionsParseError(Lz4DecompressError)".into(), RequestAttemptError::BodyExtensionsParseError(FrameBodyExtensionsParseError::Lz4DecompressError(Arc::new(E)))));
    client.push(("CqlResultParseError(ResultIdParseError)".into(), RequestAttemptError::CqlResultParseError(CqlResultParseError::ResultIdParseError(low()))));
    client.push(("CqlResultParseError(SetKeyspaceParseError)".into(), RequestAttemptError::CqlResultParseError(CqlResultParseError::SetKeyspaceParseError(fe::SetKeyspaceParseError::MalformedKeyspaceName(low())))));
    client.push(("CqlErrorParseError(ReasonParseError)".into(), RequestAttemptError::CqlErrorParseError(CqlErrorParseError::ReasonParseError(low()))));
    client.push(("CqlErrorParseError(MalformedErrorField)".into(), RequestAttemptError::CqlErrorParseError(CqlErrorParseError::MalformedErrorField { db_error: "UNAVAILABLE", field: "alive", err: low() })));
    for k in [CqlResponseKind::Error, CqlResponseKind::Authenticate, CqlResponseKind::Supported, CqlResponseKind::Result, CqlResponseKind::Event, CqlResponseKind::AuthChallenge, CqlResponseKind::AuthSuccess] {
        client.push((format!("UnexpectedResponse({k:?})"), RequestAttemptError::UnexpectedResponse(k)));
    }
    for (n, e) in client {
        v.push(Sym { name: n, class: ErrClass::ClientSide, err: e });
    }
    v
}

/// Every `ConnectionPoolError` variant (with several last-connection errors): what a plan target without a
/// connection may answer. Policies never see these; the loop must skip the target whatever the variant.
pub fn pool_errors() -> Vec<scylla::errors::ConnectionPoolError> {
    use scylla::errors::*;
    vec![
        ConnectionPoolError::Initializing,
        ConnectionPoolError::NodeDisabledByHostFilter,
        ConnectionPoolError::Broken { last_connection_error: ConnectionError::ConnectTimeout },
        ConnectionPoolError::Broken { last_connection_error: ConnectionError::IoError(std::sync::Arc::new(std::io::Error::new(std::io::ErrorKind::ConnectionRefused, "verif"))) },
        ConnectionPoolError::Broken { last_connection_error: ConnectionError::NoSourcePortForShard(3) },
        ConnectionPoolError::Broken { last_connection_error: ConnectionError::BrokenConnection(BrokenConnectionErrorKind::WriteError(std::io::Error::new(std::io::ErrorKind::BrokenPipe, "verif")).into()) },
    ]
}
