//! Small-topology enumerator + driver-side builders shared by C04 and C05.
//!
//! A *topology* is a cyclic sequence of token slots, each owned by one of n nodes (every node
//! owns >= 1 slot, so vnodes arise), plus a (datacenter, rack) placement of the nodes with
//! DC-less and rack-less nodes included. All of it is enumerated up to relabelling symmetry:
//! nodes are labelled by first appearance in the slot sequence, datacenters by first appearance
//! in node order, racks by first appearance inside their datacenter (restricted-growth strings).
//! Sound because the code under test compares node ids / names only for equality and hashing.
//! The slot sequence is NOT quotiented by rotation: the position of the wrap-around point
//! relative to the sorted token array is observable to a binary search.

use cqlref::placement::{RNode, Ring, Strat};
use scylla::cluster::ClusterState;
use scylla::cluster::metadata::Strategy;
use scylla::verif::cluster::{KeyspaceSpec, PeerSpec};
use serde_json::{Value, json};
use std::collections::{BTreeMap, HashMap};
use std::net::{Ipv4Addr, SocketAddr};
use std::sync::Mutex;
use uuid::Uuid;

// ------------------------------------------------------------------------------------------------
// abstract topologies

#[derive(Clone, Copy, Debug, PartialEq, Eq)]
pub enum Layout {
    /// slot i -> (i - T/2) * 100
    Spread,
    /// like Spread but the lowest slot is i64::MIN+1 and the highest i64::MAX
    Extremes,
    /// like Spread but slot k+1 carries the same token as slot k (two owners of one token)
    Dup(u8),
}

#[derive(Clone, Debug)]
pub struct Topo {
    /// owner of each token slot, canonical first-occurrence labelling
    pub slot_node: Vec<u8>,
    /// datacenter of each node (None = unknown datacenter)
    pub dc: Vec<Option<u8>>,
    /// rack of each node inside its datacenter (None = unknown rack)
    pub rack: Vec<Option<u8>>,
    pub layout: Layout,
}

/// Name spellings. The second spelling exists to shake hash-map iteration orders inside the driver.
pub struct Names {
    pub dcs: [&'static str; 3],
    pub absent_dc: &'static str,
    pub racks: [&'static str; 3],
}
pub const SPELLINGS: [Names; 2] = [
    Names { dcs: ["dc0", "dc1", "dc2"], absent_dc: "dcX", racks: ["r0", "r1", "r2"] },
    Names { dcs: ["us-east-1", "eu", "Asia_Pacific"], absent_dc: "nowhere", racks: ["rack-b", "a", "RACK3"] },
];

impl Topo {
    pub fn n(&self) -> usize {
        self.dc.len()
    }
    pub fn slots(&self) -> usize {
        self.slot_node.len()
    }
    pub fn slot_tokens(&self) -> Vec<i64> {
        let t = self.slot_node.len() as i64;
        let mut v: Vec<i64> = (0..t).map(|i| (i - t / 2) * 100).collect();
        match self.layout {
            Layout::Spread => {}
            Layout::Extremes => {
                v[0] = i64::MIN + 1;
                *v.last_mut().unwrap() = i64::MAX;
            }
            Layout::Dup(k) => v[k as usize + 1] = v[k as usize],
        }
        v
    }
    pub fn concrete(&self, names: &Names) -> Concrete {
        let toks = self.slot_tokens();
        let mut nodes: Vec<CNode> = (0..self.n())
            .map(|i| CNode {
                dc: self.dc[i].map(|d| names.dcs[d as usize].to_string()),
                rack: self.rack[i].map(|r| names.racks[r as usize].to_string()),
                tokens: vec![],
            })
            .collect();
        for (slot, owner) in self.slot_node.iter().enumerate() {
            nodes[*owner as usize].tokens.push(toks[slot]);
        }
        Concrete { nodes }
    }
    pub fn dc_count(&self) -> usize {
        self.dc.iter().flatten().map(|d| *d as usize + 1).max().unwrap_or(0)
    }
}

/// Restricted-growth strings of length `len` with at most `max_labels` labels; when `optional`
/// each position may also be None. Canonical form of "assign labels up to renaming".
fn rgs(len: usize, max_labels: usize, optional: bool) -> Vec<Vec<Option<u8>>> {
    fn rec(len: usize, max_labels: usize, optional: bool, cur: &mut Vec<Option<u8>>, used: u8, out: &mut Vec<Vec<Option<u8>>>) {
        if cur.len() == len {
            out.push(cur.clone());
            return;
        }
        for l in 0..=used.min(max_labels as u8 - 1) {
            cur.push(Some(l));
            rec(len, max_labels, optional, cur, used.max(l + 1), out);
            cur.pop();
        }
        if optional {
            cur.push(None);
            rec(len, max_labels, optional, cur, used, out);
            cur.pop();
        }
    }
    let mut out = Vec::new();
    if max_labels == 0 {
        if optional || len == 0 {
            out.push(vec![None; len]);
        }
        return out;
    }
    rec(len, max_labels, optional, &mut Vec::new(), 0, &mut out);
    out
}

/// All (dc, rack) placements of n nodes, canonical. `dcless` / `rackless` switch the optional labels on.
pub fn placements(n: usize, max_dcs: usize, max_racks: usize, dcless: bool, rackless: bool) -> Vec<(Vec<Option<u8>>, Vec<Option<u8>>)> {
    let mut out = Vec::new();
    for dcs in rgs(n, max_dcs, dcless) {
        // racks: independent canonical labelling inside every datacenter; DC-less nodes carry no rack
        let ndc = dcs.iter().flatten().map(|d| *d as usize + 1).max().unwrap_or(0);
        let members: Vec<Vec<usize>> = (0..ndc).map(|d| (0..n).filter(|i| dcs[*i] == Some(d as u8)).collect()).collect();
        let per_dc: Vec<Vec<Vec<Option<u8>>>> = members.iter().map(|m| rgs(m.len(), max_racks, rackless)).collect();
        let mut idx = vec![0usize; ndc];
        loop {
            let mut racks: Vec<Option<u8>> = vec![None; n];
            for d in 0..ndc {
                for (k, node) in members[d].iter().enumerate() {
                    racks[*node] = per_dc[d][idx[d]][k];
                }
            }
            out.push((dcs.clone(), racks));
            // odometer
            let mut d = 0;
            loop {
                if d == ndc {
                    break;
                }
                idx[d] += 1;
                if idx[d] < per_dc[d].len() {
                    break;
                }
                idx[d] = 0;
                d += 1;
            }
            if d == ndc {
                break;
            }
        }
    }
    out
}

/// Slot sequences of length `t` over exactly `n` nodes in canonical labelling (surjective RGS).
pub fn slot_sequences(t: usize, n: usize) -> Vec<Vec<u8>> {
    rgs(t, n, false).into_iter().map(|v| v.into_iter().map(|x| x.unwrap()).collect::<Vec<u8>>()).filter(|v| v.iter().map(|x| *x as usize + 1).max().unwrap_or(0) == n).collect()
}

pub struct EnumBounds {
    pub max_slots: usize,
    pub max_nodes: usize,
    pub max_dcs: usize,
    pub max_racks: usize,
    /// Extremes layout for rings with at most this many slots (0 = never)
    pub extremes_upto_slots: usize,
    /// duplicate-token layouts for rings with at most this many slots (0 = never)
    pub dup_upto_slots: usize,
    /// further cap on the number of nodes as a function of the number of slots
    pub node_cap: fn(usize) -> usize,
}

/// Simplest first: by slots, then nodes, then slot sequence, then placement, then layout.
pub fn enumerate(b: &EnumBounds) -> Vec<Topo> {
    let mut out = Vec::new();
    let mut placement_cache: BTreeMap<usize, Vec<(Vec<Option<u8>>, Vec<Option<u8>>)>> = BTreeMap::new();
    for t in 1..=b.max_slots {
        for n in 1..=t.min(b.max_nodes).min((b.node_cap)(t)) {
            let pl = placement_cache.entry(n).or_insert_with(|| placements(n, b.max_dcs, b.max_racks, true, true)).clone();
            for seq in slot_sequences(t, n) {
                for (dc, rack) in &pl {
                    let mut layouts = vec![Layout::Spread];
                    if t <= b.extremes_upto_slots {
                        layouts.push(Layout::Extremes);
                    }
                    if t <= b.dup_upto_slots {
                        for k in 0..t.saturating_sub(1) {
                            if seq[k] != seq[k + 1] {
                                layouts.push(Layout::Dup(k as u8));
                            }
                        }
                    }
                    for layout in layouts {
                        out.push(Topo { slot_node: seq.clone(), dc: dc.clone(), rack: rack.clone(), layout });
                    }
                }
            }
        }
    }
    out
}

// ------------------------------------------------------------------------------------------------
// concrete clusters (what replay artefacts hold)

#[derive(Clone, Debug, PartialEq, Eq)]
pub struct CNode {
    pub dc: Option<String>,
    pub rack: Option<String>,
    pub tokens: Vec<i64>,
}

#[derive(Clone, Debug, PartialEq, Eq)]
pub struct Concrete {
    pub nodes: Vec<CNode>,
}

pub fn node_uuid(idx: usize) -> Uuid {
    Uuid::from_u128(0x5eed_0000_0000_0000_0000_0000_0000_1000u128 + idx as u128)
}
pub fn node_index(id: Uuid) -> usize {
    (id.as_u128() - 0x5eed_0000_0000_0000_0000_0000_0000_1000u128) as usize
}

impl Concrete {
    pub fn peers(&self) -> Vec<PeerSpec> {
        self.nodes
            .iter()
            .enumerate()
            .map(|(i, n)| PeerSpec {
                host_id: node_uuid(i),
                address: SocketAddr::from((Ipv4Addr::new(10, 9, (i / 250) as u8, (i % 250) as u8 + 1), 9042)),
                datacenter: n.dc.clone(),
                rack: n.rack.clone(),
                tokens: n.tokens.clone(),
            })
            .collect()
    }
    /// The reference ring. Entry order for equal tokens follows peer order, like the driver's
    /// stable sort of the peers' tokens - irrelevant to every oracle (such rings are excluded).
    pub fn ring(&self) -> Ring {
        let nodes = self.nodes.iter().map(|n| RNode { dc: n.dc.clone(), rack: n.rack.clone() }).collect();
        let mut entries = Vec::new();
        for (i, n) in self.nodes.iter().enumerate() {
            for t in &n.tokens {
                entries.push((*t, i));
            }
        }
        Ring::new(nodes, entries)
    }
    pub fn to_json(&self) -> Value {
        Value::Array(self.nodes.iter().map(|n| json!({"dc": n.dc, "rack": n.rack, "tokens": n.tokens})).collect())
    }
    pub fn from_json(v: &Value) -> Option<Concrete> {
        let arr = v.as_array()?;
        let mut nodes = Vec::new();
        for n in arr {
            nodes.push(CNode {
                dc: n["dc"].as_str().map(|s| s.to_string()),
                rack: n["rack"].as_str().map(|s| s.to_string()),
                tokens: n["tokens"].as_array()?.iter().filter_map(|t| t.as_i64()).collect(),
            });
        }
        Some(Concrete { nodes })
    }
    /// (datacenter name, number of token-owning nodes) in ring order.
    pub fn dc_sizes(&self) -> Vec<(String, usize)> {
        let ring = self.ring();
        ring.datacenters().into_iter().map(|dc| (dc.clone(), ring.token_owners().into_iter().filter(|n| ring.nodes[*n].dc.as_deref() == Some(dc.as_str())).count())).collect()
    }
}

// ------------------------------------------------------------------------------------------------
// strategies

pub fn strat_to_json(s: &Strat) -> Value {
    match s {
        Strat::Simple(rf) => json!({"simple": rf}),
        Strat::Nts(e) => {
            let m: serde_json::Map<String, Value> = e.iter().map(|(k, v)| (k.clone(), json!(v))).collect();
            json!({"nts": m})
        }
        Strat::Local => json!("local"),
        Strat::Other => json!("other"),
    }
}
pub fn strat_from_json(v: &Value) -> Option<Strat> {
    if let Some(s) = v.as_str() {
        return match s {
            "local" => Some(Strat::Local),
            "other" => Some(Strat::Other),
            _ => None,
        };
    }
    if let Some(rf) = v.get("simple") {
        return Some(Strat::Simple(rf.as_u64()? as usize));
    }
    let m = v.get("nts")?.as_object()?;
    Some(Strat::Nts(m.iter().map(|(k, v)| (k.clone(), v.as_u64().unwrap_or(0) as usize)).collect()))
}
pub fn strat_kind(s: &Strat) -> &'static str {
    match s {
        Strat::Simple(_) => "simple",
        Strat::Nts(_) => "nts",
        Strat::Local => "local",
        Strat::Other => "other",
    }
}
pub fn to_driver_strategy(s: &Strat) -> Strategy {
    match s {
        Strat::Simple(rf) => Strategy::SimpleStrategy { replication_factor: *rf },
        Strat::Nts(e) => Strategy::NetworkTopologyStrategy { datacenter_repfactors: e.iter().cloned().collect() },
        Strat::Local => Strategy::LocalStrategy,
        Strat::Other => Strategy::Other { name: "org.example.FancyStrategy".into(), data: [("replication_factor".to_string(), "3".to_string())].into_iter().collect() },
    }
}

/// Which strategies are enumerated for a cluster (part of every replay artefact).
#[derive(Clone, Debug, PartialEq, Eq)]
pub struct Family {
    /// RF goes up to (nodes + rf_extra) for Simple and (dc size + rf_extra) per NTS datacenter
    pub rf_extra: usize,
    /// RF choices for the datacenter that is absent from the ring (besides "not in the map")
    pub absent_rfs: Vec<usize>,
}
impl Family {
    pub fn to_json(&self) -> Value {
        json!({"rf_extra": self.rf_extra, "absent_rfs": self.absent_rfs})
    }
    pub fn from_json(v: &Value) -> Family {
        Family { rf_extra: v["rf_extra"].as_u64().unwrap_or(2) as usize, absent_rfs: v["absent_rfs"].as_array().map(|a| a.iter().filter_map(|x| x.as_u64()).map(|x| x as usize).collect()).unwrap_or_else(|| vec![0, 1, 2]) }
    }
}

/// Every strategy of the C04 design for one cluster: Local; Other; Simple RF 0..=n+extra; NTS with
/// every assignment of RF 0..=(dc size + extra) to every subset of the ring DCs, combined with
/// every listed RF (or no entry) for one DC absent from the ring. Simplest first.
pub fn strategies(c: &Concrete, absent_dc: &str, fam: &Family) -> Vec<Strat> {
    let ring = c.ring();
    let n = ring.token_owners().len();
    let mut out = vec![Strat::Local, Strat::Other];
    for rf in 0..=n + fam.rf_extra {
        out.push(Strat::Simple(rf));
    }
    let mut dcs = c.dc_sizes();
    dcs.push((absent_dc.to_string(), 0));
    // odometer over per-DC choices: None (not in the map) or Some(rf)
    let last = dcs.len() - 1;
    let choices: Vec<Vec<Option<usize>>> = dcs
        .iter()
        .enumerate()
        .map(|(d, (_, size))| if d == last { std::iter::once(None).chain(fam.absent_rfs.iter().map(|r| Some(*r))).collect() } else { std::iter::once(None).chain((0..=size + fam.rf_extra).map(Some)).collect() })
        .collect();
    let mut idx = vec![0usize; dcs.len()];
    loop {
        let entries: Vec<(String, usize)> = (0..dcs.len()).filter_map(|d| choices[d][idx[d]].map(|rf| (dcs[d].0.clone(), rf))).collect();
        out.push(Strat::Nts(entries));
        let mut d = 0;
        while d < dcs.len() {
            idx[d] += 1;
            if idx[d] < choices[d].len() {
                break;
            }
            idx[d] = 0;
            d += 1;
        }
        if d == dcs.len() {
            break;
        }
    }
    out
}

// ------------------------------------------------------------------------------------------------
// building the real thing

thread_local! {
    static RT: tokio::runtime::Runtime = tokio::runtime::Builder::new_current_thread().enable_time().max_blocking_threads(1).build().expect("tokio runtime");
}

/// Run `f` inside this thread's runtime context (for constructors that `tokio::spawn`).
pub fn in_runtime_context<R>(f: impl FnOnce() -> R) -> R {
    RT.with(|rt| {
        let _g = rt.enter();
        f()
    })
}

/// The production `ClusterState::new` (hook H-CLUSTER) on this thread's private runtime.
pub fn build_cluster(c: &Concrete, keyspaces: &[KeyspaceSpec]) -> ClusterState {
    let peers = c.peers();
    RT.with(|rt| rt.block_on(scylla::verif::cluster::cluster_state(&peers, keyspaces)))
}

pub fn keyspace(name: &str, s: &Strat, tablet_based: bool) -> KeyspaceSpec {
    KeyspaceSpec { name: name.to_string(), strategy: to_driver_strategy(s), tablet_based }
}

// ------------------------------------------------------------------------------------------------
// an RNG the harness owns: `random_range(0..len)` returns the scripted index

/// Returns, for each draw, the next scripted 32-bit word (cycling). `word_for(i, len)` is the word
/// that makes rand's widening-multiply range sampling return index i of 0..len (checked by
/// `scripted_rng_self_test`).
pub struct ScriptedRng {
    pub words: Vec<u32>,
    pub pos: usize,
    pub draws: usize,
}
impl ScriptedRng {
    pub fn new(words: Vec<u32>) -> Self {
        ScriptedRng { words, pos: 0, draws: 0 }
    }
    pub fn word_for(i: usize, len: usize) -> u32 {
        (((i as u64) << 32) / len as u64 + (1u64 << 31) / len as u64) as u32
    }
    fn next_word(&mut self) -> u32 {
        let w = self.words[self.pos % self.words.len()];
        self.pos += 1;
        self.draws += 1;
        w
    }
}
impl rand::RngCore for ScriptedRng {
    fn next_u32(&mut self) -> u32 {
        self.next_word()
    }
    fn next_u64(&mut self) -> u64 {
        let w = self.next_word() as u64;
        (w << 32) | w
    }
    fn fill_bytes(&mut self, dst: &mut [u8]) {
        for chunk in dst.chunks_mut(4) {
            let w = self.next_word().to_le_bytes();
            chunk.copy_from_slice(&w[..chunk.len()]);
        }
    }
}

/// Machinery self-test: with the word for index i, `random_range(0..len)` is i, for every len <= 24.
pub fn scripted_rng_self_test() -> Result<(), String> {
    use rand::Rng;
    for len in 1..=24usize {
        for i in 0..len {
            let mut r = ScriptedRng::new(vec![ScriptedRng::word_for(i, len)]);
            let got = r.random_range(0..len);
            if got != i {
                return Err(format!("scripted rng: wanted index {i} of {len}, rand returned {got}"));
            }
        }
    }
    Ok(())
}

// ------------------------------------------------------------------------------------------------
// smallest-case-per-key violation sink (work is parallel; Report keeps the first *arrival*)

#[derive(Default)]
pub struct MinViolations {
    inner: Mutex<HashMap<String, (u64, String, Value)>>,
}
impl MinViolations {
    pub fn report(&self, key: &str, rank: u64, what: impl FnOnce() -> (String, Value)) {
        let mut g = self.inner.lock().unwrap();
        match g.get(key) {
            Some((r, _, _)) if *r <= rank => {}
            _ => {
                let (w, c) = what();
                g.insert(key.to_string(), (rank, w, c));
            }
        }
    }
    pub fn is_empty(&self) -> bool {
        self.inner.lock().unwrap().is_empty()
    }
    pub fn flush(&self, r: &vcore::Report) {
        let g = self.inner.lock().unwrap();
        let mut v: Vec<(&String, &(u64, String, Value))> = g.iter().collect();
        v.sort_by_key(|(k, x)| (x.0, (*k).clone()));
        for (k, (_, what, case)) in v {
            r.violation(k, what, case.clone());
        }
    }
}

// ------------------------------------------------------------------------------------------------
// never trust a number the code under test reports

/// Drain an iterator of the code under test without consulting its `size_hint` (no pre-allocation)
/// and without following it for ever: stops after `cap` items and says so (`true` = truncated).
pub fn drain_capped<T>(it: impl Iterator<Item = T>, cap: usize) -> (Vec<T>, bool) {
    let mut out = Vec::new();
    for x in it {
        if out.len() >= cap {
            return (out, true);
        }
        out.push(x);
    }
    (out, false)
}

/// The cap used for anything that should be bounded by the number of nodes of a cluster.
pub fn node_cap(nodes: usize) -> usize {
    4 * nodes + 16
}
