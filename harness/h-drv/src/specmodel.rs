//! C13: reference model of the speculative-execution contract, written from the property statement
//! (shares nothing with the driver). Events: a timer tick, the completion of a started execution.
//!
//! * at most 1 + max executions are started; the first is not speculative, all others are;
//! * a new execution is started on a timer tick, one per tick, while one "may still be started"
//!   (fewer than max speculative ones started so far and no execution has reported an exhausted plan);
//! * the call returns the first result that is a success or a definitive error, with that result;
//! * otherwise it returns the LAST ignorable error (or "empty plan" if there never was one) exactly when
//!   every started execution has finished and none may still be started; never earlier.

use std::collections::BTreeSet;

#[derive(Clone, Copy, PartialEq, Eq, Debug, Hash, PartialOrd, Ord)]
pub enum Outcome {
    Success,
    Definitive,
    Ignorable,
    /// the execution found the plan exhausted (returns nothing)
    Exhausted,
}

impl Outcome {
    pub const ALL: [Outcome; 4] = [Outcome::Success, Outcome::Definitive, Outcome::Ignorable, Outcome::Exhausted];
    pub fn name(self) -> &'static str {
        match self {
            Outcome::Success => "success",
            Outcome::Definitive => "definitive-error",
            Outcome::Ignorable => "ignorable-error",
            Outcome::Exhausted => "plan-exhausted",
        }
    }
}

/// What the call must return, identified by the execution that produced it.
#[derive(Clone, Copy, PartialEq, Eq, Debug, Hash, PartialOrd, Ord)]
pub enum Expected {
    Success(usize),
    DefinitiveError(usize),
    IgnorableError(usize),
    EmptyPlan,
}

#[derive(Clone, Debug, PartialEq, Eq)]
pub struct SpecModel {
    pub max: usize,
    /// executions started so far (ids 0..started)
    pub started: usize,
    pub running: BTreeSet<usize>,
    pub exhausted_seen: bool,
    pub last_ignorable: Option<usize>,
    pub done: Option<Expected>,
}

impl SpecModel {
    pub fn new(max: usize) -> SpecModel {
        SpecModel { max, started: 1, running: [0usize].into_iter().collect(), exhausted_seen: false, last_ignorable: None, done: None }
    }
    pub fn may_start(&self) -> bool {
        self.done.is_none() && !self.exhausted_seen && self.started - 1 < self.max
    }
    /// A timer tick: returns how many executions must be started by it (0 or 1).
    pub fn tick(&mut self) -> usize {
        if self.may_start() {
            self.running.insert(self.started);
            self.started += 1;
            1
        } else {
            0
        }
    }
    pub fn complete(&mut self, i: usize, o: Outcome) {
        if self.done.is_some() {
            return;
        }
        assert!(self.running.remove(&i), "model: completing an execution that is not running");
        match o {
            Outcome::Success => self.done = Some(Expected::Success(i)),
            Outcome::Definitive => self.done = Some(Expected::DefinitiveError(i)),
            Outcome::Ignorable => self.last_ignorable = Some(i),
            Outcome::Exhausted => self.exhausted_seen = true,
        }
        if self.done.is_none() && self.running.is_empty() && !self.may_start() {
            self.done = Some(match self.last_ignorable {
                Some(j) => Expected::IgnorableError(j),
                None => Expected::EmptyPlan,
            });
        }
    }
}

pub fn self_test() -> Result<(), String> {
    let mut m = SpecModel::new(1);
    m.complete(0, Outcome::Ignorable);
    if m.done.is_some() {
        return Err("model returns while an execution may still be started".into());
    }
    if m.tick() != 1 || m.tick() != 0 {
        return Err("model tick".into());
    }
    m.complete(1, Outcome::Ignorable);
    if m.done != Some(Expected::IgnorableError(1)) {
        return Err("model must return the last ignorable error".into());
    }
    let mut m = SpecModel::new(3);
    m.tick();
    m.complete(1, Outcome::Exhausted);
    if m.done.is_some() || m.tick() != 0 {
        return Err("model: exhausted plan forbids further starts, but execution 0 still runs".into());
    }
    m.complete(0, Outcome::Exhausted);
    if m.done != Some(Expected::EmptyPlan) {
        return Err("model: empty plan".into());
    }
    let mut m = SpecModel::new(0);
    m.complete(0, Outcome::Definitive);
    if m.done != Some(Expected::DefinitiveError(0)) {
        return Err("model: definitive".into());
    }
    Ok(())
}
