//! E-BFS variant for objects whose reconstruction is expensive (C02 leg A with the id space
//! pre-filled: every rebuild costs 32768 real `allocate` calls). Identical to `vcore::bfs::bfs`
//! in what it explores, in its layer-by-layer order, deduplication and result; the only
//! difference is that the object rebuilt to ask for the enabled events is then *used* for the
//! first of them instead of being thrown away, which saves one rebuild per state.

use std::collections::HashSet;
use std::time::Instant;
use vcore::bfs::{BfsOpts, BfsResult, BfsViolation, Model};

fn rebuild<M: Model>(m: &M, hist: &[M::Event]) -> Result<M::Obj, String> {
    let mut o = m.init();
    for e in hist {
        m.apply(&mut o, e)?;
    }
    Ok(o)
}

pub fn bfs<M: Model>(m: &M, opts: &BfsOpts) -> BfsResult<M::Event> {
    let start = Instant::now();
    let mut seen: HashSet<Vec<u8>> = HashSet::new();
    let mut res = BfsResult { states: 0, transitions: 0, max_depth: 0, fixpoint: false, capped: None, violations: Vec::new(), sample_histories: Vec::new(), states_per_depth: Vec::new() };
    let o0 = m.init();
    if let Err(w) = m.check(&o0) {
        res.violations.push(BfsViolation { history: vec![], what: w });
        return res;
    }
    seen.insert(m.canon(&o0));
    drop(o0);
    res.states = 1;
    res.states_per_depth.push(1);
    let mut frontier: Vec<Vec<M::Event>> = vec![vec![]];
    let mut depth = 0usize;
    while !frontier.is_empty() {
        if depth >= opts.max_depth {
            res.capped = Some(format!("depth cap {} reached with {} frontier states", opts.max_depth, frontier.len()));
            break;
        }
        if start.elapsed() > opts.wall {
            res.capped = Some(format!("wall cap hit at depth {depth}"));
            break;
        }
        type Cand<E> = (Vec<u8>, Vec<E>);
        type Expansion<E> = (u64, Vec<Cand<E>>, Vec<BfsViolation<E>>);
        let expansions: Vec<Expansion<M::Event>> = vcore::par::map(opts.jobs, std::mem::take(&mut frontier), |hist| {
            let mut trans = 0u64;
            let mut cands = Vec::new();
            let mut viols = Vec::new();
            let mut base = match rebuild(m, hist) {
                Ok(o) => Some(o),
                Err(w) => {
                    viols.push(BfsViolation { history: hist.clone(), what: format!("REPLAY-DIVERGENCE: {w}") });
                    return (0, cands, viols);
                }
            };
            let evs = m.enabled(base.as_ref().unwrap());
            for ev in evs {
                // the first event consumes the object that was rebuilt for `enabled`; the others get their own
                let mut o = match base.take() {
                    Some(o) => o,
                    None => match rebuild(m, hist) {
                        Ok(o) => o,
                        Err(w) => {
                            viols.push(BfsViolation { history: hist.clone(), what: format!("REPLAY-DIVERGENCE: {w}") });
                            continue;
                        }
                    },
                };
                trans += 1;
                let mut h2 = hist.clone();
                h2.push(ev.clone());
                match m.apply(&mut o, &ev).and_then(|_| m.check(&o)) {
                    Ok(()) => cands.push((m.canon(&o), h2)),
                    Err(w) => viols.push(BfsViolation { history: h2, what: w }),
                }
            }
            (trans, cands, viols)
        });
        depth += 1;
        let mut next = Vec::new();
        for (t, cands, viols) in expansions {
            res.transitions += t;
            for v in viols {
                if res.violations.len() < opts.max_violations {
                    res.violations.push(v);
                }
            }
            for (c, h) in cands {
                if seen.insert(c) {
                    next.push(h);
                }
            }
        }
        if !next.is_empty() {
            res.max_depth = depth;
            res.states += next.len() as u64;
            res.states_per_depth.push(next.len() as u64);
            res.sample_histories = next.iter().rev().take(3).cloned().collect();
        }
        if !res.violations.is_empty() {
            break;
        }
        if res.states > opts.max_states {
            res.capped = Some(format!("state cap {} hit at depth {depth}", opts.max_states));
            break;
        }
        frontier = next;
    }
    if frontier.is_empty() && res.capped.is_none() && res.violations.is_empty() {
        res.fixpoint = true;
    }
    res
}
