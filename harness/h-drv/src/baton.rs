//! E-THREAD: baton scheduler for a few OS threads that stop at labelled points.
//!
//! Exactly one party holds the baton: the controller or one worker thread. A worker runs from one
//! `pause(label)` to the next (a *segment*) and then hands the baton back; the controller decides who
//! runs next, so every interleaving of segments can be enumerated (by `vcore::dfs`) and replayed.
//! The code under test reaches `pause` through `scylla::verif::merge::point(label)` (a thread-local
//! explorer installed by `spawn`), the harness's own program steps call `pause` directly.
//!
//! Sound for sequentially consistent behaviours only (one thread runs at a time; every hand-over is a
//! mutex/condvar synchronisation).
use std::any::Any;
use std::panic::{AssertUnwindSafe, catch_unwind, resume_unwind};
use std::sync::{Arc, Condvar, Mutex};
use std::time::{Duration, Instant};

#[derive(Clone, Debug, PartialEq, Eq)]
pub enum Stop {
    NotStarted,
    /// blocked in `pause(label)`
    Point(&'static str),
    Finished,
    Panicked(String),
}

struct St {
    /// Some(tid): that worker holds the baton; None: the controller does
    turn: Option<usize>,
    stops: Vec<Stop>,
    abort: bool,
}

pub struct Baton {
    st: Mutex<St>,
    cv: Condvar,
    /// generous liveness deadline for one segment (correct code needs microseconds)
    pub segment_deadline: Duration,
}

/// Panic payload used to unwind a worker that is still blocked when the execution is over.
struct Aborted;

impl Baton {
    pub fn new(threads: usize) -> Arc<Baton> {
        Self::with_deadline(threads, Duration::from_secs(60))
    }

    pub fn with_deadline(threads: usize, segment_deadline: Duration) -> Arc<Baton> {
        Arc::new(Baton {
            st: Mutex::new(St { turn: None, stops: vec![Stop::NotStarted; threads], abort: false }),
            cv: Condvar::new(),
            segment_deadline,
        })
    }

    /// Worker side: stop here until the controller resumes this thread.
    pub fn pause(&self, tid: usize, label: &'static str) {
        if std::thread::panicking() {
            // reached from a destructor while this worker unwinds (abort or a panic in the code under
            // test): never block or panic again here
            return;
        }
        let mut g = self.st.lock().unwrap();
        g.stops[tid] = Stop::Point(label);
        if g.turn == Some(tid) {
            g.turn = None;
        }
        self.cv.notify_all();
        loop {
            if g.abort {
                drop(g);
                resume_unwind(Box::new(Aborted));
            }
            if g.turn == Some(tid) {
                return;
            }
            g = self.cv.wait(g).unwrap();
        }
    }

    fn finish(&self, tid: usize, stop: Stop) {
        let mut g = self.st.lock().unwrap();
        g.stops[tid] = stop;
        if g.turn == Some(tid) {
            g.turn = None;
        }
        self.cv.notify_all();
    }

    /// Controller side: wait until every worker has reached its first stop.
    pub fn wait_all_started(&self) -> Result<(), String> {
        let start = Instant::now();
        let mut g = self.st.lock().unwrap();
        while g.stops.iter().any(|s| *s == Stop::NotStarted) {
            let (g2, to) = self.cv.wait_timeout(g, Duration::from_millis(200)).unwrap();
            g = g2;
            if to.timed_out() && start.elapsed() > self.segment_deadline {
                return Err("a worker thread never reached its first point".into());
            }
        }
        Ok(())
    }

    /// Controller side: let `tid` run one segment; returns where it stopped.
    pub fn resume(&self, tid: usize) -> Result<Stop, String> {
        let start = Instant::now();
        let mut g = self.st.lock().unwrap();
        assert!(g.turn.is_none(), "controller resumed a worker without holding the baton");
        match g.stops[tid] {
            Stop::Point(_) => {}
            ref other => return Err(format!("resume({tid}) but the thread is {other:?}")),
        }
        g.turn = Some(tid);
        self.cv.notify_all();
        while g.turn.is_some() {
            let (g2, to) = self.cv.wait_timeout(g, Duration::from_millis(500)).unwrap();
            g = g2;
            if to.timed_out() && start.elapsed() > self.segment_deadline {
                return Err(format!("thread {tid} did not reach its next point within {:?} (blocked inside the code under test)", self.segment_deadline));
            }
        }
        Ok(g.stops[tid].clone())
    }

    pub fn stop_of(&self, tid: usize) -> Stop {
        self.st.lock().unwrap().stops[tid].clone()
    }

    /// Controller side: the execution is over; unwind every worker that is still blocked at a point.
    pub fn abort(&self) {
        let mut g = self.st.lock().unwrap();
        g.abort = true;
        self.cv.notify_all();
    }
}

/// Run `body` as worker `tid` of `baton` on a scoped OS thread: stops at "start" first, installs the
/// explorer so that `scylla::verif::merge::point` pauses this thread, and records how it ended.
pub fn spawn<'scope, 'env, F>(scope: &'scope std::thread::Scope<'scope, 'env>, baton: &Arc<Baton>, tid: usize, body: F)
where
    F: FnOnce() + Send + 'scope,
{
    let b = baton.clone();
    scope.spawn(move || {
        let b2 = b.clone();
        let hook: scylla::verif::merge::Explorer = Arc::new(move |label| b2.pause(tid, label));
        scylla::verif::merge::install_explorer(Some(hook));
        let r = catch_unwind(AssertUnwindSafe(|| {
            b.pause(tid, "start");
            body();
        }));
        scylla::verif::merge::install_explorer(None);
        let stop = match r {
            Ok(()) => Stop::Finished,
            Err(p) => {
                if p.is::<Aborted>() {
                    Stop::Finished
                } else {
                    Stop::Panicked(payload_text(&p))
                }
            }
        };
        b.finish(tid, stop);
    });
}

fn payload_text(p: &Box<dyn Any + Send>) -> String {
    if let Some(s) = p.downcast_ref::<&str>() {
        s.to_string()
    } else if let Some(s) = p.downcast_ref::<String>() {
        s.clone()
    } else {
        "panic (non-string payload)".into()
    }
}

/// One schedulable alternative offered to the chooser.
#[derive(Clone, Copy, Debug, PartialEq, Eq)]
pub struct Alt {
    pub tid: usize,
    /// harness-defined action code carried to the thread (0 = just continue)
    pub action: u8,
    /// true if taking it simply continues the thread that ran last
    pub continues_last: bool,
}

/// Order alternatives and price them for `vcore::dfs::Chooser::choose_costed`: continuing the thread
/// that ran last is free and first; if it can continue, switching away from it is a preemption (cost 1);
/// if it cannot (blocked, finished), every alternative is free.
pub fn price(alts: &mut Vec<Alt>) -> Vec<u32> {
    alts.sort_by_key(|a| !a.continues_last);
    let preemptible = alts.first().map(|a| a.continues_last).unwrap_or(false);
    alts.iter().map(|a| if preemptible && !a.continues_last { 1 } else { 0 }).collect()
}
