//! C06-B / C13-B: harness-side observers for runs through hook H-EXEC.
//!  * `RecordingPolicy`: a `RetryPolicy` that delegates to a real built-in policy (or plays scripted decisions)
//!    and records what the execution loop asked and what was decided, per retry session;
//!  * `Listener`: a `HistoryListener` recording fibers / attempts / decisions as the loop reports them.
use crate::retrysym;
use cqlref::retry::{Cl, Decision};
use scylla::errors::{RequestAttemptError, RequestError};
use scylla::observability::history::{AttemptId, HistoryListener, RequestId, SpeculativeId};
use scylla::policies::retry::{RequestInfo, RetryDecision, RetryPolicy, RetrySession};
use std::net::SocketAddr;
use std::sync::atomic::{AtomicUsize, Ordering};
use std::sync::{Arc, Mutex};

#[derive(Clone, Debug, PartialEq, Eq)]
pub struct DecisionRec {
    /// which retry session (in order of creation) was asked
    pub session: usize,
    pub error_dbg: String,
    pub idempotent: bool,
    pub cl: Cl,
    pub decision: Decision,
}

pub enum PolicySource {
    Real(Arc<dyn RetryPolicy>),
    /// the k-th decision asked (over all sessions) is `script[k]`; beyond the script: DontRetry
    Scripted(Vec<Decision>),
}

pub struct RecordingPolicy {
    pub src: PolicySource,
    pub log: Arc<Mutex<Vec<DecisionRec>>>,
    pub sessions: Arc<AtomicUsize>,
    pub asked: Arc<AtomicUsize>,
}

impl std::fmt::Debug for RecordingPolicy {
    fn fmt(&self, f: &mut std::fmt::Formatter<'_>) -> std::fmt::Result {
        write!(f, "RecordingPolicy")
    }
}

impl RecordingPolicy {
    pub fn new(src: PolicySource) -> RecordingPolicy {
        RecordingPolicy { src, log: Default::default(), sessions: Default::default(), asked: Default::default() }
    }
}

struct RecSession {
    id: usize,
    inner: Option<Box<dyn RetrySession>>,
    script: Option<Vec<Decision>>,
    log: Arc<Mutex<Vec<DecisionRec>>>,
    asked: Arc<AtomicUsize>,
}

impl RetryPolicy for RecordingPolicy {
    fn new_session(&self) -> Box<dyn RetrySession> {
        let id = self.sessions.fetch_add(1, Ordering::SeqCst);
        let (inner, script) = match &self.src {
            PolicySource::Real(p) => (Some(p.new_session()), None),
            PolicySource::Scripted(s) => (None, Some(s.clone())),
        };
        Box::new(RecSession { id, inner, script, log: self.log.clone(), asked: self.asked.clone() })
    }
}

impl RetrySession for RecSession {
    fn decide_should_retry(&mut self, info: RequestInfo) -> RetryDecision {
        let k = self.asked.fetch_add(1, Ordering::SeqCst);
        let error_dbg = format!("{:?}", info.error);
        let idempotent = info.is_idempotent;
        let cl = retrysym::cl_of(info.consistency);
        let d = match (&mut self.inner, &self.script) {
            (Some(s), _) => s.decide_should_retry(info),
            (None, Some(script)) => script.get(k).map(|d| retrysym::retry_decision_of(*d)).unwrap_or(RetryDecision::DontRetry),
            (None, None) => RetryDecision::DontRetry,
        };
        self.log.lock().unwrap().push(DecisionRec { session: self.id, error_dbg, idempotent, cl, decision: retrysym::decision_of(&d) });
        d
    }
    fn reset(&mut self) {
        if let Some(s) = self.inner.as_mut() {
            s.reset()
        }
    }
}

#[derive(Clone, Debug, PartialEq, Eq)]
pub enum HEv {
    RequestStart,
    RequestSuccess,
    RequestError(String),
    NewFiber(usize),
    AttemptStart { attempt: usize, fiber: Option<usize>, target: usize },
    AttemptSuccess(usize),
    AttemptError { attempt: usize, error_dbg: String, decision: Decision },
}

#[derive(Debug, Default)]
pub struct Listener {
    pub ev: Mutex<Vec<HEv>>,
    next_fiber: AtomicUsize,
    next_attempt: AtomicUsize,
}

impl Listener {
    pub fn events(&self) -> Vec<HEv> {
        self.ev.lock().unwrap().clone()
    }
}

impl HistoryListener for Listener {
    fn log_request_start(&self) -> RequestId {
        self.ev.lock().unwrap().push(HEv::RequestStart);
        RequestId(0)
    }
    fn log_request_success(&self, _: RequestId) {
        self.ev.lock().unwrap().push(HEv::RequestSuccess);
    }
    fn log_request_error(&self, _: RequestId, error: &RequestError) {
        self.ev.lock().unwrap().push(HEv::RequestError(format!("{error:?}")));
    }
    fn log_new_speculative_fiber(&self, _: RequestId) -> SpeculativeId {
        let id = self.next_fiber.fetch_add(1, Ordering::SeqCst);
        self.ev.lock().unwrap().push(HEv::NewFiber(id));
        SpeculativeId(id)
    }
    fn log_attempt_start(&self, _: RequestId, speculative_id: Option<SpeculativeId>, node_addr: SocketAddr) -> AttemptId {
        let id = self.next_attempt.fetch_add(1, Ordering::SeqCst);
        self.ev.lock().unwrap().push(HEv::AttemptStart { attempt: id, fiber: speculative_id.map(|s| s.0), target: scylla::verif::exec::target_of_addr(node_addr) });
        AttemptId(id)
    }
    fn log_attempt_success(&self, attempt_id: AttemptId) {
        self.ev.lock().unwrap().push(HEv::AttemptSuccess(attempt_id.0));
    }
    fn log_attempt_error(&self, attempt_id: AttemptId, error: &RequestAttemptError, retry_decision: &RetryDecision) {
        self.ev.lock().unwrap().push(HEv::AttemptError { attempt: attempt_id.0, error_dbg: format!("{error:?}"), decision: retrysym::decision_of(retry_decision) });
    }
}

/// The k-th attempt's failure value for a symbol: database errors carry the attempt number in their message so
/// that "which attempt's error was returned" is observable.
pub fn error_for_attempt(sym_err: &RequestAttemptError, k: usize) -> RequestAttemptError {
    match sym_err {
        RequestAttemptError::DbError(e, _) => RequestAttemptError::DbError(e.clone(), format!("attempt{k}")),
        other => other.clone(),
    }
}
