//! C06 leg B - the loop that interprets retry decisions: the real `run_request_no_side_effects` /
//! `run_request_speculative_fiber` (hook H-EXEC) with a plan of p placeholder targets (each with or without a
//! connection) and a scripted per-attempt outcome; no network, no speculative policy (C13-B covers that).
//!
//! The script is a tree explored on demand: a script prefix is run; if the loop asks for an attempt beyond the
//! prefix, the prefix is extended by every symbol. So every script the loop can consume is covered, and a loop that
//! sends more than it should hits the depth cap and is reported.
//!   mode real:     symbols = success + a 12-class failure alphabet (real error values); decisions by the real
//!                  Default / DowngradingConsistency / Fallthrough policies (recorded by a delegating wrapper);
//!   mode scripted: symbols = success + failure with each of 6 decisions, played by a scripted policy, so that every
//!                  decision sequence is interpreted, not only those the built-in policies produce.
//! Oracle: cqlref::retry::interpret (attempt targets, consistencies, count, result), the request info handed to
//! the policy, one retry session per request, SessionJudge + the direct statement on attempts.
use cqlref::retry::{Cl, Decision, ErrClass, LoopOutcome, Policy, SessionJudge, Step, interpret};
use h_drv::execharness::{DecisionRec, PolicySource, RecordingPolicy, error_for_attempt};
use h_drv::retrysym::{self, Sym};
use scylla::errors::{RequestAttemptError, RequestError};
use scylla::statement::Consistency;
use scylla::verif::exec::{ExecConfig, ExecEvent, ExecResult};
use serde_json::{Value, json};
use std::cell::RefCell;
use std::sync::atomic::Ordering;
use std::sync::{Arc, Mutex};
use vcore::Report;

/// the children of every one-symbol script are spread over this many work items
const SPLIT: usize = 8;

/// scripted-mode failure decisions
const SCRIPTED: [Decision; 6] = [
    Decision::DontRetry,
    Decision::RetryNext(None),
    Decision::RetrySame(None),
    Decision::RetryNext(Some(Cl::Two)),
    Decision::RetrySame(Some(Cl::One)),
    Decision::IgnoreWrite,
];

/// A retry policy that must never be consulted (it sits where the resolution rules say "overridden").
#[derive(Debug)]
struct DecoyPolicy(Arc<std::sync::atomic::AtomicBool>);
struct DecoySession(Arc<std::sync::atomic::AtomicBool>);
impl scylla::policies::retry::RetryPolicy for DecoyPolicy {
    fn new_session(&self) -> Box<dyn scylla::policies::retry::RetrySession> {
        Box::new(DecoySession(self.0.clone()))
    }
}
impl scylla::policies::retry::RetrySession for DecoySession {
    fn decide_should_retry(&mut self, _: scylla::policies::retry::RequestInfo) -> scylla::policies::retry::RetryDecision {
        self.0.store(true, Ordering::SeqCst);
        scylla::policies::retry::RetryDecision::RetryNextTarget(None)
    }
    fn reset(&mut self) {}
}

#[derive(Clone, Copy, PartialEq, Eq, Debug)]
enum Mode {
    Real(Policy),
    Scripted,
}

struct Ctx<'a> {
    #[allow(dead_code)]
    r: &'a Report,
    mv: &'a retrysym::MinViolations,
    syms: &'a [Sym],
    mode: Mode,
    idem: bool,
    cl0: Cl,
    no_conn: Vec<bool>,
    cap: usize,
    /// connection-less target t answers retrysym::pool_errors()[(t + pool_rot) % len]
    pool_rot: usize,
    /// 0 = parameters handed to the loop directly; e > 0: resolved by the production `new_for_session_apis` from a
    /// user-configured statement + execution profile. Bits of e-1: 1 = consistency set on the statement (else only in the
    /// profile), 2 = retry policy set on the statement (else only in the profile), 4 = Batch instead of Statement,
    /// 8 = the profile is attached to the statement (the session default profile is a decoy), 16 = the profiles also carry
    /// a speculative execution policy (max 1; it may only change WHEN things happen, never what is sent for these scripts:
    /// attempts complete at once, so a second execution can only find the plan exhausted).
    entry: usize,
}

impl Ctx<'_> {
    /// number of symbols: index 0 = success, 1.. = failures
    fn n_syms(&self) -> usize {
        1 + match self.mode {
            Mode::Real(_) => self.syms.len(),
            Mode::Scripted => SCRIPTED.len(),
        }
    }
    fn sym_name(&self, s: usize) -> String {
        if s == 0 {
            return "SUCCESS".into();
        }
        match self.mode {
            Mode::Real(_) => self.syms[s - 1].name.clone(),
            Mode::Scripted => format!("FAIL->{:?}", SCRIPTED[s - 1]),
        }
    }
    fn error_of(&self, s: usize, k: usize) -> RequestAttemptError {
        match self.mode {
            Mode::Real(_) => error_for_attempt(&self.syms[s - 1].err, k),
            Mode::Scripted => RequestAttemptError::DbError(scylla::errors::DbError::ServerError, format!("attempt{k}")),
        }
    }
    fn case_json(&self, script: &[usize]) -> Value {
        json!({"leg":"loop","mode": match self.mode { Mode::Real(p) => p.name(), Mode::Scripted => "scripted" },
               "idempotent": self.idem, "cl0": self.cl0.name(), "no_conn": self.no_conn, "pool_rot": self.pool_rot, "entry": self.entry,
               "script": script.iter().map(|&s| self.sym_name(s)).collect::<Vec<_>>()})
    }
}

#[derive(Debug)]
struct Obs {
    attempts: Vec<(usize, Cl)>,
    decisions: Vec<DecisionRec>,
    sessions: usize,
    result: ExecResult,
    wanted_more: bool,
    log: Vec<ExecEvent>,
    /// a retry policy that the statement / profile resolution must not have picked was consulted
    decoy_used: bool,
}

fn run_case(cx: &Ctx, script: &[usize]) -> Obs {
    let src = match cx.mode {
        Mode::Real(p) => PolicySource::Real(retrysym::policy_of(p)),
        // the k-th decision asked belongs to the k-th failed attempt = k-th script symbol (every symbol before the
        // last is a failure)
        Mode::Scripted => PolicySource::Scripted(script.iter().map(|&s| if s == 0 { Decision::DontRetry } else { SCRIPTED[s - 1] }).collect()),
    };
    let rec = Arc::new(RecordingPolicy::new(src));
    let targets: Vec<bool> = cx.no_conn.iter().map(|n| !n).collect();
    let pool_errors = {
        let mut v = retrysym::pool_errors();
        let n = v.len();
        v.rotate_left(cx.pool_rot % n);
        v
    };
    let attempts: RefCell<Vec<(usize, Cl)>> = RefCell::new(Vec::new());
    let wanted_more = RefCell::new(false);
    let log = Arc::new(Mutex::new(Vec::new()));
    let attempt = |target: usize, cl: Consistency| {
        let k = attempts.borrow().len();
        attempts.borrow_mut().push((target, retrysym::cl_of(cl)));
        let out = match script.get(k) {
            None => {
                *wanted_more.borrow_mut() = true;
                Ok(format!("attempt{k}"))
            }
            Some(0) => Ok(format!("attempt{k}")),
            Some(&s) => Err(cx.error_of(s, k)),
        };
        std::future::ready(out)
    };
    let decoy_used = Arc::new(std::sync::atomic::AtomicBool::new(false));
    let result = if cx.entry == 0 {
        let cfg = ExecConfig {
            is_idempotent: cx.idem,
            consistency: retrysym::cons_of(cx.cl0),
            retry_policy: rec.clone(),
            speculative: None,
            request_timeout: None,
            history_listener: None,
            targets,
            pool_errors,
        };
        futures::executor::block_on(scylla::verif::exec::run_request(cfg, log.clone(), attempt))
    } else {
        // building an execution profile needs a tokio context (its default load-balancing policy); one paused
        // current-thread runtime per worker thread
        thread_local! {
            static RT: tokio::runtime::Runtime = tokio::runtime::Builder::new_current_thread().enable_time().start_paused(true).build().expect("runtime");
        }
        RT.with(|rt| {
        let _guard = rt.enter();
        use scylla::client::execution_profile::ExecutionProfile;
        let bits = cx.entry - 1;
        let decoy_cl = if cx.cl0 == Cl::All { Cl::Any } else { Cl::All };
        let decoy_policy: Arc<dyn scylla::policies::retry::RetryPolicy> = Arc::new(DecoyPolicy(decoy_used.clone()));
        // the profile that must be used: carries whatever is not set on the statement (and decoys for what is)
        let spec: Option<Arc<dyn scylla::policies::speculative_execution::SpeculativeExecutionPolicy>> = (bits & 16 != 0).then(|| {
            Arc::new(scylla::policies::speculative_execution::SimpleSpeculativeExecutionPolicy { max_retry_count: 1, retry_interval: std::time::Duration::from_millis(100) }) as Arc<dyn scylla::policies::speculative_execution::SpeculativeExecutionPolicy>
        });
        let profile = ExecutionProfile::builder()
            .speculative_execution_policy(spec.clone())
            .consistency(retrysym::cons_of(if bits & 1 != 0 { decoy_cl } else { cx.cl0 }))
            .retry_policy(if bits & 2 != 0 { decoy_policy.clone() } else { rec.clone() })
            .build()
            .into_handle();
        let decoy_profile = ExecutionProfile::builder().speculative_execution_policy(spec.clone()).consistency(retrysym::cons_of(decoy_cl)).retry_policy(decoy_policy.clone()).build().into_handle();
        let (own, default_profile) = if bits & 8 != 0 { (Some(profile), decoy_profile) } else { (None, profile) };
        let stmt = if bits & 4 != 0 {
            let mut b = scylla::statement::batch::Batch::default();
            b.set_is_idempotent(cx.idem);
            if bits & 1 != 0 {
                b.set_consistency(retrysym::cons_of(cx.cl0));
            }
            if bits & 2 != 0 {
                b.set_retry_policy(Some(rec.clone()));
            }
            b.set_execution_profile_handle(own);
            scylla::verif::exec::VerifStatement::Batch(b)
        } else {
            let mut q = scylla::statement::unprepared::Statement::new("INSERT INTO ks.t (a) VALUES (1)");
            q.set_is_idempotent(cx.idem);
            if bits & 1 != 0 {
                q.set_consistency(retrysym::cons_of(cx.cl0));
            }
            if bits & 2 != 0 {
                q.set_retry_policy(Some(rec.clone()));
            }
            q.set_execution_profile_handle(own);
            scylla::verif::exec::VerifStatement::Unprepared(q)
        };
        rt.block_on(scylla::verif::exec::run_request_for_statement(stmt, default_profile, targets, pool_errors, log.clone(), attempt))
        })
    };
    let decisions = rec.log.lock().unwrap().clone();
    let log = log.lock().unwrap().clone();
    Obs { attempts: attempts.into_inner(), decisions, sessions: rec.sessions.load(Ordering::SeqCst), result, wanted_more: wanted_more.into_inner(), log, decoy_used: decoy_used.load(Ordering::SeqCst) }
}

/// Judge one run. Returns complaints (key, text).
fn judge(cx: &Ctx, script: &[usize], o: &Obs) -> Vec<(String, String)> {
    let mut out: Vec<(String, String)> = Vec::new();
    let p = cx.no_conn.len();
    // reference steps: script symbols with the decisions actually taken for the failures
    let mut steps = Vec::new();
    let mut fails = 0usize;
    for &s in script {
        if s == 0 {
            steps.push(Step::Success);
            break;
        }
        match o.decisions.get(fails) {
            Some(d) => steps.push(Step::Fail(d.decision)),
            None => break,
        }
        fails += 1;
    }
    // the request info handed to the policy
    for (k, d) in o.decisions.iter().enumerate() {
        let want_err = script.get(k).filter(|&&s| s != 0).map(|&s| format!("{:?}", cx.error_of(s, k)));
        let want_cl = o.attempts.get(k).map(|a| a.1);
        if Some(&d.error_dbg) != want_err.as_ref() || Some(d.cl) != want_cl || d.idempotent != cx.idem {
            out.push(("loop:wrong-request-info".into(), format!("decision {k} was asked with (error {}, idempotent {}, consistency {:?}); attempt {k} failed with {:?} at {:?}, idempotent {}", d.error_dbg, d.idempotent, d.cl, want_err, want_cl, cx.idem)));
        }
    }
    if o.decoy_used {
        out.push(("entry:overridden-retry-policy-used".into(), format!("entry {}: a retry policy that is overridden (statement-level beats profile-level, the statement's own profile beats the session default) was consulted", cx.entry)));
    }
    if o.sessions > 1 {
        out.push(("loop:extra-retry-session".into(), format!("{} retry sessions were created for one request without speculative execution", o.sessions)));
    }
    let failed_attempts = (0..o.attempts.len()).filter(|&k| matches!(script.get(k), Some(&s) if s != 0)).count();
    if o.decisions.len() != failed_attempts {
        out.push(("loop:policy-consultations".into(), format!("{} attempts failed but the policy was asked {} times", failed_attempts, o.decisions.len())));
    }
    let exp = interpret(p, &cx.no_conn, cx.cl0, &steps);
    if exp.outcome == LoopOutcome::ScriptExhausted {
        // the decisions demand another attempt beyond the script
        if !o.wanted_more {
            out.push(("loop:decided-resend-not-sent".into(), format!("after {:?} the decisions demand another attempt, the loop sent only {:?} and returned {:?}", steps, o.attempts, o.result)));
        } else {
            let mut s2 = steps.clone();
            s2.push(Step::Success);
            let exp2 = interpret(p, &cx.no_conn, cx.cl0, &s2);
            if exp2.attempts != o.attempts {
                out.push((diff_key(&exp2.attempts, &o.attempts), format!("attempts (target, consistency) sent {:?}, the decisions {:?} demand {:?}", o.attempts, steps, exp2.attempts)));
            }
        }
    } else {
        if o.wanted_more {
            out.push(("loop:sent-more-than-decided".into(), format!("the loop sent attempts {:?}; the decisions {:?} allow only {:?}", o.attempts, steps, exp.attempts)));
        } else if exp.attempts != o.attempts {
            out.push((diff_key(&exp.attempts, &o.attempts), format!("attempts (target, consistency) sent {:?}, the decisions {:?} demand {:?}", o.attempts, steps, exp.attempts)));
        } else {
            // result
            let ok = match (&exp.outcome, &o.result) {
                (LoopOutcome::Success { attempt }, ExecResult::Completed { coordinator, token }) => *coordinator == o.attempts[*attempt].0 && *token == format!("attempt{attempt}"),
                (LoopOutcome::IgnoredWrite { attempt }, ExecResult::IgnoredWriteError { coordinator }) => *coordinator == o.attempts[*attempt].0,
                (LoopOutcome::LastAttemptError { attempt }, ExecResult::Err(RequestError::LastAttemptError(e))) => format!("{e:?}") == format!("{:?}", cx.error_of(script[*attempt], *attempt)),
                (LoopOutcome::PoolError { target }, ExecResult::Err(RequestError::ConnectionPoolError(e))) => {
                    let pe = retrysym::pool_errors();
                    format!("{e:?}") == format!("{:?}", pe[(*target + cx.pool_rot) % pe.len()])
                }
                (LoopOutcome::EmptyPlan, ExecResult::Err(RequestError::EmptyPlan)) => true,
                _ => false,
            };
            if !ok {
                out.push(("loop:wrong-result".into(), format!("returned {:?}, the decisions demand {:?} (attempts {:?})", o.result, exp.outcome, o.attempts)));
            }
        }
    }
    // the statement, directly on what was sent
    if let Mode::Real(pol) = cx.mode {
        let mut j = SessionJudge::new(pol, cx.idem);
        for (k, d) in o.decisions.iter().enumerate() {
            if let Some(&s) = script.get(k).filter(|&&s| s != 0) {
                for c in j.step(cx.syms[s - 1].class, d.cl, d.decision) {
                    out.push((c.key, c.text));
                }
            }
        }
        for k in 0..o.attempts.len().saturating_sub(1) {
            if let Some(&s) = script.get(k).filter(|&&s| s != 0) {
                let class = cx.syms[s - 1].class;
                if !cx.idem && !class.proves_not_applied() {
                    out.push((format!("loop:nonidempotent-resent-after:{}", class.name()), format!("a NON-idempotent request was sent again (attempt {}) after attempt {k} failed with {}", k + 1, cx.syms[s - 1].name)));
                }
                if pol == Policy::Default && o.attempts[k].1.is_serial() {
                    out.push(("loop:default-resent-at-serial".into(), format!("default policy: attempt {k} at {:?} was followed by another attempt", o.attempts[k].1)));
                }
            }
        }
        let bound = cqlref::retry::attempts_bound(p, pol);
        if o.attempts.len() > bound {
            out.push(("loop:attempts-exceed-bound".into(), format!("{} attempts sent with plan length {p} and {} policy (bound {bound})", o.attempts.len(), pol.name())));
        }
    }
    out
}

fn diff_key(want: &[(usize, Cl)], got: &[(usize, Cl)]) -> String {
    for (w, g) in want.iter().zip(got.iter()) {
        if w.0 != g.0 {
            return "loop:wrong-target".into();
        }
        if w.1 != g.1 {
            return "loop:wrong-consistency".into();
        }
    }
    "loop:attempt-count".into()
}

#[derive(Default)]
struct Acc {
    runs: u64,
    attempts: u64,
    validated: u64,
    nontrivial: u64,
    outcomes: [u64; 6],
    max_attempts: u64,
}

fn outcome_index(r: &ExecResult) -> usize {
    match r {
        ExecResult::Completed { .. } => 0,
        ExecResult::IgnoredWriteError { .. } => 1,
        ExecResult::Err(RequestError::LastAttemptError(_)) => 2,
        ExecResult::Err(RequestError::ConnectionPoolError(_)) => 3,
        ExecResult::Err(RequestError::EmptyPlan) => 4,
        ExecResult::Err(_) => 5,
    }
}
const OUTCOME_NAMES: [&str; 6] = ["completed", "ignored-write", "last-attempt-error", "pool-error", "empty-plan", "other-error"];

fn visit(cx: &Ctx, acc: &mut Acc, script: &mut Vec<usize>, parent: Option<&Obs>) {
    visit_one(cx, acc, script, parent, None)
}

/// `only = (modulus, remainder)`: extend this node only by symbols s with s % modulus == remainder (work splitting at the
/// root); the root's own verdict/counters are kept only by the remainder-0 item.
fn visit_one(cx: &Ctx, acc: &mut Acc, script: &mut Vec<usize>, parent: Option<&Obs>, only: Option<(usize, usize)>) {
    let root_quiet = matches!(only, Some((_, rem)) if rem != 0);
    let o = match vcore::catch(std::panic::AssertUnwindSafe(|| run_case(cx, script))) {
        Ok(o) => o,
        Err(p) => {
            cx.mv.add("loop:panic", script.len(), format!("the execution loop panicked on {}: {p}", cx.case_json(script)), cx.case_json(script));
            return;
        }
    };
    if !root_quiet {
        acc.runs += 1;
        acc.attempts += o.attempts.len() as u64;
        acc.max_attempts = acc.max_attempts.max(o.attempts.len() as u64);
    }
    // determinism audit: the parent's observation must be a prefix of this run's
    if let Some(par) = parent {
        let n = par.attempts.len();
        if o.attempts.len() < n || o.attempts[..n] != par.attempts[..] || o.decisions.len() < par.decisions.len() || o.decisions[..par.decisions.len()] != par.decisions[..] {
            vcore::machinery_error(&format!("replay divergence: script {} gave attempts {:?} after its prefix gave {:?}", cx.case_json(script), o.attempts, par.attempts));
        }
        acc.validated += 1;
    }
    let complaints = judge(cx, script, &o);
    if !root_quiet {
        for (k, t) in &complaints {
            cx.mv.add(k, script.len() + cx.no_conn.len(), format!("{t} | case {}", cx.case_json(script)), cx.case_json(script));
        }
    }
    // a script on which the loop already misbehaves is not extended (its extensions say nothing new, and a loop
    // that no longer stops would blow the tree up)
    if !complaints.is_empty() {
        return;
    }
    if !o.wanted_more {
        if !root_quiet {
            acc.outcomes[outcome_index(&o.result)] += 1;
            if o.attempts.len() >= 2 {
                acc.nontrivial += 1;
            }
        }
        return;
    }
    if script.len() >= cx.cap {
        if let (Mode::Real(pol), false) = (cx.mode, root_quiet) {
            cx.mv.add("loop:attempts-exceed-bound", script.len() + cx.no_conn.len(), format!("the loop asked for attempt {} with plan length {} and {} policy | case {}", script.len() + 1, cx.no_conn.len(), pol.name(), cx.case_json(script)), cx.case_json(script));
        }
        return;
    }
    for s in 0..cx.n_syms() {
        if only.is_some_and(|(m, rem)| s % m != rem) {
            continue;
        }
        script.push(s);
        visit(cx, acc, script, Some(&o));
        script.pop();
    }
}

fn replay(r: &Report, syms: &[Sym], case: &Value) {
    let mode = match case["mode"].as_str() {
        Some("scripted") => Mode::Scripted,
        Some(p) => Mode::Real(Policy::from_name(p).unwrap_or_else(|| vcore::machinery_error("replay: bad mode"))),
        None => vcore::machinery_error("replay: no mode"),
    };
    let cl0 = Cl::ALL.into_iter().find(|c| Some(c.name()) == case["cl0"].as_str()).unwrap_or_else(|| vcore::machinery_error("replay: bad cl0"));
    let no_conn: Vec<bool> = case["no_conn"].as_array().map(|a| a.iter().map(|v| v.as_bool().unwrap_or(false)).collect()).unwrap_or_default();
    let mv = retrysym::MinViolations::default();
    let cx = Ctx { r, mv: &mv, syms, mode, idem: case["idempotent"].as_bool().unwrap_or(false), cl0, no_conn, cap: 99, pool_rot: case["pool_rot"].as_u64().unwrap_or(0) as usize, entry: case["entry"].as_u64().unwrap_or(0) as usize };
    let script: Vec<usize> = case["script"]
        .as_array()
        .unwrap_or_else(|| vcore::machinery_error("replay: no script"))
        .iter()
        .map(|n| (0..cx.n_syms()).find(|&s| Some(cx.sym_name(s).as_str()) == n.as_str()).unwrap_or_else(|| vcore::machinery_error("replay: unknown symbol")))
        .collect();
    let o = run_case(&cx, &script);
    println!("attempts (target, consistency): {:?}", o.attempts);
    println!("decisions: {:?}", o.decisions.iter().map(|d| d.decision).collect::<Vec<_>>());
    println!("loop events: {:?}", o.log);
    println!("result: {:?} wanted_more={}", o.result, o.wanted_more);
    for (k, t) in judge(&cx, &script, &o) {
        r.violation(&k, &t, case.clone());
    }
}

fn main() {
    vcore::quiet_panics();
    let r = Report::new("C06", "exec-loop", "model_checking", "E-ENUM");
    if let Err(e) = cqlref::retry::self_test() {
        vcore::machinery_error(&format!("cqlref::retry self-test failed: {e}"));
    }
    // enlarged alphabet (one symbol per variant of every non-database family) for plans up to `ext_p` targets, the
    // 64-symbol alphabet up to `full_p`, the 14-class alphabet for longer plans
    let syms_ext = retrysym::extended_alphabet();
    let syms_full = {
        // the 64-symbol alphabet + one representative of every field-combination family the enlarged alphabet adds
        let mut v = retrysym::alphabet();
        for name in [
            "RateLimitReached(Read,rejected_by_coordinator=false)",
            "RateLimitReached(Write,rejected_by_coordinator=false)",
            "RateLimitReached(Other(7),rejected_by_coordinator=true)",
            "BrokenConnection:WriteError(BrokenPipe)",
            "BrokenConnection:KeepaliveTimeout",
            "Unavailable(body_cl=SERIAL,alive=1)",
            "WriteTimeout(body_cl=SERIAL,BATCH_LOG,received=0)",
            "WriteFailure(BATCH_LOG,received=0,numfailures=1)",
            "Other(0x1000)",
        ] {
            let s = syms_ext.iter().find(|s| s.name == name).unwrap_or_else(|| vcore::machinery_error(&format!("symbol {name} missing")));
            v.push(Sym { name: s.name.clone(), class: s.class, err: s.err.clone() });
        }
        v
    };
    let syms_class = retrysym::class_alphabet();
    let syms = retrysym::extended_alphabet();
    let n_pool = retrysym::pool_errors().len();
    if let Some(case) = r.replay_case() {
        replay(&r, &syms, &case);
        r.finish_replay();
    }
    let thorough = r.tier().is_thorough();
    let max_p = r.args.extra_value("--max-p").and_then(|s| s.parse().ok()).unwrap_or(r.tier().pick(4usize, 5usize));
    let full_p = r.args.extra_value("--full-p").and_then(|s| s.parse().ok()).unwrap_or(r.tier().pick(2usize, 4usize));
    let ext_p = r.args.extra_value("--ext-p").and_then(|s| s.parse().ok()).unwrap_or(r.tier().pick(1usize, 2usize));
    let cls: Vec<Cl> = if thorough { Cl::ALL.to_vec() } else { vec![Cl::Quorum, Cl::EachQuorum, Cl::One, Cl::LocalSerial] };
    let mut items = Vec::new();
    for mode in [Mode::Real(Policy::Default), Mode::Real(Policy::Downgrading), Mode::Real(Policy::Fallthrough), Mode::Scripted] {
        for idem in [false, true] {
            for &cl0 in &cls {
                if mode == Mode::Scripted && !(cl0 == Cl::Quorum || cl0 == Cl::LocalSerial) {
                    continue;
                }
                for p in 0..=max_p {
                    for mask in 0..(1u32 << p) {
                        let no_conn: Vec<bool> = (0..p).map(|t| mask >> t & 1 == 1).collect();
                        let n_first = 1 + if mode == Mode::Scripted {
                            SCRIPTED.len()
                        } else if p <= ext_p {
                            syms_ext.len()
                        } else if p <= full_p {
                            syms_full.len()
                        } else {
                            syms_class.len()
                        };
                        // which ConnectionPoolError variant a connection-less target answers: every rotation for short plans
                        let rots = if mask != 0 && p <= ext_p { n_pool } else { 1 };
                        for rot in 0..rots {
                            for s in 0..n_first {
                                for s1 in 0..SPLIT {
                                    items.push((mode, idem, cl0, no_conn.clone(), rot, 0usize, s, s1));
                                }
                            }
                        }
                        // the same trees with the parameters resolved from a user-configured Statement / Batch + execution
                        // profile (32 ways of placing consistency / retry policy / profile / a speculative policy): plans of 1..2 targets, all with
                        // a connection, two consistencies
                        if (1..=2).contains(&p) && mask == 0 && (cl0 == Cl::Quorum || cl0 == Cl::LocalSerial) {
                            let n_entry = 1 + if mode == Mode::Scripted { SCRIPTED.len() } else { syms_class.len() };
                            for entry in 1..=32usize {
                                // a speculative policy in the profile is only combined with NON-idempotent statements here (it must
                                // then be ignored altogether); for idempotent ones speculative executions legitimately add attempts
                                // after an ignorable failure - that composition is C13's (leg exec-spec)
                                if (entry - 1) & 16 != 0 && idem {
                                    continue;
                                }
                                for s in 0..n_entry {
                                    items.push((mode, idem, cl0, no_conn.clone(), 0, entry, s, usize::MAX));
                                }
                            }
                        }
                    }
                }
            }
        }
    }
    r.counters.add("work_items", items.len() as u64);
    let r_ref = &r;
    let mv = retrysym::MinViolations::default();
    let mv_ref = &mv;
    vcore::par::for_each(r.args.jobs, 1, items.into_iter(), |(mode, idem, cl0, no_conn, pool_rot, entry, s, s1)| {
        let p = no_conn.len();
        let syms_ref = if entry > 0 {
            &syms_class[..]
        } else if p <= ext_p {
            &syms_ext[..]
        } else if p <= full_p {
            &syms_full[..]
        } else {
            &syms_class[..]
        };
        let cap = match mode {
            Mode::Real(_) => p + 3,
            Mode::Scripted => (p + 3).min(r_ref.tier().pick(5, 6)),
        };
        let cx = Ctx { r: r_ref, mv: mv_ref, syms: syms_ref, mode, idem, cl0, no_conn, cap, pool_rot, entry };
        let mut acc = Acc::default();
        // work is split by the first two symbols: the one-symbol run is judged and counted by the item with s1 == 0
        let mut script = vec![s];
        if s1 == usize::MAX {
            visit(&cx, &mut acc, &mut script, None);
        } else {
            visit_one(&cx, &mut acc, &mut script, None, Some((SPLIT, s1)));
        }
        r_ref.eval(acc.runs);
        r_ref.states.fetch_add(acc.runs, Ordering::Relaxed);
        r_ref.transitions.fetch_add(acc.attempts, Ordering::Relaxed);
        r_ref.traces_validated.fetch_add(acc.validated, Ordering::Relaxed);
        r_ref.nontrivial(acc.nontrivial);
        let tag = match mode {
            Mode::Real(p) => p.name(),
            Mode::Scripted => "scripted",
        };
        for (i, n) in acc.outcomes.iter().enumerate() {
            if *n > 0 {
                r_ref.counters.add(&format!("result:{tag}:{}", OUTCOME_NAMES[i]), *n);
            }
        }
        r_ref.counters.max(&format!("max_attempts:{tag}:p{p}"), acc.max_attempts);
    });
    // ---- long single runs (sizes just beyond round limits): many same-target retries decided by a custom policy, plans
    // of > 64 / > 1024 targets walked to the end, every second target without a connection
    {
        let class_syms = &syms_class[..];
        let overloaded = 1 + class_syms.iter().position(|s| s.name == "Overloaded").unwrap_or_else(|| vcore::machinery_error("Overloaded missing"));
        let same = 1 + SCRIPTED.iter().position(|d| *d == Decision::RetrySame(None)).unwrap();
        let next = 1 + SCRIPTED.iter().position(|d| *d == Decision::RetryNext(None)).unwrap();
        let mut long_runs = 0u64;
        for n in [65usize, 1025, 1100] {
            let all = vec![false; n];
            let odd: Vec<bool> = (0..n).map(|t| t % 2 == 1).collect();
            let cases: Vec<(Mode, Vec<bool>, Vec<usize>)> = vec![
                // n same-target retries on a one-target plan, then success / then stop
                (Mode::Scripted, vec![false], [vec![same; n], vec![0]].concat()),
                (Mode::Scripted, vec![false], [vec![same; n], vec![1]].concat()),
                // walk a plan of n targets to its last target / off its end
                (Mode::Scripted, all.clone(), [vec![next; n - 1], vec![0]].concat()),
                (Mode::Scripted, all.clone(), vec![next; n]),
                (Mode::Scripted, odd.clone(), vec![next; n.div_ceil(2)]),
                (Mode::Real(Policy::Default), all.clone(), vec![overloaded; n]),
                (Mode::Real(Policy::Default), odd.clone(), [vec![overloaded; n / 2], vec![0]].concat()),
            ];
            for (mode, no_conn, script) in cases {
                let cx = Ctx { r: &r, mv: &mv, syms: class_syms, mode, idem: true, cl0: Cl::Quorum, no_conn, cap: usize::MAX, pool_rot: 1, entry: 0 };
                let o = run_case(&cx, &script);
                long_runs += 1;
                r.eval(1);
                r.states.fetch_add(1, Ordering::Relaxed);
                r.transitions.fetch_add(o.attempts.len() as u64, Ordering::Relaxed);
                r.counters.max("max_attempts_long_run", o.attempts.len() as u64);
                if o.wanted_more {
                    mv.add("loop:sent-more-than-decided", script.len(), format!("long run: the loop asked for attempt {} beyond a script that ends the request (mode {:?}, plan {} targets)", script.len() + 1, mode, cx.no_conn.len()), cx.case_json(&script));
                }
                for (k, t) in judge(&cx, &script, &o) {
                    let short: String = t.chars().take(300).collect();
                    mv.add(&k, script.len(), format!("long run (n={n}, mode {mode:?}, plan {} targets): {short}", cx.no_conn.len()), cx.case_json(&script));
                }
            }
        }
        r.counters.add("long_runs", long_runs);
    }
    mv.flush(&r);
    // vacuity: the real policies must reach plan length + their same-target bound, and every result kind must occur
    for (pol, b) in [(Policy::Default, 2usize), (Policy::Downgrading, 1), (Policy::Fallthrough, 0)] {
        let got = r.counters.get(&format!("max_attempts:{}:p{max_p}", pol.name()));
        let want = if pol == Policy::Fallthrough { 1 } else { (max_p + b) as u64 };
        if got < want && r.violation_count() == 0 {
            vcore::machinery_error(&format!("vacuity: {} policy never reached {want} attempts with plan length {max_p} (max {got})", pol.name()));
        }
    }
    for kind in ["completed", "ignored-write", "last-attempt-error", "pool-error", "empty-plan"] {
        if r.counters.get(&format!("result:scripted:{kind}")) == 0 && r.violation_count() == 0 {
            vcore::machinery_error(&format!("vacuity: result kind {kind} never occurred in scripted mode"));
        }
    }
    r.set_rule(&format!("E-ENUM over the on-demand script tree through hook H-EXEC (real run_request_no_side_effects + run_request_speculative_fiber, no speculative policy): plan length 0..={max_p} x every subset of targets without a connection (answering every ConnectionPoolError variant, all rotations for short plans) x idempotent flag x initial consistency x (3 real policies with the enlarged / 64-symbol / 14-class failure alphabet by plan length + success | scripted policy with 6 decisions + success); a script prefix is extended by every symbol exactly when the loop asks for another attempt (depth cap p+3). evaluations = states = runs (script prefixes), transitions = attempts executed, traces_validated = runs whose parent prefix observation was reproduced as a prefix. distinct_nontrivial = completed runs with >= 2 attempts."));
    r.set_exhaustive(true);
    r.note("class_alphabet", json!(syms.iter().map(|s| s.name.clone()).collect::<Vec<_>>()));
    r.note("max_plan_length", json!(max_p));
    r.note("initial_consistencies", json!(cls.iter().map(|c| c.name()).collect::<Vec<_>>()));
    r.sample(json!({"mode":"downgrading","idempotent":true,"cl0":"QUORUM","no_conn":[false,true,false],"script":["Unavailable(alive=2)","Overloaded","SUCCESS"],"attempts":[[0,"QUORUM"],[0,"TWO"],[2,"TWO"]],"result":"completed by attempt 2 on target 2"}));
    r.assume("ErrClass per failure symbol is taken from the property text; the placeholder connections are never used to send (the scripted attempt closure replaces the network)");
    let _ = ErrClass::ALL;
    r.finish();
}
