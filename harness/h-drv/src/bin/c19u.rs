//! C19 leg `update-merge` - what the producer merges into the pending value is what the consumer publishes.
//!
//! Legs `bfs`/`thread` drive the channel with opaque pushes. This leg drives the REAL merge closures of
//! `cluster/metadata/update.rs` - `MetadataUpdate::merge_metadata` (with / without a refresh responder),
//! `merge_topology_update`, `merge_client_routes_update`, `merge_up_hint`, `merge_down_hint` - through the
//! real `merge_channel`, exactly as `MetadataWorker::send_update` does (hook H-MERGE, update part), in EVERY
//! sequence up to a length bound, with `recv` at every position, then drains and drops the sender.
//!
//! Payloads are tagged by fetch order (fetch n has peers 10n+1.., keyspace "ks<n>", route ports 100+n..).
//! Oracle (property + the doc comments of update.rs, nothing more):
//!   * consumer equivalence: applying the received values the way the cluster worker does (full: replace
//!     topology, schema, routes; partial: replace the peer list / upsert-remove routes) leaves, after every
//!     recv, the same topology / schema / cluster name / routes as handing every fetch result over one by one
//!     would have - i.e. per component the LATEST fetched data wins, a later partial overrides that component
//!     of a pending full, a later full overrides everything;
//!   * every refresh responder merged since the previous recv is in this received value exactly once, none is
//!     ever dropped, none shows up twice;
//!   * status hints: per address the latest hint merged since the previous recv;
//!   * recv yields a value iff something was merged since the previous recv (nothing is observed twice);
//!     after the sender is dropped: the pending value first, then `None`.
//! Second part (request side): every sequence of `FetchPlan::note_*` / drain steps keeps every noted piece of
//! fetch work owed (a full fetch covers everything).
use scylla::verif::merge::{self as hook, FullPayload, MergeOp, ReceivedChanges, ReceivedUpdate, ResponderState, UpdateChannel};
use serde_json::{Value, json};
use std::collections::{BTreeMap, BTreeSet};
use std::sync::Mutex;
use std::sync::atomic::{AtomicU64, Ordering};
use vcore::Report;

#[derive(Clone, Copy, Debug, PartialEq, Eq)]
enum Sym {
    FullR,
    Full,
    Topo,
    RoutesA,
    RoutesB,
    RoutesC,
    RoutesD,
    UpA,
    DownA,
    DownB,
    Recv,
}
const ALL: [Sym; 11] = [Sym::FullR, Sym::Full, Sym::Topo, Sym::RoutesA, Sym::RoutesB, Sym::RoutesC, Sym::RoutesD, Sym::UpA, Sym::DownA, Sym::DownB, Sym::Recv];
/// session without client routes: full fetches carry no routes and no route updates are produced
const NO_ROUTES: [Sym; 7] = [Sym::FullR, Sym::Full, Sym::Topo, Sym::UpA, Sym::DownA, Sym::DownB, Sym::Recv];

impl Sym {
    fn name(self) -> &'static str {
        match self {
            Sym::FullR => "merge_metadata(+responder)",
            Sym::Full => "merge_metadata",
            Sym::Topo => "merge_topology_update",
            Sym::RoutesA => "merge_client_routes_update(A)",
            Sym::RoutesB => "merge_client_routes_update(B)",
            Sym::RoutesC => "merge_client_routes_update(C)",
            Sym::RoutesD => "merge_client_routes_update(D)",
            Sym::UpA => "merge_up_hint(a)",
            Sym::DownA => "merge_down_hint(a)",
            Sym::DownB => "merge_down_hint(b)",
            Sym::Recv => "recv",
        }
    }
    fn parse(s: &str) -> Option<Sym> {
        ALL.iter().copied().find(|x| x.name() == s)
    }
}

/// What the cluster worker would have published (topology, schema, name, routes).
#[derive(Clone, Debug, Default, PartialEq, Eq)]
struct Published {
    peers: Option<Vec<u32>>,
    keyspaces: Option<Vec<String>>,
    cluster_name: Option<String>,
    routes: BTreeMap<(u32, String), u16>,
}
impl Published {
    fn full(&mut self, p: &FullPayload) {
        self.peers = Some(p.peers.clone());
        let mut ks = p.keyspaces.clone();
        ks.sort();
        self.keyspaces = Some(ks);
        self.cluster_name = p.cluster_name.clone();
        if let Some(rs) = &p.client_routes {
            self.routes = rs.iter().map(|(h, c, port)| ((*h, c.clone()), *port)).collect();
        }
    }
    fn topology(&mut self, peers: &[u32]) {
        self.peers = Some(peers.to_vec());
    }
    fn routes(&mut self, entries: &[(u32, String, Option<u16>)]) {
        for (h, c, port) in entries {
            match port {
                Some(p) => {
                    self.routes.insert((*h, c.clone()), *p);
                }
                None => {
                    self.routes.remove(&(*h, c.clone()));
                }
            }
        }
    }
    /// the cluster worker's `apply_metadata_update`, on plain data
    fn apply(&mut self, u: &ReceivedUpdate) {
        match &u.changes {
            ReceivedChanges::None => {}
            ReceivedChanges::Full { payload, .. } => self.full(payload),
            ReceivedChanges::Partial { peers, client_routes } => {
                if let Some(r) = client_routes {
                    self.routes(r);
                }
                if let Some(p) = peers {
                    self.topology(p);
                }
            }
        }
    }
}

fn op_of(sym: Sym, n: u32, routes_configured: bool) -> MergeOp {
    let n16 = n as u16;
    match sym {
        Sym::FullR | Sym::Full => MergeOp::Full {
            payload: FullPayload {
                peers: vec![10 * n + 1, 10 * n + 2, 10 * n + 3],
                keyspaces: vec![format!("ks{n}"), "common".into()],
                cluster_name: Some(format!("cluster{n}")),
                client_routes: routes_configured.then(|| vec![(1, "c1".into(), 100 + n16), (2, "c1".into(), 200 + n16)]),
            },
            responder: (sym == Sym::FullR).then_some(n),
        },
        Sym::Topo => MergeOp::Topology { peers: vec![10 * n + 1, 10 * n + 2] },
        Sym::RoutesA => MergeOp::ClientRoutes { entries: vec![(1, "c1".into(), Some(1000 + n16)), (2, "c1".into(), None)] },
        Sym::RoutesB => MergeOp::ClientRoutes { entries: vec![(2, "c1".into(), Some(2000 + n16)), (3, "c2".into(), Some(3000 + n16))] },
        // differing sizes with overlapping keys: C lists one host, D three (upserts and a removal); content differs per fetch (port carries n)
        Sym::RoutesC => MergeOp::ClientRoutes { entries: vec![(1, "c1".into(), Some(1500 + n16))] },
        Sym::RoutesD => MergeOp::ClientRoutes { entries: vec![(1, "c1".into(), Some(4000 + n16)), (2, "c1".into(), Some(5000 + n16)), (3, "c2".into(), None)] },
        Sym::UpA => MergeOp::UpHint(1),
        Sym::DownA => MergeOp::DownHint(1),
        Sym::DownB => MergeOp::DownHint(2),
        Sym::Recv => unreachable!(),
    }
}

#[derive(Default)]
struct Stats {
    ops: AtomicU64,
    recvs_with_value: AtomicU64,
    coalesced_values: AtomicU64,
    partial_over_full: AtomicU64,
    full_over_partial: AtomicU64,
    multi_responder_values: AtomicU64,
    hints_overridden: AtomicU64,
    shapes: Mutex<BTreeSet<u64>>,
}

struct Run {
    trace: Vec<String>,
    complaint: Option<(&'static str, String)>,
}

/// One sequence on a fresh channel. `stats`: None in replay mode.
fn run_seq(seq: &[Sym], routes_configured: bool, stats: Option<&Stats>) -> Run {
    let mut bytes = vec![routes_configured as u8];
    bytes.extend(seq.iter().map(|s| ALL.iter().position(|x| x == s).unwrap() as u8));
    h_drv::watchdog::enter(&bytes);
    let run = run_seq_inner(seq, routes_configured, stats);
    h_drv::watchdog::leave();
    run
}

fn describe_hang(bytes: &[u8]) -> Value {
    let names: Vec<&str> = bytes.iter().skip(1).filter_map(|c| ALL.get(*c as usize)).map(|s| s.name()).collect();
    json!({"ops": names, "routes_configured": bytes.first().copied().unwrap_or(1) == 1, "note": "one of these channel calls does not return"})
}

fn run_seq_inner(seq: &[Sym], routes_configured: bool, stats: Option<&Stats>) -> Run {
    let mut ch = UpdateChannel::new();
    let mut eager = Published::default(); // every fetch result handed over one by one
    let mut actual = Published::default(); // what the received values add up to
    let mut n = 0u32;
    let mut since: Vec<Sym> = Vec::new(); // merges since the previous recv
    let mut owed: Vec<u32> = Vec::new(); // responders merged since the previous recv
    let mut hints: BTreeMap<u8, bool> = BTreeMap::new();
    let mut answered_ever: BTreeSet<u32> = BTreeSet::new();
    let mut run = Run { trace: Vec::new(), complaint: None };
    macro_rules! fail {
        ($key:expr, $($arg:tt)*) => {{
            let m = format!($($arg)*);
            run.trace.push(format!("!! {m}"));
            run.complaint = Some(($key, m));
            return run;
        }};
    }
    // the enumerated sequence, then: recv (drain), drop the sender, recv, recv
    let tail = [Sym::Recv];
    let mut steps: Vec<(Sym, u8)> = seq.iter().chain(tail.iter()).map(|s| (*s, 0u8)).collect();
    steps.push((Sym::Recv, 1)); // 1: drop the sender first
    steps.push((Sym::Recv, 2)); // 2: must be None (producer gone)
    for (sym, phase) in steps {
        if phase == 1 {
            ch.drop_sender();
            run.trace.push("drop(sender)".into());
        }
        if sym != Sym::Recv {
            n += 1;
            let op = op_of(sym, n, routes_configured);
            if ch.merge(&op).is_err() {
                fail!("modify-contract", "modify failed although the receiver is alive");
            }
            run.trace.push(format!("{} #{n}: {:?}", sym.name(), op));
            match &op {
                MergeOp::Full { payload, responder } => {
                    eager.full(payload);
                    if let Some(t) = responder {
                        owed.push(*t);
                    }
                    if since.iter().any(|s| matches!(s, Sym::Topo | Sym::RoutesA | Sym::RoutesB | Sym::RoutesC | Sym::RoutesD)) {
                        if let Some(st) = stats {
                            st.full_over_partial.fetch_add(1, Ordering::Relaxed);
                        }
                    }
                }
                MergeOp::Topology { peers } => {
                    eager.topology(peers);
                    if since.iter().any(|s| matches!(s, Sym::Full | Sym::FullR)) {
                        if let Some(st) = stats {
                            st.partial_over_full.fetch_add(1, Ordering::Relaxed);
                        }
                    }
                }
                MergeOp::ClientRoutes { entries } => {
                    if routes_configured {
                        eager.routes(entries)
                    }
                }
                MergeOp::UpHint(a) | MergeOp::DownHint(a) => {
                    if hints.insert(*a, matches!(op, MergeOp::UpHint(_))).is_some() {
                        if let Some(st) = stats {
                            st.hints_overridden.fetch_add(1, Ordering::Relaxed);
                        }
                    }
                }
            }
            since.push(sym);
            if let Some(st) = stats {
                st.ops.fetch_add(1, Ordering::Relaxed);
            }
            // no responder may ever be dropped, and none is answered before it is received
            for (t, s) in ch.responder_states() {
                match s {
                    ResponderState::Dropped => fail!("responder-dropped", "the refresh responder of fetch #{t} was dropped by a merge: that refresh_metadata() call gets an error / never sees its state"),
                    ResponderState::Answered if !answered_ever.contains(&t) => fail!("responder-answered-early", "responder #{t} was answered before any recv returned it"),
                    _ => {}
                }
            }
            continue;
        }
        // ---- recv
        let got = ch.recv_now();
        run.trace.push(format!("recv -> {got:?}"));
        let producer_gone = phase >= 1;
        match got {
            None => {
                if producer_gone {
                    fail!("recv-pending-with-value-or-sender-gone", "recv stayed pending although the sender is gone");
                }
                if !since.is_empty() {
                    fail!("update-lost", "recv found nothing although {} update(s) were merged since the previous recv: {:?}", since.len(), since.iter().map(|s| s.name()).collect::<Vec<_>>());
                }
            }
            Some(None) => {
                if !producer_gone {
                    fail!("none-while-sender-alive", "recv returned None although the sender is alive");
                }
                if !since.is_empty() {
                    fail!("none-before-last-value", "recv returned None with merged updates still unseen");
                }
            }
            Some(Some(u)) => {
                if since.is_empty() {
                    fail!("observed-twice", "recv returned a value although nothing was merged since the previous recv: {u:?}");
                }
                if let Some(st) = stats {
                    st.recvs_with_value.fetch_add(1, Ordering::Relaxed);
                    if since.len() >= 2 {
                        st.coalesced_values.fetch_add(1, Ordering::Relaxed);
                    }
                    st.shapes.lock().unwrap().insert(vcore::fnv64(format!("{:?}|{}", since, routes_configured).as_bytes()));
                }
                actual.apply(&u);
                // responders
                let resp: Vec<u32> = match &u.changes {
                    ReceivedChanges::Full { responders, .. } => responders.clone(),
                    _ => vec![],
                };
                if resp.len() >= 2 {
                    if let Some(st) = stats {
                        st.multi_responder_values.fetch_add(1, Ordering::Relaxed);
                    }
                }
                let mut a = resp.clone();
                a.sort_unstable();
                let mut o = owed.clone();
                o.sort_unstable();
                if a != o {
                    fail!("responder-lost-or-duplicated", "refresh responders merged since the previous recv: {owed:?}; delivered in this value: {resp:?} (4294967295 = a sender that was not merged / a count mismatch)");
                }
                answered_ever.extend(resp);
                owed.clear();
                // hints: latest per address
                let want: Vec<(u8, bool)> = hints.iter().map(|(a, up)| (*a, *up)).collect();
                if u.hints != want {
                    fail!("hints-not-latest", "status hints in the received value {:?}, latest merged per address {:?} (address tag, is UP)", u.hints, want);
                }
                hints.clear();
                // per component: the latest fetched data
                if actual.peers != eager.peers {
                    fail!("topology-not-latest", "after this recv the consumer publishes peers {:?}; the latest fetched peer list is {:?}", actual.peers, eager.peers);
                }
                if actual.keyspaces != eager.keyspaces || actual.cluster_name != eager.cluster_name {
                    fail!("schema-not-latest", "after this recv the consumer publishes keyspaces {:?} / {:?}; the latest full fetch read {:?} / {:?}", actual.keyspaces, actual.cluster_name, eager.keyspaces, eager.cluster_name);
                }
                if actual.routes != eager.routes {
                    fail!("routes-not-latest", "after this recv the consumer's client routes are {:?}; applying every fetch result in order gives {:?}", actual.routes, eager.routes);
                }
                since.clear();
            }
        }
        for (t, s) in ch.responder_states() {
            if s == ResponderState::Dropped {
                fail!("responder-dropped", "the refresh responder of fetch #{t} was dropped");
            }
        }
    }
    if !since.is_empty() || !owed.is_empty() {
        fail!("update-lost", "updates merged but never received by the end: {:?}, responders {:?}", since.iter().map(|s| s.name()).collect::<Vec<_>>(), owed);
    }
    run
}

fn seq_of(mut idx: u64, len: usize, alphabet: &[Sym]) -> Vec<Sym> {
    let mut v = Vec::with_capacity(len);
    for _ in 0..len {
        v.push(alphabet[(idx % alphabet.len() as u64) as usize]);
        idx /= alphabet.len() as u64;
    }
    v
}

// ------------------------------------------------------------------------------------------------
// request side: FetchPlan
// ------------------------------------------------------------------------------------------------
#[derive(Clone, Copy, Debug, PartialEq, Eq)]
enum PlanSym {
    Full,
    Topo,
    Routes(u8),
    Drain,
}
const PLAN_ALL: [PlanSym; 8] = [PlanSym::Full, PlanSym::Topo, PlanSym::Routes(0), PlanSym::Routes(1), PlanSym::Routes(2), PlanSym::Routes(3), PlanSym::Routes(4), PlanSym::Drain];

/// client-routes pair sets of sizes 0..3: empty, {a}, {a,b} (superset of 1), {b,c} (disjoint from 1, overlaps 2), {a,b,c} (superset of all)
fn route_shape(i: u8) -> Vec<(String, u32)> {
    let (a, b, c) = (("c1".to_string(), 1u32), ("c1".to_string(), 2u32), ("c2".to_string(), 3u32));
    match i {
        0 => vec![],
        1 => vec![a],
        2 => vec![a, b],
        3 => vec![b, c],
        _ => vec![a, b, c],
    }
}
const ROUTE_NAMES: [&str; 5] = ["note_client_routes({})", "note_client_routes({a})", "note_client_routes({a,b})", "note_client_routes({b,c})", "note_client_routes({a,b,c})"];
impl PlanSym {
    fn name(self) -> &'static str {
        match self {
            PlanSym::Full => "note_full_needed",
            PlanSym::Topo => "note_topology",
            PlanSym::Routes(i) => ROUTE_NAMES[i as usize],
            PlanSym::Drain => "drain(start due fetches)",
        }
    }
}

/// Every piece of work noted since the last drain must still be owed (a full fetch covers all of it),
/// and nothing that was not noted may be owed.
fn run_plan(seq: &[PlanSym]) -> Result<(), (&'static str, String)> {
    let mut plan = hook::PlanProbe::new();
    let (mut full, mut topo, mut pairs): (bool, bool, BTreeSet<(String, u32)>) = (false, false, BTreeSet::new());
    for (i, s) in seq.iter().enumerate() {
        match s {
            PlanSym::Full => {
                plan.note_full_needed();
                full = true;
            }
            PlanSym::Topo => {
                plan.note_topology();
                topo = true;
            }
            PlanSym::Routes(i) => {
                let shape = route_shape(*i);
                plan.note_client_routes(&shape);
                pairs.extend(shape);
            }
            PlanSym::Drain => {
                plan.drain();
                (full, topo) = (false, false);
                pairs.clear();
            }
        }
        let d = plan.describe();
        let names: Vec<&str> = seq[..=i].iter().map(|s| s.name()).collect();
        if full {
            if !d.full {
                return Err(("plan-full-fetch-forgotten", format!("a full fetch was requested but the plan owes {d:?} after {names:?}")));
            }
        } else {
            if d.full {
                return Err(("plan-invented-work", format!("the plan owes a full fetch nobody asked for after {names:?}")));
            }
            let got: BTreeSet<(String, u32)> = d.client_routes.iter().cloned().collect();
            if d.topology != topo {
                return Err(("plan-topology-work-lost", format!("topology re-read noted: {topo}, owed by the plan: {} after {names:?}", d.topology)));
            }
            if got != pairs {
                return Err(("plan-routes-work-lost", format!("client-routes pairs noted {pairs:?}, owed by the plan {got:?} after {names:?}")));
            }
        }
    }
    Ok(())
}


// ------------------------------------------------------------------------------------------------
// request side, real starter step: FetchPlan + PendingFetches::start_due_fetches + completion
// ------------------------------------------------------------------------------------------------
#[derive(Clone, Copy, Debug, PartialEq, Eq)]
enum StSym {
    NoteFull,
    NoteTopo,
    NoteRoutes(u8),
    StartDue,
    DoneFull,
    DoneRoutes,
    DoneTopo,
}
const ST_ALL: [StSym; 11] = [StSym::NoteFull, StSym::NoteTopo, StSym::NoteRoutes(0), StSym::NoteRoutes(1), StSym::NoteRoutes(2), StSym::NoteRoutes(3), StSym::NoteRoutes(4), StSym::StartDue, StSym::DoneFull, StSym::DoneRoutes, StSym::DoneTopo];
impl StSym {
    fn name(self) -> &'static str {
        match self {
            StSym::NoteFull => "note_full_needed",
            StSym::NoteTopo => "TOPOLOGY_CHANGE event",
            StSym::NoteRoutes(i) => ["UPDATE_NODES event {}", "UPDATE_NODES event {a}", "UPDATE_NODES event {a,b}", "UPDATE_NODES event {b,c}", "UPDATE_NODES event {a,b,c}"][i as usize],
            StSym::StartDue => "start_due_fetches",
            StSym::DoneFull => "full fetch completes",
            StSym::DoneRoutes => "client-routes fetch completes",
            StSym::DoneTopo => "topology fetch completes",
        }
    }
}

/// Reference for the request side. `need_*`: work noted and not yet covered by a fetch STARTED after the note
/// (an owed full fetch covers all partial work noted before it starts). `fl_*`: fetches in flight.
#[derive(Clone, Debug, Default, PartialEq, Eq)]
struct StRef {
    need_full: bool,
    need_topo: bool,
    need_pairs: BTreeSet<(String, u32)>,
    /// a client-routes request is owed (possibly listing no pair at all: an empty event still owes a fetch)
    need_routes: bool,
    fl_full: bool,
    fl_routes: bool,
    fl_topo: bool,
}

/// None = the sequence uses a disabled step (a completion of something not in flight): not a case.
fn run_starter(seq: &[StSym], stats: Option<&AtomicU64>) -> Option<Result<(), (&'static str, String)>> {
    let mut p = hook::StarterProbe::new();
    let mut m = StRef::default();
    // the sequence, then quiesce: complete everything, start, until nothing moves
    let mut steps: Vec<StSym> = seq.to_vec();
    let tail_from = steps.len();
    for _ in 0..3 {
        steps.extend([StSym::StartDue, StSym::DoneFull, StSym::DoneRoutes, StSym::DoneTopo]);
    }
    steps.push(StSym::StartDue);
    for (i, s) in steps.iter().enumerate() {
        let in_tail = i >= tail_from;
        match s {
            StSym::NoteFull => {
                p.note_full_needed();
                m.need_full = true;
                m.need_topo = false;
                m.need_pairs.clear();
                m.need_routes = false;
            }
            StSym::NoteTopo => {
                p.topology_event();
                if !m.need_full {
                    m.need_topo = true;
                }
            }
            StSym::NoteRoutes(i) => {
                let pairs = route_shape(*i);
                p.client_routes_event(&pairs);
                if !m.need_full {
                    m.need_pairs.extend(pairs);
                    m.need_routes = true;
                }
            }
            StSym::StartDue => {
                p.start_due();
                // what the starter must do: work for a busy slot waits in the plan, everything else starts
                if m.need_full {
                    if !m.fl_full {
                        m = StRef { fl_full: true, ..StRef::default() };
                    }
                } else if !m.fl_full {
                    if m.need_routes && !m.fl_routes {
                        m.fl_routes = true;
                        m.need_routes = false;
                        m.need_pairs.clear();
                    }
                    if m.need_topo && !m.fl_topo {
                        m.fl_topo = true;
                        m.need_topo = false;
                    }
                }
            }
            StSym::DoneFull | StSym::DoneRoutes | StSym::DoneTopo => {
                let (which, flag) = match s {
                    StSym::DoneFull => (0u8, &mut m.fl_full),
                    StSym::DoneRoutes => (1, &mut m.fl_routes),
                    _ => (2, &mut m.fl_topo),
                };
                if !*flag {
                    if in_tail {
                        continue;
                    }
                    return None;
                }
                *flag = false;
                if !p.complete(which) {
                    return Some(Err(("starter-completion", format!("completing fetch {which} was not reported by PendingFetches::poll after {:?}", seq.iter().map(|s| s.name()).collect::<Vec<_>>()))));
                }
            }
        }
        if let Some(c) = stats {
            c.fetch_add(1, Ordering::Relaxed);
        }
        let owed = p.owed();
        let fl = p.in_flight();
        let names: Vec<&str> = steps[..=i].iter().map(|s| s.name()).collect();
        let got_pairs: BTreeSet<(String, u32)> = owed.client_routes.iter().cloned().collect();
        if (fl.full, fl.client_routes, fl.topology) != (m.fl_full, m.fl_routes, m.fl_topo) {
            let key = if (fl.full && !m.fl_full) || (fl.client_routes && !m.fl_routes) || (fl.topology && !m.fl_topo) { "starter-invented-fetch" } else { "starter-owed-work-not-started" };
            return Some(Err((key, format!("fetches in flight {fl:?}, expected full={} client_routes={} topology={} after {names:?}", m.fl_full, m.fl_routes, m.fl_topo))));
        }
        if m.need_full != owed.full {
            let key = if m.need_full { "plan-full-fetch-forgotten" } else { "plan-invented-work" };
            return Some(Err((key, format!("full fetch still needed: {}, owed by the plan: {} after {names:?}", m.need_full, owed.full))));
        }
        if !owed.full {
            if m.need_topo != owed.topology {
                let key = if m.need_topo { "plan-topology-work-lost" } else { "plan-invented-work" };
                return Some(Err((key, format!("a peer-list re-read noted after the running topology fetch started is {}, the plan says owed: {} (in flight: {fl:?}) after {names:?}", if m.need_topo { "still needed" } else { "not needed" }, owed.topology))));
            }
            if m.need_pairs != got_pairs {
                let key = if got_pairs.is_subset(&m.need_pairs) { "plan-routes-work-lost" } else { "plan-invented-work" };
                return Some(Err((key, format!("client-routes pairs still needed {:?}, owed by the plan {got_pairs:?} (in flight: {fl:?}) after {names:?}", m.need_pairs))));
            }
        }
    }
    // quiesced: nothing in flight, nothing owed, nothing needed
    if m != StRef::default() {
        return Some(Err(("machinery:reference-did-not-quiesce", format!("{m:?}"))));
    }
    Some(Ok(()))
}

fn main() {
    h_drv::watchdog::guard("C19", "update-merge", "model_checking", "E-ENUM", "poll:does-not-return");
    h_drv::watchdog::start_monitor(std::time::Duration::from_secs(10), describe_hang);
    vcore::quiet_panics();
    let r = Report::new("C19", "update-merge", "model_checking", "E-ENUM");
    if let Some(case) = r.replay_case() {
        if let Some(p) = case["starter_ops"].as_array() {
            let seq: Vec<StSym> = p.iter().filter_map(|x| ST_ALL.iter().copied().find(|s| Some(s.name()) == x.as_str())).collect();
            println!("replaying worker steps {:?} (then: start / complete everything until quiet)", seq.iter().map(|s| s.name()).collect::<Vec<_>>());
            match run_starter(&seq, None) {
                Some(Err((k, w))) => {
                    println!("  !! {w}");
                    r.violation(k, &w, case.clone());
                }
                Some(Ok(())) => {}
                None => vcore::machinery_error("replay case contains a disabled step"),
            }
            r.finish_replay();
        }
        if let Some(p) = case["plan_ops"].as_array() {
            let seq: Vec<PlanSym> = p.iter().filter_map(|x| PLAN_ALL.iter().copied().find(|s| Some(s.name()) == x.as_str())).collect();
            println!("replaying FetchPlan steps {:?}", seq.iter().map(|s| s.name()).collect::<Vec<_>>());
            if let Err((k, w)) = run_plan(&seq) {
                println!("  !! {w}");
                r.violation(k, &w, case.clone());
            }
            r.finish_replay();
        }
        let seq: Vec<Sym> = case["ops"].as_array().map(|a| a.iter().filter_map(|x| x.as_str().and_then(Sym::parse)).collect()).unwrap_or_default();
        let rc = case["routes_configured"].as_bool().unwrap_or(true);
        println!("replaying {} steps on a fresh merge_channel::<MetadataUpdate>() (then recv, drop sender, recv, recv)", seq.len());
        let run = run_seq(&seq, rc, None);
        for l in &run.trace {
            println!("  {l}");
        }
        if let Some((k, w)) = run.complaint {
            r.violation(k, &w, case.clone());
        }
        r.finish_replay();
    }
    let jobs = r.args.jobs;
    let max_len = r.args.extra_value("--len").and_then(|s| s.parse().ok()).unwrap_or(r.tier().pick(6usize, 7usize));
    let stats = Stats::default();
    let seqs = AtomicU64::new(0);
    for (alphabet, rc, lens) in [(&ALL[..], true, 0..=max_len), (&NO_ROUTES[..], false, 1..=max_len.min(r.tier().pick(5, 6)))] {
        for len in lens {
            let total = (alphabet.len() as u64).pow(len as u32);
            vcore::par::for_range(jobs, total.div_ceil(4096), |chunk| {
                for i in chunk * 4096..((chunk + 1) * 4096).min(total) {
                    let seq = seq_of(i, len, alphabet);
                    let run = run_seq(&seq, rc, Some(&stats));
                    seqs.fetch_add(1, Ordering::Relaxed);
                    if let Some((k, w)) = run.complaint {
                        let names: Vec<&str> = seq.iter().map(|s| s.name()).collect();
                        r.violation(k, &format!("{w} - after {names:?} (routes configured: {rc})"), json!({"ops": names, "routes_configured": rc, "len": len, "trace": run.trace}));
                    }
                }
            });
            if r.violation_count() > 0 {
                break; // simplest first: shorter sequences already fail
            }
        }
    }
    // request side
    let plan_len = r.tier().pick(6usize, 8usize);
    let plans = AtomicU64::new(0);
    for len in 0..=plan_len {
        let total = (PLAN_ALL.len() as u64).pow(len as u32);
        vcore::par::for_range(jobs, total.div_ceil(4096), |chunk| {
            for i in chunk * 4096..((chunk + 1) * 4096).min(total) {
                let mut idx = i;
                let seq: Vec<PlanSym> = (0..len)
                    .map(|_| {
                        let s = PLAN_ALL[(idx % 8) as usize];
                        idx /= 8;
                        s
                    })
                    .collect();
                plans.fetch_add(1, Ordering::Relaxed);
                if let Err((k, w)) = run_plan(&seq) {
                    r.violation(k, &w, json!({"plan_ops": seq.iter().map(|s| s.name()).collect::<Vec<_>>()}));
                }
            }
        });
    }
    // request side with the REAL starter step and completion handling
    let st_len = r.args.extra_value("--starter-len").and_then(|s| s.parse().ok()).unwrap_or(r.tier().pick(6usize, 7usize));
    let starters = AtomicU64::new(0);
    let starter_steps = AtomicU64::new(0);
    for len in 0..=st_len {
        let total = (ST_ALL.len() as u64).pow(len as u32);
        vcore::par::for_range(jobs, total.div_ceil(4096), |chunk| {
            for i in chunk * 4096..((chunk + 1) * 4096).min(total) {
                let mut idx = i;
                let seq: Vec<StSym> = (0..len)
                    .map(|_| {
                        let s = ST_ALL[(idx % 11) as usize];
                        idx /= 11;
                        s
                    })
                    .collect();
                match run_starter(&seq, Some(&starter_steps)) {
                    None => {}
                    Some(res) => {
                        starters.fetch_add(1, Ordering::Relaxed);
                        if let Err((k, w)) = res {
                            if k.starts_with("machinery") {
                                vcore::machinery_error(&w);
                            }
                            r.violation(k, &w, json!({"starter_ops": seq.iter().map(|s| s.name()).collect::<Vec<_>>()}));
                        }
                    }
                }
            }
        });
        if r.violation_count() > 0 {
            break;
        }
    }
    r.eval(starters.load(Ordering::Relaxed));
    r.counters.add("starter_sequences(real start_due_fetches + poll)", starters.load(Ordering::Relaxed));
    r.counters.add("starter_steps_applied", starter_steps.load(Ordering::Relaxed));
    r.note("starter_max_length", json!(st_len));
    use Ordering::Relaxed;
    let n_seq = seqs.load(Relaxed);
    let shapes = stats.shapes.lock().unwrap().len() as u64;
    r.eval(n_seq + plans.load(Relaxed));
    r.states.store(shapes, Relaxed);
    r.transitions.store(stats.ops.load(Relaxed) + stats.recvs_with_value.load(Relaxed) + starter_steps.load(Relaxed), Relaxed);
    r.traces_validated.store(0, Relaxed);
    r.nontrivial(shapes);
    for (k, v) in [
        ("sequences", n_seq),
        ("fetch_plan_sequences", plans.load(Relaxed)),
        ("merge_ops_applied", stats.ops.load(Relaxed)),
        ("recvs_returning_a_value", stats.recvs_with_value.load(Relaxed)),
        ("values_coalesced_from_2plus_merges", stats.coalesced_values.load(Relaxed)),
        ("partial_topology_merged_into_pending_full", stats.partial_over_full.load(Relaxed)),
        ("full_merged_over_pending_partial", stats.full_over_partial.load(Relaxed)),
        ("values_carrying_2plus_responders", stats.multi_responder_values.load(Relaxed)),
        ("hints_overridden_by_a_later_hint", stats.hints_overridden.load(Relaxed)),
    ] {
        r.counters.add(k, v);
    }
    r.note("max_sequence_length", json!(max_len));
    r.note("fetch_plan_max_length", json!(plan_len));
    let demo = run_seq(&[Sym::FullR, Sym::Topo, Sym::RoutesA, Sym::DownA, Sym::UpA], true, None);
    r.sample(json!({"ops": ["merge_metadata(+responder)", "merge_topology_update", "merge_client_routes_update(A)", "merge_down_hint(a)", "merge_up_hint(a)"], "trace": demo.trace}));
    r.set_rule(
        "E-ENUM through the real merge closures and channel: every word of length <= max_sequence_length over {merge_metadata with/without responder, merge_topology_update, \
         4 x merge_client_routes_update (1, 2, 2 and 3 hosts, overlapping keys, differing content, removals), up/down hints on 2 addresses, recv} (+ the no-client-routes session: 7 symbols), each followed by recv / drop sender / recv / recv. \
         transitions = merge operations applied + values received; states = distinct_nontrivial = distinct multisets-in-order of merges that were coalesced into ONE received value \
         (distinct pending-value histories); traces_validated_against_impl = 0 (single-threaded, deterministic, no schedule to replay). Request side: every word of length <= \
         fetch_plan_max_length over FetchPlan::{note_full_needed, note_topology, note_client_routes with the same five pair sets, drain}; and every word of length <= starter_max_length over \
         {note_full_needed, a TOPOLOGY_CHANGE event and CLIENT_ROUTES_CHANGE:UPDATE_NODES events listing 0..3 pairs (empty, {a}, {a,b}, {b,c}, {a,b,c}: disjoint, overlapping, subset, superset - all through the production MetadataWorker::handle_server_event), the production PendingFetches::start_due_fetches, completion of the full / client-routes / topology fetch \
         through the production PendingFetches::poll} (words completing a fetch that is not in flight are skipped), each followed by start/complete-all until quiet: after \
         every step the plan owes exactly the work noted and not yet covered by a fetch started after the note, and the in-flight set is exactly what the starter must have started.",
    );
    r.set_exhaustive(true);
    r.assume("the consumer side is the cluster worker's apply_metadata_update reduced to plain data (full: replace topology/schema/routes; partial: replace peers, upsert/remove routes); building a real ClusterState is C04/C12 territory");
    r.assume("request side covers FetchPlan merging and the starter / completion steps on stand-in fetch futures (the real query futures are created by the production code on a placeholder control connection and dropped unpolled); how work_on_cc reacts to a fetch OUTCOME (e.g. a failed partial fetch owes a full one) is inline in its select loop and not reached; that every pending RefreshRequest is eventually attached to a publish_metadata call runs through the control-connection loops and is exercised by the E-MOCK leg, not here");
    let _: Value = json!(null);
    r.finish();
}
