//! C03 (leg hasher) - routing token equals the server-side partitioner's token, independent of chunking.
//! Engine E-ENUM against `cqlref::murmur3` (one-shot Cassandra-variant Murmur3 over a contiguous
//! buffer; CDC token). For every (byte pattern, length L) the real streaming hashers
//! (`Murmur3Partitioner`, `CDCPartitioner`, and the `PartitionerName` enum dispatch the request path
//! uses) are fed the same bytes in
//!   * every composition of L for L <= all_max (2^(L-1) chunkings), also with empty writes interleaved,
//!   * every split into three chunks (empty chunks allowed: includes all 2-chunk splits) for larger L,
//!   * uniform chunk streams, 16-multiple +-1 cut sets and single-byte cuts around every 16-byte boundary,
//! and must produce the reference token at the end *and after every prefix* (`finish` is documented as
//! callable at any point and must not disturb the state).
use scylla::routing::Token;
use scylla::routing::partitioner::{CDCPartitioner, Murmur3Partitioner, Partitioner, PartitionerHasher, PartitionerName};
use serde_json::{Value, json};
use std::collections::BTreeSet;
use std::sync::atomic::{AtomicU64, Ordering};
use vcore::{Report, catch};

const MAXLEN: usize = 257;

#[derive(Clone, Copy, PartialEq, Eq, Debug)]
enum Part {
    Murmur3,
    Cdc,
}
impl Part {
    fn name(self) -> &'static str {
        match self {
            Part::Murmur3 => "murmur3",
            Part::Cdc => "cdc",
        }
    }
    fn reference(self, key: &[u8]) -> i64 {
        match self {
            Part::Murmur3 => cqlref::murmur3::murmur3_token(key),
            Part::Cdc => cqlref::murmur3::cdc_token(key),
        }
    }
}

/// Which driver entry point builds the hasher.
#[derive(Clone, Copy, PartialEq, Eq, Debug)]
enum Path {
    Concrete,
    Enum,
}

fn pattern_stream(name: &str, seed: u64) -> Vec<u8> {
    let mut v = vec![0u8; MAXLEN];
    match name {
        "zero" => {}
        "ff" => v.fill(0xff),
        "80" => v.fill(0x80),
        "asc7e" => {
            for (i, b) in v.iter_mut().enumerate() {
                *b = (0x7e + i) as u8;
            }
        }
        "alt7f80" => {
            for (i, b) in v.iter_mut().enumerate() {
                *b = if i % 2 == 0 { 0x7f } else { 0x80 };
            }
        }
        "min8" => {
            // first 8 bytes big-endian i64::MIN (CDC: must be normalised to MAX), then ascending
            v[0] = 0x80;
            for (i, b) in v.iter_mut().enumerate().skip(8) {
                *b = i as u8;
            }
        }
        "max8" => {
            v[0] = 0x7f;
            for b in v.iter_mut().take(8).skip(1) {
                *b = 0xff;
            }
        }
        _ => vcore::Rng::new(seed).fill(&mut v),
    }
    v
}

/// Per work unit accumulator (flushed once; the shared counters take a lock).
#[derive(Default)]
struct Local {
    evals: u64,
    nontrivial: u64,
    writes: u64,
    classes: [u64; 12],
    /// smallest failing size already reported per key by this work unit (avoids the global lock)
    reported: Vec<(String, (usize, usize))>,
}

/// Smallest counterexample per key (work units run longest-first for load balance, so the first
/// failure seen is not the smallest): ordered by (length, number of chunks).
type Best = std::sync::Mutex<std::collections::BTreeMap<String, (usize, usize, String, Value)>>;

struct Ctx<'a> {
    r: &'a Report,
    best: &'a Best,
    classes: &'a [AtomicU64; 12], // 768 bits: (fill 0..15, len%16, min(len/16,2))
}

fn class_of(fill: usize, len: usize) -> u16 {
    (fill * 48 + (len % 16) * 3 + (len / 16).min(2)) as u16
}

fn run_hasher<H: PartitionerHasher>(mut h: H, data: &[u8], chunks: &[usize], refs: &[i64], empties: bool) -> Result<(), (String, String)> {
    // initial finish on the untouched hasher
    let t0 = h.finish().value();
    if t0 != refs[0] {
        return Err(("prefix-finish".into(), format!("finish() before any write = {t0}, reference for the empty key {}", refs[0])));
    }
    let mut pos = 0usize;
    for &c in chunks {
        if empties {
            h.write(&[]);
        }
        h.write(&data[pos..pos + c]);
        pos += c;
        let t = h.finish().value();
        if t != refs[pos] {
            let kind = if pos == data.len() { "token-mismatch" } else { "prefix-finish" };
            return Err((kind.into(), format!("after {pos} of {} bytes: driver token {t}, server-side reference {}", data.len(), refs[pos])));
        }
    }
    if empties {
        h.write(&[]);
        let t = h.finish().value();
        if t != refs[pos] {
            return Err(("token-mismatch".into(), format!("after a trailing empty write: driver token {t}, reference {}", refs[pos])));
        }
    }
    Ok(())
}

#[allow(clippy::too_many_arguments)]
fn check(ctx: &Ctx, part: Part, path: Path, pat: &str, seed: u64, data: &[u8], chunks: &[usize], refs: &[i64], empties: bool, local: &mut Local) {
    debug_assert_eq!(chunks.iter().sum::<usize>(), data.len());
    local.evals += 1;
    // coverage bookkeeping (murmur3 buffer: fill = bytes so far mod 16)
    let mut pos = 0usize;
    let mut phase1 = false;
    for &c in chunks {
        let fill = pos % 16;
        let cl = class_of(fill, c);
        local.classes[cl as usize / 64] |= 1 << (cl % 64);
        match part {
            Part::Murmur3 if fill > 0 && fill + c >= 16 => phase1 = true,
            // CDC: a write that starts inside the 8-byte buffer and runs past its end
            Part::Cdc if pos > 0 && pos < 8 && pos + c > 8 => phase1 = true,
            _ => {}
        }
        pos += c;
        local.writes += 1;
    }
    if phase1 && chunks.len() >= 2 {
        local.nontrivial += 1;
    }
    let res = catch(|| match (part, path) {
        (Part::Murmur3, Path::Concrete) => run_hasher(Murmur3Partitioner.build_hasher(), data, chunks, refs, empties),
        (Part::Murmur3, Path::Enum) => run_hasher(PartitionerName::Murmur3.build_hasher(), data, chunks, refs, empties),
        (Part::Cdc, Path::Concrete) => run_hasher(CDCPartitioner.build_hasher(), data, chunks, refs, empties),
        (Part::Cdc, Path::Enum) => run_hasher(PartitionerName::CDC.build_hasher(), data, chunks, refs, empties),
    });
    let case = || json!({"leg":"hasher","partitioner":part.name(),"path":format!("{path:?}"),"pattern":pat,"pattern_seed":seed as i64,"data_hex":vcore::hex(data),"chunks":chunks,"empty_writes_interleaved":empties});
    let (key, what) = match res {
        Ok(Ok(())) => return,
        Ok(Err((kind, what))) => (
            format!("hasher:{}:{kind}", part.name()),
            format!("{} hasher ({path:?}) fed {} bytes of pattern {pat} as chunks {:?}{}: {what}", part.name(), data.len(), chunks, if empties { " with empty writes interleaved" } else { "" }),
        ),
        Err(p) => (format!("hasher:{}:panic", part.name()), format!("{} hasher ({path:?}) panicked on {} bytes of pattern {pat} as chunks {:?}: {p}", part.name(), data.len(), chunks)),
    };
    let size = (data.len(), chunks.len());
    match local.reported.iter_mut().find(|(k, _)| *k == key) {
        Some((_, best)) if *best <= size => return,
        Some((_, best)) => *best = size,
        None => local.reported.push((key.clone(), size)),
    }
    let mut g = ctx.best.lock().unwrap();
    match g.get(&key) {
        Some((l, n, _, _)) if (*l, *n) <= size => {}
        _ => {
            g.insert(key, (size.0, size.1, what, case()));
        }
    }
}

fn report_best(r: &Report, best: &Best) {
    for (key, (_, _, what, case)) in best.lock().unwrap().iter() {
        r.violation(key, what, case.clone());
    }
}

fn flush(ctx: &Ctx, local: Local) {
    ctx.r.eval(local.evals);
    ctx.r.nontrivial(local.nontrivial);
    ctx.r.counters.add("hasher_writes", local.writes);
    for (i, b) in local.classes.iter().enumerate() {
        ctx.classes[i].fetch_or(*b, Ordering::Relaxed);
    }
}

/// All chunkings of the tier's menu for one (partitioner, pattern, L).
#[allow(clippy::too_many_arguments)]
fn unit(ctx: &Ctx, part: Part, pat: &str, seed: u64, stream: &[u8], refs: &[i64], l: usize, all_max: usize, four_max: usize) {
    let data = &stream[..l];
    let mut local = Local::default();
    let mut chunks: Vec<usize> = Vec::with_capacity(l + 1);
    for path in [Path::Concrete, Path::Enum] {
        if l == 0 {
            check(ctx, part, path, pat, seed, data, &[], refs, false, &mut local);
            check(ctx, part, path, pat, seed, data, &[0], refs, false, &mut local);
            check(ctx, part, path, pat, seed, data, &[0, 0], refs, true, &mut local);
            continue;
        }
        if l <= all_max {
            // every composition: bit i of m set = cut after byte i+1
            for m in 0u64..(1u64 << (l - 1)) {
                chunks.clear();
                let mut last = 0usize;
                for i in 0..l - 1 {
                    if m >> i & 1 == 1 {
                        chunks.push(i + 1 - last);
                        last = i + 1;
                    }
                }
                chunks.push(l - last);
                check(ctx, part, path, pat, seed, data, &chunks, refs, false, &mut local);
                if l <= 10 {
                    check(ctx, part, path, pat, seed, data, &chunks, refs, true, &mut local);
                }
            }
        } else {
            // every split into three chunks, empty chunks allowed (covers all 2-chunk splits)
            for a in 0..=l {
                for b in a..=l {
                    check(ctx, part, path, pat, seed, data, &[a, b - a, l - b], refs, false, &mut local);
                }
            }
            if l <= four_max {
                for a in 1..l {
                    for b in a + 1..l {
                        for c in b + 1..l {
                            check(ctx, part, path, pat, seed, data, &[a, b - a, c - b, l - c], refs, false, &mut local);
                        }
                    }
                }
            }
            // uniform chunk streams
            for s in [1usize, 2, 3, 7, 8, 9, 15, 16, 17, 31, 32, 33, 47, 48, 49, 64] {
                chunks.clear();
                let mut left = l;
                while left > 0 {
                    let c = s.min(left);
                    chunks.push(c);
                    left -= c;
                }
                check(ctx, part, path, pat, seed, data, &chunks, refs, false, &mut local);
                check(ctx, part, path, pat, seed, data, &chunks, refs, true, &mut local);
            }
            // a first chunk of d bytes, then 16-byte chunks: cuts at every 16k+d
            for d in [1usize, 2, 8, 14, 15, 17, 18, 31] {
                if d >= l {
                    continue;
                }
                chunks.clear();
                chunks.push(d);
                let mut left = l - d;
                while left > 0 {
                    let c = 16.min(left);
                    chunks.push(c);
                    left -= c;
                }
                check(ctx, part, path, pat, seed, data, &chunks, refs, false, &mut local);
            }
            // single-byte cuts around each 16-byte boundary: [16k-1][1][1][rest], and with the rest in 16s
            let mut k = 16usize;
            while k < l {
                if k + 1 <= l {
                    let rest = l - (k + 1);
                    check(ctx, part, path, pat, seed, data, &[k - 1, 1, 1, rest], refs, false, &mut local);
                    chunks.clear();
                    chunks.extend([k - 1, 1, 1]);
                    let mut left = rest;
                    while left > 0 {
                        let c = 16.min(left);
                        chunks.push(c);
                        left -= c;
                    }
                    check(ctx, part, path, pat, seed, data, &chunks, refs, false, &mut local);
                }
                k += 16;
            }
        }
    }
    flush(ctx, local);
}

fn replay(r: &Report, case: &Value) {
    let part = match case["partitioner"].as_str() {
        Some("murmur3") => Part::Murmur3,
        Some("cdc") => Part::Cdc,
        _ => vcore::machinery_error("replay: unknown partitioner"),
    };
    let path = if case["path"].as_str() == Some("Enum") { Path::Enum } else { Path::Concrete };
    let data = vcore::unhex(case["data_hex"].as_str().unwrap_or(""));
    let chunks: Vec<usize> = case["chunks"].as_array().map(|a| a.iter().map(|x| x.as_u64().unwrap_or(0) as usize).collect()).unwrap_or_default();
    if chunks.iter().sum::<usize>() != data.len() {
        vcore::machinery_error("replay: chunks do not add up to the data length");
    }
    let refs: Vec<i64> = (0..=data.len()).map(|n| part.reference(&data[..n])).collect();
    let classes: [AtomicU64; 12] = Default::default();
    let best: Best = Default::default();
    let ctx = Ctx { r, classes: &classes, best: &best };
    let mut local = Local::default();
    println!("replay: {} hasher via {path:?}, {} bytes, chunks {:?}; reference token {}", part.name(), data.len(), chunks, refs[data.len()]);
    check(&ctx, part, path, case["pattern"].as_str().unwrap_or("?"), 0, &data, &chunks, &refs, case["empty_writes_interleaved"].as_bool().unwrap_or(false), &mut local);
    flush(&ctx, local);
    report_best(r, &best);
}

fn main() {
    vcore::quiet_panics();
    let r = Report::new("C03", "hasher", "exploration", "E-ENUM");
    if let Some(case) = r.replay_case() {
        replay(&r, &case);
        r.finish_replay();
    }
    if let Err(e) = cqlref::murmur3::self_test() {
        vcore::machinery_error(&format!("cqlref::murmur3 fails its pinned vectors: {e}"));
    }
    let thorough = r.tier().is_thorough();
    let jobs = r.args.jobs;
    let all_max = r.tier().pick(20usize, 28usize); // every composition up to this length
    let four_max = r.tier().pick(40usize, 96usize); // every 4-chunk split up to this length (thorough)
    let cdc_all_max = r.tier().pick(18usize, 25usize);

    // token normalisation at the type the whole driver uses
    r.eval(3);
    if Token::new(i64::MIN).value() != i64::MAX || Token::new(i64::MAX).value() != i64::MAX || Token::new(i64::MIN + 1).value() != i64::MIN + 1 {
        r.violation("token:normalisation", "Token::new does not map Long.MIN_VALUE (and only it) to Long.MAX_VALUE", json!({"leg":"hasher","partitioner":"cdc","path":"Concrete","pattern":"min8","data_hex":"8000000000000000","chunks":[8]}));
    }

    let mut lengths: BTreeSet<usize> = (0..=70).collect();
    lengths.extend([79, 80, 81, 95, 96, 97, 127, 128, 129, 255, 256, 257]);
    let mut patterns: Vec<(String, u64)> = ["zero", "ff", "80", "asc7e", "alt7f80"].iter().map(|s| (s.to_string(), 0)).collect();
    let nrand = if thorough { 6 } else { 1 };
    for i in 0..nrand {
        patterns.push((format!("rand{i}"), r.args.seed ^ (0x9e37_79b9 + i as u64)));
    }
    let streams: Vec<(String, u64, Vec<u8>, Vec<i64>)> = patterns
        .iter()
        .map(|(p, s)| {
            let st = pattern_stream(p, *s);
            let refs = (0..=MAXLEN).map(|n| cqlref::murmur3::murmur3_token(&st[..n])).collect();
            (p.clone(), *s, st, refs)
        })
        .collect();
    let classes: [AtomicU64; 12] = Default::default();
    let best: Best = Default::default();
    let ctx = Ctx { r: &r, classes: &classes, best: &best };

    // vacuity evidence about the inputs themselves
    let mut distinct_tokens = BTreeSet::new();
    let mut quirk_matters = 0u64;
    for (_, _, st, refs) in &streams {
        for &l in &lengths {
            distinct_tokens.insert(refs[l]);
            if cqlref::murmur3::hash3_x64_128_canonical_h1(&st[..l]) as i64 != refs[l] {
                quirk_matters += 1;
            }
        }
    }
    r.counters.add("murmur3_distinct_reference_tokens", distinct_tokens.len() as u64);
    r.counters.add("murmur3_inputs_where_signed_tail_changes_the_token", quirk_matters);
    r.counters.add("murmur3_inputs", (streams.len() * lengths.len()) as u64);

    // ---- Murmur3: longest units first so the work queue balances
    let mut units: Vec<(usize, usize)> = Vec::new(); // (stream idx, L)
    for si in 0..streams.len() {
        for &l in &lengths {
            units.push((si, l));
        }
    }
    let cost = |l: usize| -> u64 { if l <= all_max { 1u64 << l.saturating_sub(1) } else { (l * l) as u64 / 2 + if l <= four_max { (l * l * l) as u64 / 6 } else { 0 } } };
    units.sort_by_key(|(_, l)| std::cmp::Reverse(cost(*l)));
    let ctx_ref = &ctx;
    let streams_ref = &streams;
    vcore::par::for_each(jobs, 1, units.into_iter(), |(si, l)| {
        let (p, s, st, refs) = &streams_ref[si];
        unit(ctx_ref, Part::Murmur3, p, *s, st, refs, l, all_max, four_max);
    });
    // ---- `Partitioner::hash_one` (the one-call entry point) on every input, all three partitioner types
    {
        let mut n = 0u64;
        for (p, sd, st, refs) in &streams {
            for &l in &lengths {
                let d = &st[..l];
                n += 3;
                let got = [Murmur3Partitioner.hash_one(d).value(), PartitionerName::Murmur3.hash_one(d).value()];
                let cdc = [CDCPartitioner.hash_one(d).value(), PartitionerName::CDC.hash_one(d).value()];
                if got.iter().any(|g| *g != refs[l]) {
                    r.violation("hasher:murmur3:hash_one", &format!("hash_one on {l} bytes of pattern {p}: {got:?}, reference {}", refs[l]), json!({"leg":"hasher","partitioner":"murmur3","path":"Concrete","pattern":p,"pattern_seed":*sd as i64,"data_hex":vcore::hex(d),"chunks":[l]}));
                }
                if cdc.iter().any(|g| *g != cqlref::murmur3::cdc_token(d)) {
                    r.violation("hasher:cdc:hash_one", &format!("CDC hash_one on {l} bytes of pattern {p}: {cdc:?}, reference {}", cqlref::murmur3::cdc_token(d)), json!({"leg":"hasher","partitioner":"cdc","path":"Concrete","pattern":p,"pattern_seed":*sd as i64,"data_hex":vcore::hex(d),"chunks":[l]}));
                }
            }
        }
        r.eval(n);
        r.counters.add("hash_one_calls", n);
    }
    // ---- long keys: a 16-bit length boundary inside / between chunks, thousands of blocks in one write
    {
        let big_len = 65536 + 16 + 9;
        let mut big = vec![0u8; big_len];
        vcore::Rng::new(r.args.seed ^ 0xb16).fill(&mut big);
        for (i, b) in big.iter_mut().enumerate() {
            if i % 3 == 0 {
                *b |= 0x80;
            }
        }
        let uniform = |s: usize| -> Vec<usize> {
            let mut v = vec![s; big_len / s];
            if big_len % s != 0 {
                v.push(big_len % s);
            }
            v
        };
        let splits: Vec<Vec<usize>> = vec![vec![big_len], vec![65535, big_len - 65535], vec![65536, big_len - 65536], vec![65537, big_len - 65537], vec![1, big_len - 1], vec![big_len - 1, 1], vec![15, 65521, big_len - 65536], uniform(4096), uniform(4097), uniform(65535), uniform(17)];
        for chunks in &splits {
            for path in [Path::Concrete, Path::Enum] {
                r.eval(1);
                let res = catch(|| {
                    let mut pos = 0usize;
                    let mut bad: Option<(usize, i64)> = None;
                    let mut feed = |h: &mut dyn FnMut(&[u8]) -> i64| {
                        for (ci, c) in chunks.iter().enumerate() {
                            let t = h(&big[pos..pos + c]);
                            pos += c;
                            // reference at a few boundaries only (each is a full one-shot hash)
                            if (ci < 3 || ci + 3 >= chunks.len()) && bad.is_none() && t != cqlref::murmur3::murmur3_token(&big[..pos]) {
                                bad = Some((pos, t));
                            }
                        }
                    };
                    match path {
                        Path::Concrete => {
                            let mut h = Murmur3Partitioner.build_hasher();
                            feed(&mut |d| {
                                h.write(d);
                                h.finish().value()
                            });
                        }
                        Path::Enum => {
                            let mut h = PartitionerName::Murmur3.build_hasher();
                            feed(&mut |d| {
                                h.write(d);
                                h.finish().value()
                            });
                        }
                    }
                    bad
                });
                let case = json!({"leg":"hasher","partitioner":"murmur3","path":format!("{path:?}"),"pattern":"long-key","pattern_seed":0,"data_hex":vcore::hex(&big),"chunks":chunks});
                match res {
                    Ok(None) => {}
                    Ok(Some((pos, t))) => r.violation("hasher:murmur3:long-key", &format!("{big_len}-byte key as {} chunks (first {:?}): after {pos} bytes driver token {t}, reference {}", chunks.len(), &chunks[..chunks.len().min(3)], cqlref::murmur3::murmur3_token(&big[..pos])), case),
                    Err(p) => r.violation("hasher:murmur3:panic", &format!("{big_len}-byte key as {} chunks panicked: {p}", chunks.len()), case),
                }
            }
        }
        r.counters.add("long_key_chunkings", 2 * splits.len() as u64);
    }
    // ---- constructed preimages: keys whose RAW Murmur3 h1 is exactly Long.MIN_VALUE (must come out as
    // Long.MAX_VALUE) and the neighbouring boundary values; one block (all compositions) and two blocks
    let before_pre = r.evaluations.load(Ordering::Relaxed);
    let n_free = r.tier().pick(64u64, 1024u64);
    let mut pre_streams: Vec<(String, u64, Vec<u8>, Vec<i64>)> = Vec::new();
    let mut raw_min = 0u64;
    for target in [i64::MIN, i64::MIN + 1, i64::MAX, -1, 0] {
        for i in 0..n_free {
            let free = (i + 1).wrapping_mul(0x9e37_79b9_7f4a_7c15) ^ (target as u64).rotate_left(17);
            let mut datas = vec![cqlref::murmur3::invert_block16(target, free).to_vec()];
            if i < 8 {
                let prefix: Vec<u8> = (0..16).map(|j| (0x80 + 11 * j + i) as u8).collect();
                let mut two = prefix.clone();
                two.extend_from_slice(&cqlref::murmur3::invert_last_block(&prefix, target, free));
                datas.push(two);
            }
            for d in datas {
                if cqlref::murmur3::hash3_x64_128(&d).0 as i64 != target {
                    vcore::machinery_error("constructed preimage does not hash to its target");
                }
                if target == i64::MIN {
                    raw_min += 1;
                }
                let refs = (0..=d.len()).map(|n| cqlref::murmur3::murmur3_token(&d[..n])).collect();
                pre_streams.push((format!("preimage-of-{target}"), i, d, refs));
            }
        }
    }
    let pre_ref = &pre_streams;
    vcore::par::for_each(jobs, 1, 0..pre_streams.len(), |k| {
        let (p, s, st, refs) = &pre_ref[k];
        unit(ctx_ref, Part::Murmur3, p, *s, st, refs, st.len(), all_max, four_max);
    });
    r.counters.add("murmur3_preimage_inputs", pre_streams.len() as u64);
    r.counters.add("murmur3_inputs_with_raw_hash_exactly_i64_min", raw_min);
    r.counters.add("murmur3_preimage_chunkings", r.evaluations.load(Ordering::Relaxed) - before_pre);
    let covered: u32 = classes.iter().map(|a| a.load(Ordering::Relaxed).count_ones()).sum();
    r.note("murmur3_transition_classes_exercised", json!(covered));
    r.note("murmur3_transition_classes_total", json!(768));
    if covered != 768 {
        vcore::machinery_error(&format!("coverage argument broken: only {covered} of 768 (buffer fill, chunk length mod 16, chunk blocks 0/1/2+) write transitions were exercised"));
    }

    // ---- CDC
    let cdc_patterns: Vec<(String, u64)> = ["zero", "ff", "80", "asc7e", "min8", "max8", "rand0", "rand1", "rand2"].iter().enumerate().map(|(i, s)| (s.to_string(), r.args.seed ^ (0xcdc + i as u64))).collect();
    let cdc_streams: Vec<(String, u64, Vec<u8>, Vec<i64>)> = cdc_patterns
        .iter()
        .map(|(p, s)| {
            let st = pattern_stream(p, *s);
            let refs = (0..=MAXLEN).map(|n| cqlref::murmur3::cdc_token(&st[..n])).collect();
            (p.clone(), *s, st, refs)
        })
        .collect();
    let cdc_classes: [AtomicU64; 12] = Default::default();
    let cdc_ctx = Ctx { r: &r, classes: &cdc_classes, best: &best };
    let mut cdc_units: Vec<(usize, usize)> = Vec::new();
    let mut cdc_lengths: BTreeSet<usize> = (0..=cdc_all_max).collect();
    cdc_lengths.extend([24, 32, 33]);
    let mut cdc_tokens = BTreeSet::new();
    for (si, (_, _, _, refs)) in cdc_streams.iter().enumerate() {
        for &l in &cdc_lengths {
            cdc_units.push((si, l));
            cdc_tokens.insert(refs[l]);
        }
    }
    r.counters.add("cdc_distinct_reference_tokens", cdc_tokens.len() as u64);
    if !cdc_tokens.contains(&i64::MAX) || !cdc_tokens.contains(&i64::MIN) {
        vcore::machinery_error("CDC alphabet lost its boundary tokens (MIN for short keys, MAX for the normalised MIN)");
    }
    cdc_units.sort_by_key(|(_, l)| std::cmp::Reverse(*l));
    let cdc_ctx_ref = &cdc_ctx;
    let cdc_streams_ref = &cdc_streams;
    let before = r.evaluations.load(Ordering::Relaxed);
    vcore::par::for_each(jobs, 1, cdc_units.into_iter(), |(si, l)| {
        let (p, s, st, refs) = &cdc_streams_ref[si];
        unit(cdc_ctx_ref, Part::Cdc, p, *s, st, refs, l, cdc_all_max, 0);
    });
    r.counters.add("cdc_chunkings", r.evaluations.load(Ordering::Relaxed) - before);
    r.counters.add("murmur3_chunkings_incl_preimages", before);

    report_best(&r, &best);
    r.set_rule(&format!(
        "E-ENUM. Murmur3: {} byte patterns (0x00.., 0xFF.., 0x80.., ascending from 0x7E, alternating 0x7F/0x80, seeded fills) x lengths 0..=70 u {{79,80,81,95,96,97,127,128,129,255,256,257}}; every composition of L for L<={all_max} (also with empty writes interleaved for L<=10), every 3-chunk split with empty chunks allowed{} plus uniform chunk streams / 16k+d cut sets / single-byte cuts around each 16-byte boundary for larger L; plus Partitioner::hash_one on every input and a 65 561-byte key in 11 chunkings around the 65535/65536 boundary; plus constructed preimages (single-block inversion of Murmur3, cqlref::murmur3::invert_last_block): 16-byte keys (all compositions) and 32-byte keys whose RAW hash is exactly i64::MIN (token must be i64::MAX), MIN+1, MAX, -1, 0, with many different free h2 values; both the concrete hasher and the PartitionerName enum dispatch; finish() compared with the one-shot reference after EVERY prefix. CDC: 9 patterns (incl. first 8 bytes = i64::MIN / i64::MAX) x lengths 0..={cdc_all_max} u {{24,32,33}}, every composition. distinct_nontrivial = chunkings with >=2 chunks in which some write starts at a non-zero buffer fill and completes a 16-byte block (CDC: starts inside the 8-byte buffer and runs past its end).",
        streams.len(),
        format!(", every 4-chunk split for L<={four_max}")
    ));
    r.set_exhaustive(true);
    r.note("all_compositions_up_to_len", json!(all_max));
    r.note("lengths", json!(lengths.len()));
    r.sample(json!({"partitioner":"murmur3","key":"kremówki","reference_token":cqlref::murmur3::murmur3_token("kremówki".as_bytes()),"chunks":[3,1,5]}));
    r.sample(json!({"partitioner":"murmur3","pattern":"80","len":17,"reference_token":cqlref::murmur3::murmur3_token(&[0x80;17]),"textbook_unsigned_tail_token":cqlref::murmur3::hash3_x64_128_canonical_h1(&[0x80;17]) as i64}));
    r.sample(json!({"partitioner":"cdc","data_hex":"8000000000000000","reference_token":i64::MAX,"note":"Long.MIN_VALUE normalised"}));
    r.assume("CDC keys are 16-byte stream ids; for other lengths >= 8 the reference follows the ScyllaDB revision the driver cites (first 8 bytes big-endian), shorter keys get the minimum token");
    r.finish();
}
