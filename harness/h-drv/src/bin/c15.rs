//! C15 - the tablet map of a table stays a set of disjoint ranges with latest-wins lookup.
//! Engine E-BFS (explicit-state, to a FIXPOINT) over the real `TabletsInfo` inside a real
//! `ClusterState` (hook H-TABLETS), against `cqlref::tablets::RefMap`.
//!   stage bfs-one   : one table, token universe U (quick 5, thorough 7 boundary tokens), inserts of every
//!                     [a,b] in U x 3 replica sets, refreshes with every combination of topology changes
//!   stage bfs-two   : a table and a materialized view over 3 tokens (hidden-flag interplay across tables)
//!   stage edge      : tiny universe, odd-but-legal replica lists (empty, same node twice, shard i32::MAX), all schemas
//!   stage audit     : recorded histories replayed through the production async constructors
//!   stage payload   : all (first,last) pairs over U u {MIN,MAX} x replica lists through the production parser
//!   stage walk      : long seeded walk over full i64 (thorough; sampled)
use h_drv::tabmodel::{Cfg, Ev, LABEL_A, LABEL_B, LABEL_C, LABEL_D, LABEL_X, Obj, Schema, TabModel, split_complaint, uuid_of};
use scylla::verif::tablets::{PayloadOutcome, World};
use serde_json::{Value, json};
use std::time::Duration;
use vcore::Report;
use vcore::bfs::{BfsOpts, BfsResult, bfs};

fn rsets() -> Vec<Vec<(u32, i32)>> {
    vec![
        vec![(LABEL_A, 0), (LABEL_B, 1)], // known nodes only, two datacenters
        vec![(LABEL_A, 1), (LABEL_X, 0)], // one uuid that never becomes known
        vec![(LABEL_C, 2), (LABEL_B, 0)], // C: leaves and re-joins (removed node / unknown that becomes known)
    ]
}

fn cfg_one(thorough: bool) -> Cfg {
    let universe = if thorough { vec![i64::MIN + 1, i64::MIN + 2, -1, 0, 1, i64::MAX - 1, i64::MAX] } else { vec![i64::MIN + 1, -1, 0, 1, i64::MAX] };
    Cfg {
        name: "one-table".into(),
        universe,
        probes: vec![-1000, 1000, i64::MIN],
        tables: vec![("t".into(), false)],
        schemas: if thorough { vec![Schema::AllPresent, Schema::Dropped(0), Schema::NotTabletBased, Schema::KeyspaceGone] } else { vec![Schema::AllPresent, Schema::Dropped(0)] },
        rsets: rsets(),
        combos: true,
        move_b: true,
        // quick: the joining/leaving node D lives in the table+view search only (same refresh combinations there)
        toggle_d: thorough,
        recreate_a: true,
        light_schema_combos: !thorough,
        audit_mod: if thorough { 40 } else { 30 },
        audit_cap: if thorough { 4000 } else { 400 },
        batch: if thorough { 3 } else { 2 },
        d_no_dc: false,
    }
}

fn cfg_two(thorough: bool) -> Cfg {
    Cfg {
        name: "table-and-view".into(),
        universe: if thorough { vec![i64::MIN + 1, 0, i64::MAX] } else { vec![i64::MIN + 1, i64::MAX] },
        probes: vec![i64::MAX - 1],
        // the same table name in two keyspaces; the second one is a materialized view
        tables: vec![("t".into(), false), ("ks2.t".into(), true)],
        schemas: vec![Schema::AllPresent, Schema::Dropped(0), Schema::Dropped(1), Schema::NotTabletBased],
        // here the never-known uuid is the ONLY replica: a tablet with an empty usable replica list
        // and a set with TWO uuids that may each be unknown or known (C and D join / leave independently or in one refresh)
        rsets: vec![vec![(LABEL_A, 0), (LABEL_B, 1)], vec![(LABEL_X, 0)], vec![(LABEL_C, 2), (LABEL_B, 0)], vec![(LABEL_C, 1), (LABEL_D, 3)]],
        combos: true,
        // B's datacenter move is left to the one-table search (keeps quick under a minute on a loaded machine, thorough within minutes)
        move_b: false,
        toggle_d: true,
        // quick: A's re-creation with a new address is left to the one-table search
        recreate_a: thorough,
        light_schema_combos: !thorough,
        audit_mod: 50,
        audit_cap: 300,
        batch: if thorough { 3 } else { 2 },
        d_no_dc: false,
    }
}

/// Odd-but-legal replica lists on a tiny universe, with every refresh combination and every schema
/// outcome: an EMPTY replica list (accepted by the parser: a tablet nobody serves, not "unresolved"),
/// the same node twice with two shards, the largest shard number.
fn cfg_edge() -> Cfg {
    Cfg {
        name: "edge-replica-lists".into(),
        universe: vec![i64::MIN + 1, i64::MAX],
        probes: vec![0, i64::MIN],
        tables: vec![("t".into(), false)],
        schemas: vec![Schema::AllPresent, Schema::Dropped(0), Schema::NotTabletBased, Schema::KeyspaceGone],
        rsets: vec![vec![], vec![(LABEL_A, 0), (LABEL_B, 1)], vec![(LABEL_A, 0), (LABEL_A, 7)], vec![(LABEL_B, i32::MAX)], vec![(LABEL_D, 0)]],
        combos: true,
        move_b: true,
        toggle_d: true,
        recreate_a: true,
        light_schema_combos: false,
        audit_mod: 20,
        audit_cap: 200,
        batch: 3,
        // D joins and leaves WITHOUT datacenter information: its replicas are in `all` but in no per-DC list
        d_no_dc: true,
    }
}

fn report_bfs(r: &Report, m: &TabModel, res: &BfsResult<u16>, stage: &str) {
    r.states.fetch_add(res.states, std::sync::atomic::Ordering::Relaxed);
    r.transitions.fetch_add(res.transitions, std::sync::atomic::Ordering::Relaxed);
    r.eval(res.transitions);
    r.counters.add(&format!("{stage}_states"), res.states);
    r.counters.add(&format!("{stage}_transitions"), res.transitions);
    r.counters.add(&format!("{stage}_max_depth"), res.max_depth as u64);
    r.counters.add(&format!("{stage}_fixpoint"), res.fixpoint as u64);
    r.counters.add(&format!("{stage}_events_per_state"), m.events().len() as u64);
    r.note(&format!("{stage}_states_per_depth"), json!(res.states_per_depth));
    if let Some(c) = &res.capped {
        r.note(&format!("{stage}_capped"), json!(c));
    }
    for v in &res.violations {
        let (key, text) = split_complaint(&v.what);
        let events = m.decode(&v.history);
        let hist: Vec<Value> = events.iter().map(|e| e.to_json()).collect();
        r.violation(&key, &format!("[{}] after {} events {:?}: {}", m.cfg.name, events.len(), events, text), json!({"leg":"bfs","cfg":m.cfg.to_json(),"events":hist}));
    }
    for h in res.sample_histories.iter().take(2) {
        r.sample(json!({"stage":stage,"deepest_state_history":m.decode(h).iter().map(|e| e.to_json()).collect::<Vec<_>>()}));
    }
}

/// Replay recorded histories through the production async constructors
/// (`ClusterState::new`, `new_updated`, `new_with_updated_topology`) and compare, after every event,
/// the canonical form with the synchronous twin's, plus all oracles.
fn audit(r: &Report, m: &TabModel, stage: &str) {
    let histories = std::mem::take(&mut *m.audit.lock().unwrap());
    let rt = tokio::runtime::Builder::new_current_thread().enable_all().build().unwrap();
    let mut steps = 0u64;
    for (i, h) in histories.iter().enumerate() {
        let res: Result<(), String> = rt.block_on(async {
            let mut sync = m.fresh();
            let topo = sync.topo;
            let world = World::new_production(&topo.nodes(), &h_drv_keyspaces(m)).await;
            let mut prod = Obj { world, reference: sync.reference.clone(), topo, history: vec![] };
            let mut schema = Schema::AllPresent;
            if m.canon_bytes(&sync) != m.canon_bytes(&prod) {
                return Err("audit|production ClusterState::new differs from the synchronous twin in the initial state".to_string());
            }
            for (k, ev) in h.iter().enumerate() {
                m.apply_ev(&mut sync, ev)?;
                m.apply_ev_production(&mut prod, ev, &mut schema, (i + k) % 2 == 0).await?;
                steps += 1;
                m.verify(&prod)?;
                if m.canon_bytes(&sync) != m.canon_bytes(&prod) {
                    return Err(format!("audit|after event {k} {ev:?} the production path and the synchronous twin differ"));
                }
            }
            Ok(())
        });
        r.traces_validated.fetch_add(1, std::sync::atomic::Ordering::Relaxed);
        if let Err(w) = res {
            let (key, text) = split_complaint(&w);
            if key == "audit" {
                vcore::machinery_error(&format!("production-path audit diverged on history {h:?}: {text}"));
            }
            r.violation(&key, &format!("[{} / production path] history {:?}: {}", m.cfg.name, h, text), json!({"leg":"bfs","cfg":m.cfg.to_json(),"events":h.iter().map(|e| e.to_json()).collect::<Vec<_>>(),"production":true}));
        }
    }
    r.counters.add(&format!("{stage}_audit_histories"), histories.len() as u64);
    r.counters.add(&format!("{stage}_audit_steps"), steps);
}

fn h_drv_keyspaces(m: &TabModel) -> Vec<scylla::verif::tablets::KeyspaceSpec> {
    h_drv::tabmodel::keyspaces(&m.cfg, Schema::AllPresent)
}

fn run_bfs(r: &Report, cfg: Cfg, stage: &str, wall: u64) -> (u64, u64) {
    let m = TabModel::new(cfg);
    let opts = BfsOpts { max_depth: 64, max_states: 20_000_000, wall: Duration::from_secs(wall), jobs: r.args.jobs, max_violations: 8 };
    let res = bfs(&m, &opts);
    report_bfs(r, &m, &res, stage);
    if res.violations.is_empty() {
        if !res.fixpoint {
            r.set_exhaustive(false);
        }
        if res.fixpoint && res.max_depth < 3 {
            vcore::machinery_error("vacuity: the frontier emptied at depth < 3");
        }
        audit(r, &m, stage);
    }
    (res.states, res.transitions)
}

// ---------------------------------------------------------------------------------------------
fn payload_stage(r: &Report, universe: &[i64]) {
    let mut toks: Vec<i64> = universe.to_vec();
    toks.extend([i64::MIN, i64::MAX]);
    toks.sort_unstable();
    toks.dedup();
    let u = |l: u32| *uuid_of(l).as_bytes();
    let lists: Vec<Vec<([u8; 16], i32)>> = vec![vec![], vec![(u(1), 0)], vec![(u(1), 3), (u(2), 0)], vec![(u(9), i32::MAX)], vec![(u(1), -1)], vec![(u(1), 0), (u(2), i32::MIN)]];
    let mut accepted = 0u64;
    let mut rejected = 0u64;
    for &first in &toks {
        for &last in &toks {
            for list in &lists {
                r.eval(1);
                let payload = cqlref::tablets::encode_payload(first, last, list);
                let case = json!({"leg":"payload","first":first,"last":last,"replicas":list.iter().map(|(u, s)| json!([vcore::hex(u), s])).collect::<Vec<_>>()});
                let got = match vcore::catch(|| World::parse_payload(&payload)) {
                    Ok(g) => g,
                    Err(p) => {
                        r.violation("payload:panic", &format!("parser panicked on ({first},{last}] {list:?}: {p}"), case);
                        continue;
                    }
                };
                let bad_shard = list.iter().any(|(_, s)| *s < 0);
                let want = match cqlref::tablets::payload_range(first, last) {
                    Some((f, l)) if !bad_shard => Some((f, l)),
                    _ => None,
                };
                match (&got, want) {
                    (PayloadOutcome::Accepted { first_token, last_token, replicas }, Some((f, l))) => {
                        accepted += 1;
                        let want_rep: Vec<(uuid::Uuid, u32)> = list.iter().map(|(u, s)| (uuid::Uuid::from_bytes(*u), *s as u32)).collect();
                        if (*first_token, *last_token) != (f, l) || *replicas != want_rep {
                            r.violation("payload:range", &format!("payload ({first},{last}] stored as [{first_token},{last_token}] replicas {replicas:?}; expected [{f},{l}] {want_rep:?}"), case);
                        }
                    }
                    (PayloadOutcome::Rejected(_), None) => rejected += 1,
                    (g, w) => r.violation("payload:acceptance", &format!("payload ({first},{last}] with {list:?}: parser said {g:?}, expected {}", if w.is_some() { "acceptance" } else { "rejection" }), case),
                }
            }
        }
    }
    // every strict prefix of a valid payload must be rejected without a crash
    let valid = cqlref::tablets::encode_payload(-5, 5, &[(u(1), 1), (u(2), 2)]);
    for cut in 0..valid.len() {
        r.eval(1);
        match vcore::catch(|| World::parse_payload(&valid[..cut])) {
            Ok(PayloadOutcome::Rejected(_)) => rejected += 1,
            // CQL tuples may omit trailing fields (they read as null) and a null list reads as empty:
            // the value cut right after the two bigints is a well-formed tuple with no replicas
            Ok(PayloadOutcome::Accepted { first_token: -4, last_token: 5, replicas }) if cut == 24 && replicas.is_empty() => accepted += 1,
            Ok(o) => r.violation("payload:truncated-accepted", &format!("payload cut at {cut}/{} bytes gave {o:?}", valid.len()), json!({"leg":"payload_cut","cut":cut})),
            Err(p) => r.violation("payload:panic", &format!("parser panicked on payload cut at {cut}: {p}"), json!({"leg":"payload_cut","cut":cut})),
        }
    }
    // whole custom-payload maps: no tablets key -> nothing to learn; other keys around it do not matter
    {
        use std::collections::HashMap;
        let good = cqlref::tablets::encode_payload(-5, 5, &[(u(1), 1)]);
        let maps: Vec<(HashMap<String, Vec<u8>>, bool)> = vec![
            (HashMap::new(), false),
            (HashMap::from([("other".to_string(), good.clone())]), false),
            (HashMap::from([("tablets-routing-v2".to_string(), good.clone()), ("TABLETS-ROUTING-V1".to_string(), good.clone())]), false),
            (HashMap::from([("tablets-routing-v1".to_string(), good.clone())]), true),
            (HashMap::from([("tablets-routing-v1".to_string(), good.clone()), ("x".to_string(), vec![])]), true),
        ];
        for (m, has) in maps {
            r.eval(1);
            let got = World::parse_payload_map(&m);
            let ok = if has { matches!(got, PayloadOutcome::Accepted { first_token: -4, last_token: 5, .. }) } else { got == PayloadOutcome::NoPayload };
            if !ok {
                r.violation("payload:map", &format!("custom payload with keys {:?}: parser said {got:?}", m.keys().collect::<Vec<_>>()), json!({"leg":"payload","first":-5,"last":5,"replicas":[]}));
            }
        }
    }
    // a rejected payload leaves the map untouched
    let m = TabModel::new(cfg_two(false));
    let mut o = m.fresh();
    let _ = m.apply_ev(&mut o, &Ev::Learn { table: 0, a: 0, b: 1, r: 0 });
    let before = m.canon_bytes(&o);
    let out = o.world.learn_from_payload(h_drv::tabmodel::KS, "t", &cqlref::tablets::encode_payload(7, 7, &[(u(1), 0)]));
    r.eval(1);
    if !matches!(out, PayloadOutcome::Rejected(_)) || m.canon_bytes(&o) != before {
        r.violation("payload:rejected-changed-state", "an empty-range payload was applied or changed the stored tablets", json!({"leg":"payload","first":7,"last":7,"replicas":[]}));
    }
    r.counters.add("payload_accepted", accepted);
    r.counters.add("payload_rejected", rejected);
    r.nontrivial(accepted);
}

// ---------------------------------------------------------------------------------------------
/// Long seeded walk over full i64 (sampled dimension; never what coverage rests on).
fn walk(r: &Report, steps: u64, seed: u64) {
    let mut cfg = cfg_one(true);
    cfg.name = "walk".into();
    cfg.audit_mod = 0;
    let mut rng = vcore::Rng::new(seed ^ 0xc15);
    let mut m = TabModel::new(cfg);
    let mut o = m.fresh();
    let mut hist: Vec<Ev> = Vec::new();
    let mut max_tablets = 0usize;
    let mut learns = 0u64;
    for step in 0..steps {
        // bounds: mostly near existing bounds (+-1) so that every overlap relation keeps occurring
        let bounds: Vec<i64> = o.reference.alive("t").iter().flat_map(|t| [t.first, t.last]).collect();
        let pick = |rng: &mut vcore::Rng| -> i64 {
            match rng.below(10) {
                0 => [i64::MIN + 1, i64::MAX, i64::MAX - 1, 0][rng.below(4) as usize],
                1..=5 if !bounds.is_empty() => {
                    let b = bounds[rng.below(bounds.len() as u64) as usize];
                    b.saturating_add(rng.below(5) as i64 - 2).max(i64::MIN + 1)
                }
                _ => (rng.next_u64() as i64).max(i64::MIN + 1),
            }
        };
        let ev = if rng.below(40) == 0 {
            let bits = rng.below(16);
            let schema = if rng.below(30) == 0 { Schema::Dropped(0) } else { Schema::AllPresent };
            Ev::Refresh { toggle_c: bits & 1 != 0, toggle_d: bits & 8 != 0, recreate_a: bits & 2 != 0, move_b: bits & 4 != 0, schema }
        } else {
            let (x, y) = (pick(&mut rng), pick(&mut rng));
            // keep the map populated: mostly narrow tablets
            let (first, last) = if rng.below(4) == 0 { (x.min(y), x.max(y)) } else { (x, x.saturating_add((rng.below(1 << 20) as i64) << rng.below(40))) };
            learns += 1;
            Ev::LearnRaw { table: 0, first, last, r: rng.below(3) as u8 }
        };
        hist.push(ev.clone());
        if hist.len() > 60 {
            hist.remove(0);
        }
        // lookups at every bound +-1 of the alive tablets and of the new one
        let mut probes: Vec<i64> = vec![i64::MIN, i64::MAX, 0];
        if let Ev::LearnRaw { first, last, .. } = &ev {
            probes.extend([*first, *last, first.saturating_sub(1), last.saturating_add(1)]);
        }
        for _ in 0..6 {
            if !bounds.is_empty() {
                let b = bounds[rng.below(bounds.len() as u64) as usize];
                probes.extend([b, b.saturating_sub(1), b.saturating_add(1)]);
            }
            probes.push(rng.next_u64() as i64);
        }
        m.cfg.probes = probes;
        m.cfg.universe.clear();
        let res = m.apply_ev(&mut o, &ev).and_then(|_| m.verify(&o).map(|_| ()));
        r.eval(1);
        max_tablets = max_tablets.max(o.reference.alive("t").len());
        o.reference.compact();
        if let Err(w) = res {
            let (key, text) = split_complaint(&w);
            r.violation(&format!("walk:{key}"), &format!("seeded walk (seed {seed}) step {step}: {text}; last events {:?}", hist), json!({"leg":"walk","seed":seed as i64,"steps":step + 1}));
            break;
        }
    }
    r.counters.add("walk_steps_sampled", steps);
    r.counters.add("walk_learns", learns);
    r.counters.max("walk_max_alive_tablets", max_tablets as u64);
}

fn replay(r: &Report, case: &Value) {
    match case["leg"].as_str() {
        Some("bfs") => {
            let Some(mut cfg) = Cfg::from_json(&case["cfg"]) else { vcore::machinery_error("replay: bad cfg") };
            cfg.schemas = vec![Schema::AllPresent];
            let m = TabModel::new(cfg);
            let mut o = m.fresh();
            println!("replay: config {} universe {:?}", m.cfg.name, m.cfg.universe);
            for (i, e) in case["events"].as_array().cloned().unwrap_or_default().iter().enumerate() {
                let Some(ev) = Ev::from_json(e) else { vcore::machinery_error("replay: bad event") };
                let res = m.apply_ev(&mut o, &ev).and_then(|_| m.verify(&o).map(|_| ()));
                println!("  step {i}: {ev:?}");
                for (t, _) in &m.cfg.tables {
                    let d = o.world.table_dump(h_drv::tabmodel::split_name(t).0, h_drv::tabmodel::split_name(t).1);
                    println!("      {t}: {}", d.map(|d| format!("unknown_flag={} {:?}", d.has_unknown_replicas, d.tablets.iter().map(|t| (t.first_token, t.last_token, t.all.iter().map(|r| (h_drv::tabmodel::label_of(r.host_id), r.shard, r.datacenter.clone().unwrap_or_default())).collect::<Vec<_>>(), t.failed.is_some())).collect::<Vec<_>>())).unwrap_or_else(|| "no entry".into()));
                }
                if let Err(w) = res {
                    let (key, text) = split_complaint(&w);
                    r.violation(&key, &text, case.clone());
                    return;
                }
            }
        }
        Some("payload") => {
            let (first, last) = (case["first"].as_i64().unwrap_or(0), case["last"].as_i64().unwrap_or(0));
            println!("replay: payload ({first},{last}] -> {:?}", World::parse_payload(&cqlref::tablets::encode_payload(first, last, &[(*uuid_of(1).as_bytes(), 0)])));
            payload_stage(r, &[first, last]);
        }
        Some("payload_cut") => payload_stage(r, &[0]),
        Some("walk") => walk(r, case["steps"].as_u64().unwrap_or(0), case["seed"].as_i64().unwrap_or(0) as u64),
        _ => vcore::machinery_error("replay: unknown leg"),
    }
}

fn main() {
    // glibc grows/trims the per-thread arenas with mprotect on every few allocations of this
    // allocation-heavy search, which serialises all threads on the address-space lock: keep a
    // generous top pad and never trim.
    unsafe {
        libc::mallopt(libc::M_TOP_PAD, 8 << 20);
        libc::mallopt(libc::M_TRIM_THRESHOLD, 1 << 30);
    }
    vcore::quiet_panics();
    let r = Report::new("C15", "bfs", "model_checking", "E-BFS");
    if let Some(case) = r.replay_case() {
        replay(&r, &case);
        r.finish_replay();
    }
    let thorough = r.tier().is_thorough();
    r.set_exhaustive(true);
    let only = r.args.extra_value("--stage").map(|s| s.to_string());
    let want = |s: &str| only.as_deref().is_none_or(|o| o == s);

    if want("one") {
        let (s1, t1) = run_bfs(&r, cfg_one(thorough), "one", r.tier().pick(50, 1500));
        if thorough && r.violation_count() == 0 {
            // racy-dedup guard: same search with a different thread count must give the same counts
            let m = TabModel::new(Cfg { audit_mod: 0, ..cfg_one(false) });
            let a = bfs(&m, &BfsOpts { max_depth: 64, max_states: 20_000_000, wall: Duration::from_secs(600), jobs: 3, max_violations: 1 });
            let m2 = TabModel::new(Cfg { audit_mod: 0, ..cfg_one(false) });
            let b = bfs(&m2, &BfsOpts { max_depth: 64, max_states: 20_000_000, wall: Duration::from_secs(600), jobs: r.args.jobs, max_violations: 1 });
            if (a.states, a.transitions) != (b.states, b.transitions) {
                vcore::machinery_error(&format!("BFS counts depend on the thread count: {:?} vs {:?}", (a.states, a.transitions), (b.states, b.transitions)));
            }
            r.note("thread_count_independence", json!({"jobs_3": [a.states, a.transitions], "jobs_n": [b.states, b.transitions]}));
        }
        r.nontrivial(s1);
        let _ = t1;
    }
    if want("two") && r.violation_count() == 0 {
        let (s2, _) = run_bfs(&r, cfg_two(thorough), "two", r.args.extra_value("--wall").and_then(|w| w.parse().ok()).unwrap_or(r.tier().pick(30, 600)));
        r.nontrivial(s2);
    }
    if want("edge") && r.violation_count() == 0 {
        let (s3, _) = run_bfs(&r, cfg_edge(), "edge", r.tier().pick(20, 120));
        r.nontrivial(s3);
    }
    if want("payload") {
        payload_stage(&r, &cfg_one(true).universe);
    }
    if want("walk") && r.violation_count() == 0 {
        let steps = r.tier().pick(20_000u64, 1_000_000u64);
        walk(&r, steps, r.args.seed);
    }
    r.set_rule("E-BFS to a fixpoint on the real TabletsInfo/ClusterState (hook H-TABLETS; tablets learnt from payload bytes through the production parser/translator/update_tablets, refreshes through the production topology diff + perform_maintenance). Stage one: one table, token universe quick {MIN+1,-1,0,1,MAX} / thorough {MIN+1,MIN+2,-1,0,1,MAX-1,MAX}; events = learn [a,b] for EVERY a<=b in U x replica sets {known A+B in two DCs; A + never-known X; C+B where C leaves/re-joins}, BATCHES of 2 (thorough 3) tablets delivered by ONE update_tablets call (identical range with every ordered pair of replica sets, overlapping / containing / adjacent / disjoint ranges in both orders, same range on table and view; reference applies them in arrival order) and refresh with EVERY subset of {C leaves/re-joins, D joins/leaves, A re-created with a new address, B re-created in another DC} in one refresh x schema {present, table dropped, (keyspace not tablet-based, keyspace gone)}. Stage two: a table and a materialized view over 3-4 tokens. After EVERY transition: range list sorted+disjoint; stored set = reference alive set replica for replica (node object identity, address, DC); hidden flags sound; every token of U + probes answered exactly as the latest-wins reference (nothing if overlapped/discarded); per-DC lists and DC-restricted lookups = restriction of the full list; equal canonical forms answer identically. distinct_nontrivial = distinct canonical states + accepted payload cases. Walk: seeded random i64 ranges, labelled sampled.");
    r.assume("node identity is observed through (host id, address, datacenter, Arc identity with ClusterState::known_nodes); A's concrete address is canonicalised to 'is the current address' (relabelling)");
    r.assume("BFS drives synchronous twins of ClusterState::new/new_updated (identical private steps minus spawn_blocking); a recorded subset of histories is replayed through the real async constructors and compared state by state (traces_validated_against_impl)");
    r.assume("the long walk over full-range i64 tokens is sampled (seeded) and never what coverage rests on");
    r.finish();
}
