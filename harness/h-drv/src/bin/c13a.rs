//! C13 leg A - E-ASYNC on the real crate-private `speculative_execution::execute` (hook H-SPEC).
//!
//! The harness IS the runner generator: every execution the loop starts is a future waiting on a oneshot that
//! the explorer completes when it chooses, with an outcome in {success, definitive error, ignorable error, plan
//! exhausted}. Environment events: complete(i, outcome); tick (advance the paused clock by the retry interval =
//! to the sleep's deadline); in the `ties` sweep additionally tie(i, outcome) = completion and timer expiry
//! delivered together before the loop is polled (resolved inside `futures::select!` by a driver-internal RNG:
//! a sampled dimension, the oracle accepts both sequential orders). One event, then poll to quiescence.
//! Full enumeration (every alternative is free), max speculative count 0..=4 => up to 5 executions.
//! Oracle: h_drv::specmodel (the statement), checked after every event.
use h_drv::specmodel::{Expected, Outcome, SpecModel};
use scylla::errors::{DbError, RequestAttemptError, RequestError};
use serde_json::{Value, json};
use std::cell::RefCell;
use std::collections::BTreeSet;
use std::rc::Rc;
use std::sync::Mutex;
use std::sync::atomic::{AtomicU64, Ordering};
use std::time::Duration;
use tokio::sync::oneshot;
use vcore::Report;
use vcore::dfs::{Chooser, DfsOpts, explore};

type ExecOut = Option<Result<usize, RequestError>>;
const INTERVAL: Duration = Duration::from_millis(100);

fn make_out(i: usize, o: Outcome) -> ExecOut {
    let db = |e: DbError, tag: &str| Some(Err(RequestError::LastAttemptError(RequestAttemptError::DbError(e, format!("exec{i}:{tag}")))));
    match o {
        Outcome::Success => Some(Ok(i)),
        Outcome::Definitive => match i % 3 {
            0 => db(DbError::SyntaxError, "def"),
            1 => db(DbError::Invalid, "def"),
            _ => db(DbError::Unauthorized, "def"),
        },
        Outcome::Ignorable => match i % 3 {
            0 => db(DbError::Overloaded, "ign"),
            1 => db(DbError::IsBootstrapping, "ign"),
            _ => db(DbError::Unavailable { consistency: scylla::statement::Consistency::Quorum, required: 2, alive: 1 }, "ign"),
        },
        Outcome::Exhausted => None,
    }
}

/// Map the value returned by the loop back to "whose result is it".
fn classify(res: &Result<usize, RequestError>) -> Result<Expected, String> {
    match res {
        Ok(i) => Ok(Expected::Success(*i)),
        Err(RequestError::EmptyPlan) => Ok(Expected::EmptyPlan),
        Err(RequestError::LastAttemptError(RequestAttemptError::DbError(_, msg))) => {
            let (id, tag) = msg.strip_prefix("exec").and_then(|s| s.split_once(':')).ok_or_else(|| format!("foreign error message {msg}"))?;
            let i: usize = id.parse().map_err(|_| format!("foreign error message {msg}"))?;
            match tag {
                "def" => Ok(Expected::DefinitiveError(i)),
                "ign" => Ok(Expected::IgnorableError(i)),
                _ => Err(format!("foreign error message {msg}")),
            }
        }
        Err(e) => Err(format!("an error no execution produced: {e:?}")),
    }
}

#[derive(Clone, Copy, Debug)]
enum Ev {
    Complete(usize, Outcome),
    Tick,
    /// completion + timer expiry together; the third field selects the fixed continuation used afterwards
    Tie(usize, Outcome, usize),
}

#[derive(Default)]
struct GenState {
    /// (is_speculative flag, virtual ms at start)
    starts: Vec<(bool, u64)>,
    senders: Vec<Option<oneshot::Sender<ExecOut>>>,
}

#[derive(Default, Debug)]
struct RunOut {
    trace: Vec<String>,
    /// (stable key, text)
    verdict: Option<(String, String)>,
    started: usize,
    ticks: usize,
    ties: usize,
    ignorable_seen: bool,
    tick_while_running: bool,
    result_kind: String,
    events: usize,
}

fn fail(out: &mut RunOut, key: &str, text: String) {
    if out.verdict.is_none() {
        out.trace.push(format!("ORACLE {key}: {text}"));
        out.verdict = Some((key.to_string(), text));
    }
}

/// One complete execution for max speculative count `m`.
/// Extra knobs of one execution: `zero` = retry interval 0 (every timer expires at once: all 1+max executions must
/// be started before anything else can happen); `fixed` = no choice points, follow this fixed continuation.
#[derive(Clone, Copy, Default)]
struct Knobs {
    zero: bool,
    fixed: Option<usize>,
    /// a retry interval so large that its expiry cannot be delivered (Duration::MAX, values that overflow Instant + d):
    /// no tick events; a call left waiting for that timer while an execution may still be started is a legal end
    far: Option<Duration>,
}


fn one_execution_k(m: usize, ties: bool, ch: &mut Chooser, knobs: Knobs) -> RunOut {
    let mut out = RunOut::default();
    let res = vcore::catch(std::panic::AssertUnwindSafe(|| {
        vasync::run(|| async {
            let out = &mut out;
            let t0 = tokio::time::Instant::now();
            let now_ms = move || t0.elapsed().as_millis() as u64;
            let st: Rc<RefCell<GenState>> = Rc::new(RefCell::new(GenState::default()));
            let st2 = st.clone();
            let generator = move |is_speculative: bool| {
                let (tx, rx) = oneshot::channel::<ExecOut>();
                let mut g = st2.borrow_mut();
                g.starts.push((is_speculative, t0.elapsed().as_millis() as u64));
                g.senders.push(Some(tx));
                async move { rx.await.expect("harness dropped a sender") }
            };
            let mut ex = vasync::Exec::new();
            let (main, slot) = ex.spawn_with_output("execute", scylla::verif::exec::speculative_execute(m, match knobs.far { Some(d) => d, None if knobs.zero => Duration::ZERO, None => INTERVAL }, generator));
            let mut model = SpecModel::new(m);
            let mut timer_dead = false;
            if knobs.zero {
                // interval 0: the timer expires immediately, again and again, until nothing may be started
                while model.tick() == 1 {}
                timer_dead = true;
            }
            let tick_cap = m.saturating_add(3);
            let mut first = true;
            let mut after_tie: Option<usize> = knobs.fixed;
            if knobs.far.is_some() {
                timer_dead = true;
            }
            loop {
                if let Err(e) = ex.run_until_quiescent_default(10_000).await {
                    fail(out, "spec:livelock", e);
                    return;
                }
                // ---- observe
                let (n_started, flags): (usize, Vec<bool>) = {
                    let g = st.borrow();
                    (g.starts.len(), g.starts.iter().map(|s| s.0).collect())
                };
                if first {
                    out.trace.push(format!("t={} started={n_started} flags={flags:?}", now_ms()));
                    first = false;
                } else {
                    out.trace.push(format!("  -> t={} started={n_started} done={}", now_ms(), ex.is_done(main)));
                }
                out.started = n_started;
                if n_started > m.saturating_add(1) {
                    fail(out, "spec:started-exceeds-bound", format!("{n_started} executions started with max speculative count {m} (bound {})", m.saturating_add(1)));
                    return;
                }
                if n_started > model.started {
                    fail(out, "spec:extra-start", format!("{n_started} executions started where the contract allows {} at this point", model.started));
                    return;
                }
                if n_started < model.started {
                    fail(out, "spec:missing-start", format!("only {n_started} executions started after a timer tick at which one more may (and must) be started (expected {})", model.started));
                    return;
                }
                if flags.iter().enumerate().any(|(i, f)| *f != (i > 0)) {
                    fail(out, "spec:speculative-flag", format!("is_speculative flags {flags:?}: must be false for the first execution and true for all others"));
                    return;
                }
                if ex.is_done(main) {
                    let got = slot.borrow_mut().take().expect("output slot");
                    let who = classify(&got);
                    out.trace.push(format!("RETURN {got:?}"));
                    out.result_kind = match &who {
                        Ok(Expected::Success(_)) => "success",
                        Ok(Expected::DefinitiveError(_)) => "definitive-error",
                        Ok(Expected::IgnorableError(_)) => "last-ignorable-error",
                        Ok(Expected::EmptyPlan) => "empty-plan",
                        Err(_) => "foreign",
                    }
                    .to_string();
                    match (model.done, who) {
                        (None, _) => fail(out, "spec:early-return", format!("returned {got:?} while executions {:?} are still running / one may still be started (may_start={})", model.running, model.may_start())),
                        (Some(want), Ok(w)) if w == want => {}
                        (Some(want), w) => fail(out, "spec:wrong-result", format!("returned {got:?} (= {w:?}), the contract demands {want:?}")),
                    }
                    return;
                }
                if let Some(want) = model.done {
                    fail(out, "spec:late-return", format!("did not return although the contract demands {want:?} now"));
                    return;
                }
                // ---- enabled environment events
                let running: Vec<usize> = model.running.iter().copied().collect();
                let mut evs: Vec<Ev> = Vec::new();
                for &i in &running {
                    for o in Outcome::ALL {
                        evs.push(Ev::Complete(i, o));
                    }
                }
                let tick_ok = !timer_dead && out.ticks < tick_cap;
                if tick_ok {
                    evs.push(Ev::Tick);
                    if ties && after_tie.is_none() {
                        for &i in &running {
                            for o in Outcome::ALL {
                                for c in 0..3 {
                                    evs.push(Ev::Tie(i, o, c));
                                }
                            }
                        }
                    }
                }
                if evs.is_empty() && knobs.far.is_some() && model.may_start() {
                    out.trace.push("  (waits for the far-future timer; nothing else can happen)".into());
                    out.result_kind = "waiting-for-far-timer".into();
                    return;
                }
                if evs.is_empty() {
                    fail(out, "spec:deadlock", format!("the call is pending with nothing running and no timer armed (started={n_started}, may_start={})", model.may_start()));
                    return;
                }
                // After a tie the loop's internal state depends on a driver-internal RNG, so no further choice
                // point may follow (a replayed prefix would meet a different enabled set): the rest of the
                // execution follows a fixed continuation that was selected together with the tie.
                let ev = match after_tie {
                    None => evs[ch.choose_free("event", evs.len())],
                    Some(0) => {
                        if tick_ok {
                            Ev::Tick
                        } else {
                            Ev::Complete(running[0], Outcome::Ignorable)
                        }
                    }
                    Some(1) => match running.first() {
                        Some(&i) => Ev::Complete(i, Outcome::Ignorable),
                        None => Ev::Tick,
                    },
                    Some(2) => match running.last() {
                        Some(&i) => Ev::Complete(i, Outcome::Exhausted),
                        None => Ev::Tick,
                    },
                    // (for huge max counts) three ticks, then the newest execution reports an exhausted plan, then the
                    // rest fail with ignorable errors, oldest first
                    Some(3) => {
                        if n_started < 4 && tick_ok && !model.exhausted_seen {
                            Ev::Tick
                        } else if !model.exhausted_seen {
                            Ev::Complete(*running.last().expect("running"), Outcome::Exhausted)
                        } else {
                            match running.first() {
                                Some(&i) => Ev::Complete(i, Outcome::Ignorable),
                                None => Ev::Tick,
                            }
                        }
                    }
                    // two ticks, then the first execution succeeds
                    Some(_) => {
                        if n_started < 3 && tick_ok {
                            Ev::Tick
                        } else {
                            Ev::Complete(running[0], Outcome::Success)
                        }
                    }
                };
                out.events += 1;
                out.trace.push(format!("{ev:?}"));
                match ev {
                    Ev::Complete(i, o) => {
                        let tx = st.borrow_mut().senders[i].take().expect("sender");
                        if tx.send(make_out(i, o)).is_err() {
                            fail(out, "spec:execution-dropped", format!("execution {i} was dropped by the loop while the call is still pending"));
                            return;
                        }
                        out.ignorable_seen |= o == Outcome::Ignorable;
                        model.complete(i, o);
                    }
                    Ev::Tick => {
                        out.ticks += 1;
                        out.tick_while_running |= !running.is_empty();
                        vasync::advance(INTERVAL).await;
                        if !ex.is_woken(main) {
                            // no timer was armed: time passing is invisible to the loop from now on
                            timer_dead = true;
                            out.trace.push("  (no timer armed)".into());
                            if model.may_start() {
                                fail(out, "spec:missing-start", format!("no timer is armed although an execution may still be started (started={n_started}, max={m})"));
                                return;
                            }
                        } else {
                            model.tick();
                        }
                    }
                    Ev::Tie(i, o, c) => {
                        after_tie = Some(c);
                        out.ties += 1;
                        out.ticks += 1;
                        let tx = st.borrow_mut().senders[i].take().expect("sender");
                        if tx.send(make_out(i, o)).is_err() {
                            fail(out, "spec:execution-dropped", format!("execution {i} was dropped by the loop while the call is still pending"));
                            return;
                        }
                        out.ignorable_seen |= o == Outcome::Ignorable;
                        vasync::advance(INTERVAL).await;
                        if let Err(e) = ex.run_until_quiescent_default(10_000).await {
                            fail(out, "spec:livelock", e);
                            return;
                        }
                        // both sequential orders are legal: pick the one the loop took (by what it started / whether it returned)
                        let mut a = model.clone(); // tick, then completion
                        a.tick();
                        a.complete(i, o);
                        let mut b = model.clone(); // completion, then (if still pending) tick
                        b.complete(i, o);
                        if b.done.is_none() {
                            b.tick();
                        }
                        let n_now = st.borrow().starts.len();
                        let done_now = ex.is_done(main);
                        let fits = |x: &SpecModel| x.started == n_now && x.done.is_some() == done_now;
                        model = if fits(&b) {
                            b
                        } else if fits(&a) {
                            a
                        } else {
                            fail(out, "spec:tie-neither-order", format!("after a timer/completion tie the loop has started {n_now} executions, returned={done_now}: neither sequential order explains it"));
                            return;
                        };
                    }
                }
            }
        })
    }));
    if let Err(p) = res {
        fail(&mut out, "spec:panic", format!("the speculative loop panicked: {p}"));
    }
    out
}

fn case_json_k(m: usize, knobs: Knobs) -> Value {
    json!({"leg":"spec-loop","max_speculative":m,"ties":false,"zero_interval":knobs.zero,"fixed":knobs.fixed,"far_interval_secs":knobs.far.map(|d| d.as_secs()),"far_interval_nanos":knobs.far.map(|d| d.subsec_nanos()),"choices":[]})
}

fn case_json(m: usize, ties: bool, choices: &[usize]) -> Value {
    json!({"leg":"spec-loop","max_speculative":m,"ties":ties,"choices":choices})
}

const EXTREME_MAX: [usize; 4] = [usize::MAX, usize::MAX - 1, u32::MAX as usize, 1usize << 40];

/// Child mode `--probe-extreme <max>`: the fixed schedules for one extreme max count, in a process of their own (a driver
/// that sizes an allocation by the count aborts the process; the parent observes that as a result). Exit 0 = held,
/// 3 = oracle complaint on stdout.
fn probe_child(m: usize) -> ! {
    vcore::quiet_panics();
    vcore::sandbox::limit_address_space(8 << 30);
    for c in [3usize, 4, 2] {
        let out = one_execution_k(m, false, &mut Chooser::new(vec![]), Knobs { zero: false, fixed: Some(c), far: None });
        if let Some((k, t)) = out.verdict {
            println!("{k} :: {t} | continuation={c}");
            std::process::exit(3);
        }
    }
    std::process::exit(0)
}

/// Parent side: Ok(()) if the child held, else (key, text).
fn probe_extreme(m: usize) -> Result<(), (String, String)> {
    let res = vcore::sandbox::run_self(&["--probe-extreme", &m.to_string()], b"", Duration::from_secs(120));
    if res.timed_out {
        return Err(("spec:hang".into(), format!("with max speculative count {m} a 3-tick schedule did not finish within 120 s")));
    }
    match (res.exit_code, res.signal) {
        (Some(0), _) => Ok(()),
        (Some(3), _) => {
            let line = String::from_utf8_lossy(&res.stdout).lines().last().unwrap_or("").to_string();
            let (k, t) = line.split_once(" :: ").unwrap_or(("spec:unknown", &line));
            Err((k.to_string(), t.to_string()))
        }
        (code, sig) => Err(("spec:abort".into(), format!("with max speculative count {m} the process died (exit {code:?}, signal {sig:?}) inside the speculative loop: {}", res.stderr_tail.trim().replace('\n', " / ")))),
    }
}

fn main() {
    {
        let a: Vec<String> = std::env::args().collect();
        if let Some(i) = a.iter().position(|x| x == "--probe-extreme") {
            probe_child(a.get(i + 1).and_then(|s| s.parse().ok()).unwrap_or(0));
        }
    }
    vcore::quiet_panics();
    let r = Report::new("C13", "spec-loop", "model_checking", "E-ASYNC");
    if let Err(e) = h_drv::specmodel::self_test() {
        vcore::machinery_error(&format!("specmodel self-test failed: {e}"));
    }
    if let Some(case) = r.replay_case() {
        let m = case["max_speculative"].as_u64().unwrap_or(0) as usize;
        if case["probe"].as_bool() == Some(true) {
            if let Err((k, t)) = probe_extreme(m) {
                println!("{t}");
                r.violation(&k, &t, case.clone());
            }
            r.finish_replay();
        }
        let ties = case["ties"].as_bool().unwrap_or(false);
        let choices: Vec<usize> = case["choices"].as_array().map(|a| a.iter().map(|v| v.as_u64().unwrap_or(0) as usize).collect()).unwrap_or_default();
        let mut ch = Chooser::new(choices);
        let knobs = Knobs { zero: case["zero_interval"].as_bool().unwrap_or(false), fixed: case["fixed"].as_u64().map(|x| x as usize), far: case["far_interval_secs"].as_u64().map(|s| Duration::new(s, case["far_interval_nanos"].as_u64().unwrap_or(0) as u32)) };
        let out = one_execution_k(m, ties, &mut ch, knobs);
        if let Some(d) = &ch.diverged {
            vcore::machinery_error(&format!("the recorded schedule does not fit this build: {d}"));
        }
        for l in &out.trace {
            println!("{l}");
        }
        if let Some((k, t)) = out.verdict {
            r.violation(&k, &t, case.clone());
        }
        r.finish_replay();
    }
    let thorough = r.tier().is_thorough();
    let jobs = r.args.jobs;
    let audit_k: u64 = r.tier().pick(16, 4);
    let outcomes: Mutex<BTreeSet<(usize, String, usize)>> = Mutex::new(BTreeSet::new());
    let mut capped = false;
    let mut total_exec = 0u64;
    // the statement's bound is max 0..=4 (5 executions); the thorough tier goes one further (6 executions)
    let mut sweeps: Vec<(usize, bool)> = (0..=if thorough { 5 } else { 4 }).map(|m| (m, false)).collect();
    let tie_max = if thorough { 4 } else { 3 };
    sweeps.extend((0..=tie_max).map(|m| (m, true)));
    let mut sweeps: Vec<(usize, bool, bool)> = sweeps.into_iter().map(|(m, t)| (m, t, false)).collect();
    // retry interval 0 (what a percentile-based policy yields on an idle histogram): every order of completions
    sweeps.extend((0..=4).map(|m| (m, false, true)));
    for (m, ties, zero) in sweeps {
        let knobs = Knobs { zero, fixed: None, far: None };
        let states = AtomicU64::new(0);
        let transitions = AtomicU64::new(0);
        let audited = AtomicU64::new(0);
        let nontrivial = AtomicU64::new(0);
        let divergence: Mutex<Option<String>> = Mutex::new(None);
        let opts = DfsOpts { bound: 0, jobs, max_executions: 50_000_000, wall: Duration::from_secs(if thorough { 1500 } else { 90 }), ..Default::default() };
        let res = explore(&opts, |ch| {
            let out = one_execution_k(m, ties, ch, knobs);
            // new tree nodes of this execution: the choice points after its last non-default choice
            let plen = ch.trace.iter().rposition(|p| p.chosen != 0).map(|i| i + 1).unwrap_or(0);
            states.fetch_add((ch.trace.len() - plen) as u64 + 1, Ordering::Relaxed);
            transitions.fetch_add(ch.trace[plen..].iter().map(|p| p.n as u64).sum::<u64>(), Ordering::Relaxed);
            // (tie schedules are left out of this count: what follows a tie depends on the driver-internal RNG)
            if out.ties == 0 && out.tick_while_running && out.ignorable_seen {
                nontrivial.fetch_add(1, Ordering::Relaxed);
            }
            outcomes.lock().unwrap().insert((m, out.result_kind.clone(), out.started));
            // determinism audit on a deterministic 1-in-k subset (tie executions excluded: their
            // resolution is a driver-internal RNG, the oracle is insensitive to it)
            let choices = ch.choices();
            if out.ties == 0 && vcore::fnv64(format!("{choices:?}").as_bytes()) % audit_k == 0 {
                let mut ch2 = Chooser::new(choices.clone());
                let again = one_execution_k(m, ties, &mut ch2, knobs);
                if again.trace != out.trace || ch2.diverged.is_some() {
                    *divergence.lock().unwrap() = Some(format!("m={m} choices={choices:?}: {:?} vs {:?}", out.trace, again.trace));
                } else {
                    audited.fetch_add(1, Ordering::Relaxed);
                }
            }
            match out.verdict {
                None => Ok(()),
                Some((k, t)) => Err(format!("{k} :: {t}")),
            }
        });
        if let Some(d) = divergence.into_inner().unwrap() {
            vcore::machinery_error(&format!("determinism audit failed: {d}"));
        }
        if let Some(d) = res.divergences.first() {
            vcore::machinery_error(&format!("replay divergence inside the explorer: {d}"));
        }
        if let Some(c) = &res.capped {
            capped = true;
            r.note(&format!("capped_m{m}_ties{ties}_zero{zero}"), json!(c));
        }
        total_exec += res.executions;
        r.eval(res.executions);
        r.states.fetch_add(states.load(Ordering::Relaxed), Ordering::Relaxed);
        r.transitions.fetch_add(transitions.load(Ordering::Relaxed), Ordering::Relaxed);
        r.traces_validated.fetch_add(audited.load(Ordering::Relaxed), Ordering::Relaxed);
        r.nontrivial(nontrivial.load(Ordering::Relaxed));
        r.counters.add(&format!("executions_m{m}{}{}", if ties { "_ties" } else { "" }, if zero { "_zero_interval" } else { "" }), res.executions);
        r.counters.max("max_choice_points", res.max_points as u64);
        // every violation is replayed twice before it is reported
        for v in res.violations.iter() {
            let (key, text) = v.what.split_once(" :: ").unwrap_or(("spec:unknown", &v.what));
            let mut same = 0;
            for _ in 0..2 {
                let mut ch = Chooser::new(v.choices.clone());
                let again = one_execution_k(m, ties, &mut ch, knobs);
                if again.verdict.as_ref().map(|(k, _)| k.as_str()) == Some(key) {
                    same += 1;
                }
            }
            if same == 2 {
                r.traces_validated.fetch_add(2, Ordering::Relaxed);
                r.violation(key, &format!("{text} | max_speculative={m} ties={ties} zero_interval={zero} schedule={:?}", v.choices), {
                    let mut c = case_json(m, ties, &v.choices);
                    c["zero_interval"] = json!(zero);
                    c
                });
            } else if !ties {
                vcore::machinery_error(&format!("violation {key} did not replay deterministically (m={m}, choices {:?})", v.choices));
            } else {
                // a tie resolved the other way on replay: report only what reproduces
                r.counters.add("tie_violations_not_reproduced", 1);
            }
        }
    }
    // ---- long single schedules: more executions than any round limit (65, 1100), three fixed continuations
    for m in [64usize, 1099] {
        for c in 0..3 {
            for zero in [false, true] {
                let knobs = Knobs { zero, fixed: Some(c), far: None };
                let out = one_execution_k(m, false, &mut Chooser::new(vec![]), knobs);
                r.eval(1);
                r.states.fetch_add(out.events as u64 + 1, Ordering::Relaxed);
                r.transitions.fetch_add(out.events as u64, Ordering::Relaxed);
                r.counters.add("long_schedules", 1);
                r.counters.max("max_executions_started_long", out.started as u64);
                if let Some((k, t)) = out.verdict {
                    r.violation(&k, &format!("{t} | long schedule max_speculative={m} zero_interval={zero} continuation={c}"), case_json_k(m, knobs));
                }
            }
        }
    }
    // ---- extreme configurations (a handful of fixed schedules each): huge max counts ("unlimited, bounded by the plan")
    // and retry intervals whose deadline overflows. A panic inside the driver is a violation like any other.
    for m in EXTREME_MAX {
        // first in a child process: an abort (allocation sized by the count) must not take the checker down
        if let Err((k, t)) = probe_extreme(m) {
            r.eval(1);
            r.counters.add("extreme_max_probe_failed", 1);
            r.violation(&k, &format!("{t} | max_speculative={m}"), json!({"leg":"spec-loop","probe":true,"max_speculative":m}));
            continue;
        }
        r.counters.add("extreme_max_probes_ok", 1);
        // (schedules that end through an exhausted plan or a success: with an unbounded count nothing else ends the call)
        for c in [3usize, 4, 2] {
            let knobs = Knobs { zero: false, fixed: Some(c), far: None };
            let out = one_execution_k(m, false, &mut Chooser::new(vec![]), knobs);
            r.eval(1);
            r.states.fetch_add(out.events as u64 + 1, Ordering::Relaxed);
            r.transitions.fetch_add(out.events as u64, Ordering::Relaxed);
            r.counters.add("extreme_max_schedules", 1);
            if let Some((k, t)) = out.verdict {
                r.violation(&k, &format!("{t} | max_speculative={m} continuation={c}"), case_json_k(m, knobs));
            }
        }
    }
    for far in [Duration::MAX, Duration::from_secs(u64::MAX), Duration::from_secs(u64::MAX / 2), Duration::from_secs(1 << 40), Duration::new(i64::MAX as u64, 999_999_999)] {
        for m in [0usize, 1, 4, usize::MAX] {
            for c in [1usize, 2, 4] {
                let knobs = Knobs { zero: false, fixed: Some(c), far: Some(far) };
                let out = one_execution_k(m, false, &mut Chooser::new(vec![]), knobs);
                r.eval(1);
                r.states.fetch_add(out.events as u64 + 1, Ordering::Relaxed);
                r.transitions.fetch_add(out.events as u64, Ordering::Relaxed);
                r.counters.add("far_interval_schedules", 1);
                r.counters.add(&format!("far_interval_result:{}", out.result_kind), 1);
                if let Some((k, t)) = out.verdict {
                    r.violation(&k, &format!("{t} | max_speculative={m} retry_interval={far:?} continuation={c}"), case_json_k(m, knobs));
                }
            }
        }
    }
    let oc = outcomes.into_inner().unwrap();
    r.counters.add("distinct_outcomes(max,result,started)", oc.len() as u64);
    for kind in ["success", "definitive-error", "last-ignorable-error", "empty-plan"] {
        r.counters.add(&format!("outcome_classes:{kind}"), oc.iter().filter(|o| o.1 == kind).count() as u64);
    }
    if oc.len() < 8 && r.violation_count() == 0 {
        vcore::machinery_error("vacuity: fewer than 8 distinct (max, result kind, started) outcomes");
    }
    r.set_rule("E-ASYNC, full enumeration (no deviation bound): max speculative count 0..=4 (<= 5 executions; 0..=5 in the thorough tier) x every sequence of events {complete(i, success|definitive|ignorable|plan-exhausted), timer tick} with polling to quiescence after each; second sweep adds timer/completion ties; third sweep: retry interval 0 (max 0..=4, all completion orders); plus 12 long fixed schedules with 65 and 1100 executions, 12 fixed schedules with max count usize::MAX / usize::MAX-1 / u32::MAX / 2^40 and 60 with retry intervals Duration::MAX .. 2^40 s (no expiry can be delivered: a call left waiting for that timer while an execution may still be started is accepted). evaluations = complete schedules; states = choice points + terminal states of the schedule tree, transitions = alternatives at those points; traces_validated = schedules re-executed from their recorded choices with an identical observation trace (1-in-k deterministic subset + 2x per violation). distinct_nontrivial = schedules with a tick while an execution was running AND an ignorable completion (timer re-arm and last-error bookkeeping both in play).");
    r.set_exhaustive(!capped);
    r.note("executions_total", json!(total_exec));
    r.note("retry_interval_ms", json!(INTERVAL.as_millis() as u64));
    r.sample(json!({"max_speculative":2,"events":["Tick","Complete(0,ignorable)","Tick","Complete(1,ignorable)","Complete(2,ignorable)"],"expected":"returns exec2's error after the last completion, not before"}));
    r.assume("virtual time moves only by whole retry intervals (the loop observes only the order of timer expiries and completions); tie resolution inside futures::select! is sampled, the oracle accepts both sequential orders");
    r.finish();
}
