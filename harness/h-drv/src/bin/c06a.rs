//! C06 leg A - error HISTORIES through the real `RetrySession::decide_should_retry` of the three built-in
//! retry policies (hook H-RETRY-INFO builds the #[non_exhaustive] RequestInfo).
//!
//! A state is a history (sequence of failure symbols) applied to a fresh session; sessions hold private one-shot
//! flags and cannot be cloned, so every node of the history tree is reached by replaying its history on a fresh
//! session (E-BFS style "state = history"). The consistency fed to step i+1 is the one decided at step i, as the
//! execution loop does. Two sweeps per (policy, idempotence, initial consistency):
//!   all:   every history of length <= L_all, whatever was decided (the session as a plain object);
//!   reach: every history the execution loop can produce (it continues only after a re-send decision), length <= L_reach.
//! Oracle: cqlref::retry::SessionJudge (the property statement as a table).
//! Determinism audit: every node re-derives the decisions of its whole prefix on a fresh session and compares them
//! with the decisions recorded by its parent; a difference is a machinery error (exit 2), never a verdict.
use cqlref::retry::{Cl, Decision, Policy, SessionJudge};
use h_drv::retrysym::{self, Sym};
use scylla::policies::retry::RetryPolicy;
use serde_json::{Value, json};
use std::sync::Arc;
use std::sync::atomic::Ordering;
use vcore::Report;

/// Per-work-item accumulator (flushed once; shared counters would serialise the workers).
#[derive(Default)]
struct Acc {
    nodes: u64,
    validated: u64,
    nontrivial: u64,
    reachable: u64,
    /// [decision kind index] for reachable nodes
    kinds: [u64; 6],
    resend_after: [u64; 11],
    downgrade_to: [u64; 11],
    max_same: u64,
    max_len: u64,
}

fn kind_index(d: Decision) -> usize {
    match d {
        Decision::RetrySame(None) => 0,
        Decision::RetrySame(Some(_)) => 1,
        Decision::RetryNext(None) => 2,
        Decision::RetryNext(Some(_)) => 3,
        Decision::DontRetry => 4,
        Decision::IgnoreWrite => 5,
    }
}
const KIND_NAMES: [&str; 6] = ["same", "same+cl", "next", "next+cl", "stop", "ignore"];

impl Acc {
    fn flush(&self, cx: &Ctx) {
        let r = cx.r;
        r.states.fetch_add(self.nodes, Ordering::Relaxed);
        r.transitions.fetch_add(self.nodes, Ordering::Relaxed);
        r.eval(self.nodes);
        r.traces_validated.fetch_add(self.validated, Ordering::Relaxed);
        r.nontrivial(self.nontrivial);
        r.counters.add("reachable_histories", self.reachable);
        let tag = format!("{}:{}", cx.policy.name(), if cx.idem { "idem" } else { "nonidem" });
        for (i, n) in self.kinds.iter().enumerate() {
            if *n > 0 {
                r.counters.add(&format!("decision:{tag}:{}", KIND_NAMES[i]), *n);
            }
        }
        for (i, n) in self.resend_after.iter().enumerate() {
            if *n > 0 {
                r.counters.add(&format!("nonidem_resend_after:{}", cqlref::retry::ErrClass::ALL[i].name()), *n);
            }
        }
        for (i, n) in self.downgrade_to.iter().enumerate() {
            if *n > 0 {
                r.counters.add(&format!("downgrade_to:{}", Cl::ALL[i].name()), *n);
            }
        }
        r.counters.max(&format!("max_same_target_retries:{}", cx.policy.name()), self.max_same);
        r.counters.max("max_reachable_history_len", self.max_len);
    }
}

struct Ctx<'a> {
    r: &'a Report,
    mv: &'a retrysym::MinViolations,
    syms: &'a [Sym],
    policy: Policy,
    real: Arc<dyn RetryPolicy>,
    idem: bool,
    cl0: Cl,
    l_all: usize,
    l_reach: usize,
    /// enlarged-alphabet sweep: symbols below this index belong to the base alphabet; only histories containing an
    /// enlarged-alphabet symbol are counted (the others were counted by the base sweep). 0 = base sweep.
    base_len: usize,
}

/// Apply `hist` to a fresh session. Returns the decisions and the complaints raised by the LAST step.
fn run_history(cx: &Ctx, hist: &[usize]) -> (Vec<Decision>, Vec<cqlref::retry::Complaint>) {
    let mut session = cx.real.new_session();
    let mut judge = SessionJudge::new(cx.policy, cx.idem);
    let mut cl = cx.cl0;
    let mut ds = Vec::with_capacity(hist.len());
    let mut last = Vec::new();
    for (i, &s) in hist.iter().enumerate() {
        let sym = &cx.syms[s];
        let info = scylla::verif::retry::request_info(&sym.err, cx.idem, retrysym::cons_of(cl));
        let d = retrysym::decision_of(&session.decide_should_retry(info));
        let c = judge.step(sym.class, cl, d);
        if i + 1 == hist.len() {
            last = c;
        }
        if let Decision::RetrySame(Some(n)) | Decision::RetryNext(Some(n)) = d {
            cl = n;
        }
        ds.push(d);
    }
    (ds, last)
}

fn case_json(cx: &Ctx, hist: &[usize]) -> Value {
    json!({"leg":"policy","policy":cx.policy.name(),"idempotent":cx.idem,"cl0":cx.cl0.name(),
           "history": hist.iter().map(|&s| cx.syms[s].name.clone()).collect::<Vec<_>>()})
}

/// Visit the node `hist` (non-empty); `parent_ds` = decisions its parent recorded for hist[..len-1].
/// `reach_only`: the prefix consisted of re-send decisions only (the loop can get here).
fn visit(cx: &Ctx, acc: &mut Acc, hist: &mut Vec<usize>, parent_ds: &[Decision], reachable: bool) {
    let (ds, complaints) = match vcore::catch(std::panic::AssertUnwindSafe(|| run_history(cx, hist))) {
        Ok(x) => x,
        Err(p) => {
            cx.mv.add(&format!("policy:{}:panic", cx.policy.name()), hist.len(), format!("decide_should_retry panicked on {}: {p}", case_json(cx, hist)), case_json(cx, hist));
            return;
        }
    };
    let counted = cx.base_len == 0 || hist.iter().any(|&s| s >= cx.base_len);
    if counted {
        acc.nodes += 1;
    }
    // determinism audit: prefix decisions re-derived on a fresh session == what the parent recorded
    if !parent_ds.is_empty() {
        if ds[..parent_ds.len()] != *parent_ds {
            vcore::machinery_error(&format!("replay divergence: history {} gave {:?} then {:?}", case_json(cx, hist), parent_ds, ds));
        }
        if counted {
            acc.validated += 1;
        }
    }
    let d = *ds.last().unwrap();
    for c in complaints {
        cx.mv.add(&c.key, hist.len(), format!("{} | case {}", c.text, case_json(cx, hist)), case_json(cx, hist));
    }
    let resends_before = ds[..ds.len() - 1].iter().filter(|d| d.is_resend()).count();
    if resends_before > 0 && counted {
        acc.nontrivial += 1;
    }
    if reachable && counted {
        acc.reachable += 1;
        acc.kinds[kind_index(d)] += 1;
        if !cx.idem && d.is_resend() {
            let c = cx.syms[*hist.last().unwrap()].class;
            acc.resend_after[cqlref::retry::ErrClass::ALL.iter().position(|x| *x == c).unwrap()] += 1;
        }
        let same = ds.iter().filter(|d| matches!(d, Decision::RetrySame(_))).count() as u64;
        acc.max_same = acc.max_same.max(same);
        acc.max_len = acc.max_len.max(hist.len() as u64);
        if let Decision::RetrySame(Some(n)) | Decision::RetryNext(Some(n)) = d {
            acc.downgrade_to[n.code() as usize] += 1;
        }
    }
    let child_reachable = reachable && d.is_resend();
    let limit = if child_reachable { cx.l_reach.max(cx.l_all) } else { cx.l_all };
    if hist.len() < limit {
        for s in 0..cx.syms.len() {
            hist.push(s);
            visit(cx, acc, hist, &ds, child_reachable);
            hist.pop();
        }
    }
}

fn replay(r: &Report, syms: &[Sym], case: &Value) {
    let policy = Policy::from_name(case["policy"].as_str().unwrap_or("")).unwrap_or_else(|| vcore::machinery_error("replay: bad policy"));
    let cl0 = Cl::ALL.into_iter().find(|c| Some(c.name()) == case["cl0"].as_str()).unwrap_or_else(|| vcore::machinery_error("replay: bad cl0"));
    let hist: Vec<usize> = case["history"]
        .as_array()
        .unwrap_or_else(|| vcore::machinery_error("replay: no history"))
        .iter()
        .map(|n| syms.iter().position(|s| Some(s.name.as_str()) == n.as_str()).unwrap_or_else(|| vcore::machinery_error("replay: unknown symbol")))
        .collect();
    let mv = retrysym::MinViolations::default();
    let cx = Ctx { r, mv: &mv, syms, policy, real: retrysym::policy_of(policy), idem: case["idempotent"].as_bool().unwrap_or(false), cl0, l_all: 0, l_reach: 0, base_len: 0 };
    // judge every step of the history (the recorded case is the minimal failing one, its last step complains)
    for n in 1..=hist.len() {
        let (ds, complaints) = run_history(&cx, &hist[..n]);
        println!("step {n}: {} at {:?} -> {:?}", syms[hist[n - 1]].name, cx.cl0, ds[n - 1]);
        for c in complaints {
            r.violation(&c.key, &c.text, case.clone());
        }
    }
}

fn main() {
    vcore::quiet_panics();
    let r = Report::new("C06", "policy-histories", "model_checking", "E-BFS");
    if let Err(e) = cqlref::retry::self_test() {
        vcore::machinery_error(&format!("cqlref::retry self-test failed: {e}"));
    }
    let syms = retrysym::extended_alphabet();
    let base_len = retrysym::alphabet().len();
    if syms[..base_len].iter().zip(retrysym::alphabet().iter()).any(|(a, b)| a.name != b.name) {
        vcore::machinery_error("the enlarged alphabet must start with the base alphabet");
    }
    if let Some(case) = r.replay_case() {
        replay(&r, &syms, &case);
        r.finish_replay();
    }
    // mapping self-test: driver consistency <-> reference consistency by wire code, serial flag agrees
    for c in retrysym::CONSISTENCIES {
        let m = retrysym::cl_of(c);
        if retrysym::cons_of(m) != c || m.is_serial() != matches!(c, scylla::statement::Consistency::Serial | scylla::statement::Consistency::LocalSerial) {
            vcore::machinery_error("consistency mapping self-test failed");
        }
    }
    let l_all = r.args.extra_value("--l-all").and_then(|s| s.parse().ok()).unwrap_or(r.tier().pick(3usize, 4usize));
    let l_reach = r.args.extra_value("--l-reach").and_then(|s| s.parse().ok()).unwrap_or(r.tier().pick(6usize, 8usize));
    // enlarged alphabet (one symbol per variant of every non-database error family): smaller depth
    let le_all = r.args.extra_value("--le-all").and_then(|s| s.parse().ok()).unwrap_or(r.tier().pick(2usize, 3usize));
    let le_reach = r.args.extra_value("--le-reach").and_then(|s| s.parse().ok()).unwrap_or(r.tier().pick(3usize, 4usize));
    let jobs = r.args.jobs;
    let r_ref = &r;
    let mv = retrysym::MinViolations::default();
    let mv_ref = &mv;
    for (n_syms, la, lr, bl) in [(base_len, l_all, l_reach, 0usize), (syms.len(), le_all, le_reach, base_len)] {
        let mut items = Vec::new();
        for policy in Policy::ALL {
            for idem in [false, true] {
                for cl0 in Cl::ALL {
                    for s in 0..n_syms {
                        items.push((policy, idem, cl0, s));
                    }
                }
            }
        }
        let syms_ref = &syms[..n_syms];
        vcore::par::for_each(jobs, 1, items.into_iter(), |(policy, idem, cl0, s)| {
            let cx = Ctx { r: r_ref, mv: mv_ref, syms: syms_ref, policy, real: retrysym::policy_of(policy), idem, cl0, l_all: la, l_reach: lr, base_len: bl };
            let mut hist = vec![s];
            let mut acc = Acc::default();
            visit(&cx, &mut acc, &mut hist, &[], true);
            acc.flush(&cx);
        });
    }
    mv.flush(&r);
    // vacuity guards: the bounds of the statement must be attained by the real policies (else the
    // alphabet misses the branches that matter)
    for (p, want) in [(Policy::Default, 2u64), (Policy::Downgrading, 1), (Policy::Fallthrough, 0)] {
        let got = r.counters.get(&format!("max_same_target_retries:{}", p.name()));
        if got < want {
            vcore::machinery_error(&format!("vacuity: {} policy never reached {want} same-target retries (max seen {got})", p.name()));
        }
    }
    if r.counters.get("nonidem_resend_after:unavailable") == 0 || r.counters.get("nonidem_resend_after:read-timeout") == 0 {
        vcore::machinery_error("vacuity: no non-idempotent re-send decision was ever seen");
    }
    r.set_rule(&format!(
        "E-BFS over histories (state = failure history on a fresh session; replayed, sessions do not clone). Base alphabet {base_len} symbols (every DbError variant x the field values any policy branches on; broken connection; stream-id exhaustion; 9 parse/serialisation errors), enlarged alphabet {} symbols (base + one symbol per variant of every non-database family: every BrokenConnectionErrorKind incl. nested frame-header / event variants and 7 write / 3 read io::ErrorKinds, every variant of the serialisation / body-extension / result-parse / error-parse / unexpected-response families; every further field combination of the DbError variants with payload: RateLimitReached x op_type x rejected_by_coordinator, body consistencies and required/alive/received extremes of Unavailable / ReadTimeout / WriteTimeout, ReadFailure / WriteFailure x write type x counts, AlreadyExists / FunctionFailure / Unprepared shapes, unknown codes incl. collisions with retryable codes) x idempotent flag x 11 initial consistencies x 3 policies. Sweep 'all': every history of length <= {l_all}; sweep 'reach': every history the loop can produce (continues only after a re-send decision) of length <= {l_reach}; the same two sweeps over the enlarged alphabet with lengths <= {le_all} / <= {le_reach} (only histories containing an enlarged-alphabet symbol are counted there). states = history nodes, transitions = decisions judged (one per node), traces_validated = nodes whose whole prefix was re-derived on a fresh session and compared with the parent's record. distinct_nontrivial = histories with at least one earlier re-send decision (session flags / lowered consistency in play).",
        syms.len()
    ));
    r.set_exhaustive(true);
    r.note("alphabet_size", json!(base_len));
    r.note("enlarged_alphabet_size", json!(syms.len()));
    r.note("enlarged_history_len_all", json!(le_all));
    r.note("enlarged_history_len_reachable", json!(le_reach));
    r.note("history_len_all", json!(l_all));
    r.note("history_len_reachable", json!(l_reach));
    r.sample(json!({"policy":"default","idempotent":true,"cl0":"QUORUM","history":["ReadTimeout(received=2,required=2,data_present=false)","WriteTimeout(BATCH_LOG,received=0)","Overloaded"],"decisions":["same","same","next"]}));
    r.sample(json!({"policy":"downgrading","idempotent":false,"cl0":"QUORUM","history":["Unavailable(alive=2)","Overloaded"],"decisions":["same+cl(TWO)","stop"]}));
    r.assume("classification of each failure symbol (proves-not-applied or not) is taken from the property text; consistency is threaded as the execution loop threads it (decided value, else unchanged)");
    r.finish();
}
