//! C19 leg A - metadata hand-off (`merge_channel`) at poll granularity, engine E-BFS.
//!
//! The real channel (hook H-MERGE: thin wrappers over the crate-private constructor and endpoints) is
//! driven by one thread through every history of
//!   producer: modify(push k) | modify(retract) | modify(no-op) | drop sender
//!   consumer: start recv | poll recv (woken or spurious) | cancel recv | try_recv | drop receiver
//! up to a depth bound. The `recv` future is polled by hand with a waker that only sets a flag.
//! Every step is compared with a reference (a slot, two liveness flags, the receive phase):
//!   * what `modify`'s closure sees in the slot, whether it runs, and what `modify` returns;
//!   * what each poll of `recv` returns (Pending / Some(batch) / None) and what `try_recv` returns;
//!   * after every step: if a `recv` is parked and a value is pending or the sender is gone, its waker
//!     has been called since it parked (no lost wake-up at poll granularity).
//! Taken together: every pushed k comes out exactly once, in push order, inside exactly one batch (or is
//! seen and removed by a retract), `None` only after the last value, `modify` fails iff the receiver is gone.
//!
//! Dedup key = reference state + a small model of the hidden `Notify` state (stored permit, waiter
//! notified or not). The hidden part is never used as an oracle, only to avoid merging two histories whose
//! real channels could still differ in a way a later step can expose.
use scylla::verif::merge as hook;
use serde_json::{Value, json};
use std::future::Future;
use std::pin::Pin;
use std::sync::Arc;
use std::sync::atomic::{AtomicBool, AtomicU64, Ordering};
use std::task::{Context, Poll, Wake, Waker};
use std::time::Duration;
use vcore::Report;
use vcore::bfs::{BfsOpts, Model, bfs};

type Batch = Vec<u32>;

#[derive(Clone, Copy, Debug, PartialEq, Eq)]
enum Ev {
    Push,
    Retract,
    Touch,
    DropSender,
    StartRecv,
    PollRecv,
    CancelRecv,
    TryRecv,
    DropReceiver,
}
const ALL: [Ev; 9] = [Ev::Push, Ev::Retract, Ev::Touch, Ev::DropSender, Ev::StartRecv, Ev::PollRecv, Ev::CancelRecv, Ev::TryRecv, Ev::DropReceiver];

impl Ev {
    fn name(self) -> &'static str {
        match self {
            Ev::Push => "modify(push)",
            Ev::Retract => "modify(retract)",
            Ev::Touch => "modify(no-op)",
            Ev::DropSender => "drop-sender",
            Ev::StartRecv => "start-recv",
            Ev::PollRecv => "poll-recv",
            Ev::CancelRecv => "cancel-recv",
            Ev::TryRecv => "try_recv",
            Ev::DropReceiver => "drop-receiver",
        }
    }
    fn parse(s: &str) -> Option<Ev> {
        ALL.iter().copied().find(|e| e.name() == s)
    }
}

struct Flag {
    woken: AtomicBool,
    wakes: AtomicU64,
}
impl Wake for Flag {
    fn wake(self: Arc<Self>) {
        self.wake_by_ref()
    }
    fn wake_by_ref(self: &Arc<Self>) {
        self.woken.store(true, Ordering::SeqCst);
        self.wakes.fetch_add(1, Ordering::SeqCst);
    }
}

#[derive(Clone, Copy, Debug, PartialEq, Eq, Hash)]
enum Phase {
    Idle,
    /// future created, never polled
    Created,
    /// last poll returned Pending
    Parked,
}

/// Model of the hidden waiter of the parked `Notified` (dedup refinement only).
#[derive(Clone, Copy, Debug, PartialEq, Eq, Hash)]
enum Waiter {
    None,
    Waiting,
    Notified,
}

/// Reference: what the channel must look like from outside.
#[derive(Clone, Debug)]
struct Ref {
    slot: Option<Batch>,
    sender_alive: bool,
    receiver_alive: bool,
    phase: Phase,
    next_k: u32,
    // hidden-state model (never an oracle)
    permit: bool,
    waiter: Waiter,
    // bookkeeping for the end-to-end statement and the statistics
    pushed: Vec<u32>,
    received: Vec<u32>,
    retracted: Vec<u32>,
    batches: u32,
    got_none: bool,
}

impl Ref {
    fn notify_one(&mut self) {
        match self.waiter {
            Waiter::Waiting => self.waiter = Waiter::Notified,
            _ => self.permit = true,
        }
    }
    /// the hidden effect of one poll of `recv` that ends Pending / Ready
    fn poll_hidden(&mut self, ready: bool) {
        // resume at the await if parked: a notified waiter completes and the loop re-arms
        if self.waiter == Waiter::Notified {
            self.waiter = Waiter::None;
        }
        if ready {
            // the loop's `enable()` consumed a stored permit if it had to create a new Notified
            if self.waiter == Waiter::None {
                self.permit = false;
            }
            self.waiter = Waiter::None;
        } else {
            // parked: whatever permit existed was burnt by an immediate wake-up and a re-arm
            if self.waiter == Waiter::None {
                self.permit = false;
            }
            self.waiter = Waiter::Waiting;
        }
    }
    fn cancel_hidden(&mut self) {
        if self.waiter == Waiter::Notified {
            self.permit = true; // a dropped notified waiter forwards its notification
        }
        self.waiter = Waiter::None;
    }
}

struct World {
    // field order = drop order: the future borrows the receiver
    fut: Option<Pin<Box<dyn Future<Output = Option<Batch>>>>>,
    rx: Option<Box<hook::MergeReceiver<Batch>>>,
    tx: Option<hook::MergeSender<Batch>>,
    flag: Arc<Flag>,
    waker: Waker,
    r: Ref,
    trace: Vec<String>,
    /// [max_pending, event codes...]: published to the watchdog before every driver call
    hist: Vec<u8>,
}

struct Chan {
    max_pending: usize,
    rebuilds: AtomicU64,
    polls_pending: AtomicU64,
    polls_some: AtomicU64,
    polls_none: AtomicU64,
    spurious_polls: AtomicU64,
    wake_required_checks: AtomicU64,
    modify_err: AtomicU64,
    cancels_after_wake: AtomicU64,
    merged_batches: AtomicU64,
}

impl Chan {
    fn new(max_pending: usize) -> Chan {
        Chan {
            max_pending,
            rebuilds: AtomicU64::new(0),
            polls_pending: AtomicU64::new(0),
            polls_some: AtomicU64::new(0),
            polls_none: AtomicU64::new(0),
            spurious_polls: AtomicU64::new(0),
            wake_required_checks: AtomicU64::new(0),
            modify_err: AtomicU64::new(0),
            cancels_after_wake: AtomicU64::new(0),
            merged_batches: AtomicU64::new(0),
        }
    }
}

fn modify_kind(w: &mut World, ev: Ev) -> Result<(), String> {
    let k = w.r.next_k;
    let mut ran = false;
    let mut before: Option<Batch> = None;
    let tx = w.tx.as_mut().expect("enabled only while the sender lives");
    let res = tx.modify(|slot| {
        ran = true;
        before = slot.clone();
        match ev {
            Ev::Push => slot.get_or_insert_default().push(k),
            Ev::Retract => *slot = None,
            _ => {}
        }
    });
    w.trace.push(format!("{} -> {:?}, closure {} saw {:?}", ev.name(), res, if ran { "ran," } else { "did not run," }, before));
    if !w.r.receiver_alive {
        if res.is_ok() {
            return Err(format!("modify returned Ok although the receiver was dropped (closure ran: {ran})"));
        }
        if ran {
            return Err("modify ran its closure although it reported the receiver gone".into());
        }
        return Ok(());
    }
    if res.is_err() {
        return Err("modify failed although the receiver is alive".into());
    }
    if !ran {
        return Err("modify returned Ok without running the closure".into());
    }
    if before != w.r.slot {
        return Err(format!("modify's closure saw {:?} in the slot, the pending value is {:?}", before, w.r.slot));
    }
    match ev {
        Ev::Push => {
            w.r.slot.get_or_insert_with(Vec::new).push(k);
            w.r.pushed.push(k);
            w.r.next_k += 1;
        }
        Ev::Retract => {
            if let Some(b) = w.r.slot.take() {
                w.r.retracted.extend(b);
            }
        }
        _ => {}
    }
    if w.r.slot.is_some() {
        w.r.notify_one();
    }
    Ok(())
}

impl Chan {
    fn apply_inner(&self, w: &mut World, ev: &Ev) -> Result<(), String> {
        match *ev {
            Ev::Push | Ev::Retract | Ev::Touch => {
                let alive_before = w.r.receiver_alive;
                let r = modify_kind(w, *ev);
                if !alive_before {
                    self.modify_err.fetch_add(1, Ordering::Relaxed);
                }
                r
            }
            Ev::DropSender => {
                w.tx = None; // runs Drop for Sender
                w.r.sender_alive = false;
                w.r.notify_one();
                w.trace.push("drop-sender".into());
                Ok(())
            }
            Ev::StartRecv => {
                let rx: *mut hook::MergeReceiver<Batch> = &mut **w.rx.as_mut().expect("receiver alive");
                // SAFETY: the receiver is boxed (stable address), the future is dropped before the box in
                // every path (cancel, completion, `World`'s field order) and `rx` is not touched while it lives.
                let fut = unsafe { &mut *rx }.recv();
                w.fut = Some(Box::pin(fut));
                w.r.phase = Phase::Created;
                w.flag.woken.store(false, Ordering::SeqCst);
                w.trace.push("start-recv".into());
                Ok(())
            }
            Ev::PollRecv => {
                let spurious = w.r.phase == Phase::Parked && !w.flag.woken.load(Ordering::SeqCst);
                if spurious {
                    self.spurious_polls.fetch_add(1, Ordering::Relaxed);
                }
                w.flag.woken.store(false, Ordering::SeqCst);
                let mut cx = Context::from_waker(&w.waker);
                let got = w.fut.as_mut().expect("in flight").as_mut().poll(&mut cx);
                w.trace.push(format!("poll-recv{} -> {:?}", if spurious { " (spurious)" } else { "" }, got));
                let want: Poll<Option<Batch>> = if w.r.slot.is_some() {
                    Poll::Ready(w.r.slot.clone())
                } else if !w.r.sender_alive {
                    Poll::Ready(None)
                } else {
                    Poll::Pending
                };
                if got != want {
                    return Err(match (&got, &want) {
                        (Poll::Pending, Poll::Ready(Some(b))) => format!("recv stayed pending although {b:?} is pending in the slot"),
                        (Poll::Pending, Poll::Ready(None)) => "recv stayed pending although the sender is gone and nothing is pending".into(),
                        (Poll::Ready(None), Poll::Ready(Some(b))) => format!("recv returned None (producer gone) while {b:?} was still pending: the last update is lost"),
                        (Poll::Ready(None), Poll::Pending) => "recv returned None although the sender is alive".into(),
                        (Poll::Ready(Some(g)), _) => format!("recv returned {g:?}; the pending value is {:?} (a value duplicated, reordered or invented)", w.r.slot),
                        _ => format!("recv returned {got:?}, expected {want:?}"),
                    });
                }
                match got {
                    Poll::Pending => {
                        self.polls_pending.fetch_add(1, Ordering::Relaxed);
                        w.r.poll_hidden(false);
                        w.r.phase = Phase::Parked;
                    }
                    Poll::Ready(v) => {
                        w.fut = None;
                        w.r.poll_hidden(true);
                        w.r.phase = Phase::Idle;
                        match v {
                            Some(b) => {
                                self.polls_some.fetch_add(1, Ordering::Relaxed);
                                if b.len() >= 2 {
                                    self.merged_batches.fetch_add(1, Ordering::Relaxed);
                                }
                                w.r.received.extend(b);
                                w.r.batches += 1;
                                w.r.slot = None;
                            }
                            None => {
                                self.polls_none.fetch_add(1, Ordering::Relaxed);
                                w.r.got_none = true;
                            }
                        }
                    }
                }
                Ok(())
            }
            Ev::CancelRecv => {
                if w.r.phase == Phase::Parked && w.flag.woken.load(Ordering::SeqCst) {
                    self.cancels_after_wake.fetch_add(1, Ordering::Relaxed);
                }
                w.fut = None; // drops the recv future (and its Notified)
                w.r.cancel_hidden();
                w.r.phase = Phase::Idle;
                w.flag.woken.store(false, Ordering::SeqCst);
                w.trace.push("cancel-recv".into());
                Ok(())
            }
            Ev::TryRecv => {
                let got = w.rx.as_mut().expect("receiver alive").try_recv();
                w.trace.push(format!("try_recv -> {got:?}"));
                if got != w.r.slot {
                    return Err(format!("try_recv returned {got:?}, the pending value is {:?}", w.r.slot));
                }
                if let Some(b) = got {
                    w.r.received.extend(b);
                    w.r.batches += 1;
                    w.r.slot = None;
                }
                Ok(())
            }
            Ev::DropReceiver => {
                w.fut = None;
                w.rx = None; // runs Drop for Receiver
                w.r.receiver_alive = false;
                w.trace.push("drop-receiver".into());
                Ok(())
            }
        }
    }
}

impl Model for Chan {
    type Event = Ev;
    type Obj = World;

    fn init(&self) -> World {
        self.rebuilds.fetch_add(1, Ordering::Relaxed);
        let (tx, rx) = hook::merge_channel::<Batch>();
        let flag = Arc::new(Flag { woken: AtomicBool::new(false), wakes: AtomicU64::new(0) });
        let waker = Waker::from(flag.clone());
        World {
            fut: None,
            rx: Some(Box::new(rx)),
            tx: Some(tx),
            flag,
            waker,
            r: Ref {
                slot: None,
                sender_alive: true,
                receiver_alive: true,
                phase: Phase::Idle,
                next_k: 1,
                permit: false,
                waiter: Waiter::None,
                pushed: vec![],
                received: vec![],
                retracted: vec![],
                batches: 0,
                got_none: false,
            },
            trace: Vec::new(),
            hist: vec![self.max_pending as u8],
        }
    }

    fn enabled(&self, w: &World) -> Vec<Ev> {
        let r = &w.r;
        let mut v = Vec::new();
        let in_flight = r.phase != Phase::Idle;
        if r.sender_alive {
            if r.slot.as_ref().map(|s| s.len()).unwrap_or(0) < self.max_pending {
                v.push(Ev::Push);
            }
            v.push(Ev::Retract);
            v.push(Ev::Touch);
            v.push(Ev::DropSender);
        }
        if r.receiver_alive {
            if in_flight {
                v.push(Ev::PollRecv);
                v.push(Ev::CancelRecv);
            } else {
                v.push(Ev::StartRecv);
                v.push(Ev::TryRecv);
                v.push(Ev::DropReceiver);
            }
        }
        v
    }

    fn apply(&self, w: &mut World, ev: &Ev) -> Result<(), String> {
        w.hist.push(ALL.iter().position(|e| e == ev).unwrap() as u8);
        h_drv::watchdog::enter(&w.hist);
        let r = self.apply_inner(w, ev);
        h_drv::watchdog::leave();
        r
    }
    fn check(&self, w: &World) -> Result<(), String> {
        let r = &w.r;
        // no lost wake-up at poll granularity
        if r.phase == Phase::Parked && (r.slot.is_some() || !r.sender_alive) {
            self.wake_required_checks.fetch_add(1, Ordering::Relaxed);
            if !w.flag.woken.load(Ordering::SeqCst) {
                return Err(format!(
                    "lost wake-up: a recv is parked, {} and its waker has not been called since it parked",
                    if r.slot.is_some() { format!("{:?} is pending", r.slot.as_ref().unwrap()) } else { "the sender is gone".into() }
                ));
            }
        }
        // conservation: every pushed k is pending, received (once, in order) or was removed by a retract
        let mut all: Vec<u32> = r.received.iter().chain(r.retracted.iter()).chain(r.slot.iter().flatten()).copied().collect();
        all.sort_unstable();
        if all != r.pushed {
            return Err(format!("conservation broken: pushed {:?}, received {:?}, retracted {:?}, pending {:?}", r.pushed, r.received, r.retracted, r.slot));
        }
        if r.received.windows(2).any(|w| w[0] >= w[1]) {
            return Err(format!("received out of order or twice: {:?}", r.received));
        }
        if r.got_none && r.sender_alive {
            return Err("recv reported the producer gone while it is alive".into());
        }
        Ok(())
    }

    fn canon(&self, w: &World) -> Vec<u8> {
        let r = &w.r;
        vec![
            r.slot.as_ref().map(|s| s.len() as u8).unwrap_or(0), // contents are always the last `len` pushes
            r.sender_alive as u8,
            r.receiver_alive as u8,
            r.phase as u8,
            (r.phase == Phase::Parked && w.flag.woken.load(Ordering::SeqCst)) as u8,
            r.permit as u8,
            r.waiter as u8,
        ]
    }
}

fn run_history(m: &Chan, hist: &[Ev]) -> (Result<(), String>, Vec<String>, usize) {
    let mut w = m.init();
    for (i, e) in hist.iter().enumerate() {
        if !m.enabled(&w).contains(e) {
            return (Err(format!("MACHINERY: event {} ({}) is not enabled at step {i}", e.name(), i)), w.trace.clone(), i);
        }
        if let Err(x) = m.apply(&mut w, e).and_then(|_| m.check(&w)) {
            let mut t = w.trace.clone();
            t.push(format!("waker calls so far: {}", w.flag.wakes.load(Ordering::SeqCst)));
            return (Err(x), t, i);
        }
    }
    (Ok(()), w.trace.clone(), hist.len())
}


/// Pass 2: every history up to `depth` events WITHOUT deduplication (no reliance on the canonical form).
/// Returns (histories run, first violations).
fn all_histories(m: &Chan, depth: usize, jobs: usize) -> (u64, Vec<(Vec<Ev>, String)>) {
    // split on the first SPLIT events, then recurse
    const SPLIT: usize = 5;
    let mut prefixes: Vec<Vec<Ev>> = vec![vec![]];
    for _ in 0..SPLIT.min(depth) {
        let mut next = Vec::new();
        for p in &prefixes {
            let (res, _, _) = run_history(m, p);
            if res.is_err() {
                continue;
            }
            let mut w = m.init();
            for e in p {
                let _ = m.apply(&mut w, e);
            }
            for e in m.enabled(&w) {
                let mut q = p.clone();
                q.push(e);
                next.push(q);
            }
        }
        prefixes = next;
    }
    let count = AtomicU64::new(0);
    let viols = std::sync::Mutex::new(Vec::new());
    fn rec(m: &Chan, hist: &mut Vec<Ev>, depth: usize, count: &AtomicU64, viols: &std::sync::Mutex<Vec<(Vec<Ev>, String)>>) {
        // run the history itself (oracle at every step), then extend it
        let mut w = m.init();
        for (i, e) in hist.iter().enumerate() {
            if let Err(x) = m.apply(&mut w, e).and_then(|_| m.check(&w)) {
                if i + 1 == hist.len() {
                    let mut v = viols.lock().unwrap();
                    if v.len() < 8 {
                        v.push((hist.clone(), x));
                    }
                }
                return;
            }
        }
        count.fetch_add(1, Ordering::Relaxed);
        if hist.len() >= depth {
            return;
        }
        for e in m.enabled(&w) {
            hist.push(e);
            rec(m, hist, depth, count, viols);
            hist.pop();
        }
    }
    // histories shorter than the split depth
    let short = AtomicU64::new(0);
    {
        let mut layer: Vec<Vec<Ev>> = vec![vec![]];
        for _ in 0..SPLIT.min(depth) {
            short.fetch_add(layer.len() as u64, Ordering::Relaxed);
            let mut next = Vec::new();
            for p in &layer {
                let mut w = m.init();
                let mut ok = true;
                for e in p {
                    ok &= m.apply(&mut w, e).and_then(|_| m.check(&w)).is_ok();
                }
                if ok {
                    for e in m.enabled(&w) {
                        let mut q = p.clone();
                        q.push(e);
                        next.push(q);
                    }
                }
            }
            layer = next;
        }
    }
    vcore::par::for_each(jobs, 1, prefixes.into_iter(), |mut p| rec(m, &mut p, depth, &count, &viols));
    let mut v = viols.into_inner().unwrap();
    v.sort_by(|a, b| (a.0.len(), format!("{:?}", a.0)).cmp(&(b.0.len(), format!("{:?}", b.0))));
    (count.load(Ordering::Relaxed) + short.load(Ordering::Relaxed), v)
}

/// Stable key: what kind of complaint it is (the history is in the case).
fn key_of(what: &str) -> &'static str {
    if what.starts_with("REPLAY-DIVERGENCE") {
        "machinery:replay-divergence"
    } else if what.contains("lost wake-up") {
        "lost-wakeup"
    } else if what.contains("last update is lost") {
        "none-before-last-value"
    } else if what.contains("stayed pending") {
        "recv-pending-with-value-or-sender-gone"
    } else if what.contains("returned None although the sender is alive") || what.contains("producer gone while it is alive") {
        "none-while-sender-alive"
    } else if what.contains("modify") {
        "modify-contract"
    } else if what.contains("conservation") || what.contains("out of order") || what.contains("duplicated") || what.contains("try_recv") {
        "value-lost-duplicated-or-reordered"
    } else {
        "other"
    }
}

/// watchdog bytes -> replayable case
fn describe_hang(bytes: &[u8]) -> Value {
    let names: Vec<&str> = bytes.iter().skip(1).filter_map(|c| ALL.get(*c as usize)).map(|e| e.name()).collect();
    json!({"events": names, "max_pending": bytes.first().copied().unwrap_or(3), "note": "the last event is the call that does not return"})
}

fn main() {
    // parent: runs the leg in a child and turns "a driver call did not return" into a violation
    h_drv::watchdog::guard("C19", "bfs", "model_checking", "E-BFS", "poll:does-not-return");
    h_drv::watchdog::start_monitor(Duration::from_secs(10), describe_hang);
    vcore::quiet_panics();
    let r = Report::new("C19", "bfs", "model_checking", "E-BFS");
    let max_pending = r.args.extra_value("--max-pending").and_then(|s| s.parse().ok()).unwrap_or(r.tier().pick(3usize, 6usize));
    if let Some(case) = r.replay_case() {
        let m = Chan::new(case["max_pending"].as_u64().unwrap_or(max_pending as u64) as usize);
        let hist: Vec<Ev> = case["events"].as_array().map(|a| a.iter().filter_map(|e| e.as_str().and_then(Ev::parse)).collect()).unwrap_or_default();
        println!("replaying {} events on a fresh merge_channel", hist.len());
        let (res, trace, _) = run_history(&m, &hist);
        for l in &trace {
            println!("  {l}");
        }
        if let Err(w) = res {
            if w.starts_with("MACHINERY") {
                vcore::machinery_error(&w);
            }
            r.violation(key_of(&w), &w, case.clone());
        }
        r.finish_replay();
    }
    let depth = r.args.extra_value("--depth").and_then(|s| s.parse().ok()).unwrap_or(r.tier().pick(10usize, 14usize));
    let m = Chan::new(max_pending);
    let opts = BfsOpts { max_depth: depth, max_states: 20_000_000, wall: Duration::from_secs(r.tier().pick(45, 900)), jobs: r.args.jobs, max_violations: 8 };
    let res = bfs(&m, &opts);
    // thorough: same search with a different thread count must count the same (guards against racy dedup)
    if r.tier().is_thorough() && res.violations.is_empty() {
        let m2 = Chan::new(max_pending);
        let res2 = bfs(&m2, &BfsOpts { jobs: (r.args.jobs / 3).max(1), ..opts });
        if (res2.states, res2.transitions) != (res.states, res.transitions) {
            vcore::machinery_error(&format!("BFS counts depend on the thread count: {}/{} vs {}/{}", res.states, res.transitions, res2.states, res2.transitions));
        }
        r.note("recount_with_other_thread_count", json!("identical"));
    }
    for v in &res.violations {
        let hist: Vec<&str> = v.history.iter().map(|e| e.name()).collect();
        if v.what.starts_with("REPLAY-DIVERGENCE") {
            vcore::machinery_error(&format!("{} after {:?}", v.what, hist));
        }
        let (_, trace, _) = run_history(&m, &v.history);
        r.violation(key_of(&v.what), &format!("{} - after {:?}", v.what, hist), json!({"events": hist, "max_pending": max_pending, "trace": trace}));
    }
    // pass 2: all histories up to a smaller depth without any deduplication
    let depth2 = r.args.extra_value("--depth-all").and_then(|s| s.parse().ok()).unwrap_or(r.tier().pick(9usize, 11usize));
    let m_all = Chan::new(max_pending);
    let (n_all, v_all) = if res.violations.is_empty() { all_histories(&m_all, depth2, r.args.jobs) } else { (0, vec![]) };
    for (h, what) in &v_all {
        let hist: Vec<&str> = h.iter().map(|e| e.name()).collect();
        let (_, trace, _) = run_history(&m, h);
        r.violation(key_of(what), &format!("{what} - after {hist:?}"), json!({"events": hist, "max_pending": max_pending, "trace": trace}));
    }
    r.eval(n_all);
    r.counters.add("all_histories_without_dedup", n_all);
    r.note("all_histories_depth", json!(depth2));
    for (k, v) in [("nodedup:polls_returning_pending", &m_all.polls_pending), ("nodedup:polls_returning_a_batch", &m_all.polls_some), ("nodedup:polls_returning_none", &m_all.polls_none), ("nodedup:spurious_polls", &m_all.spurious_polls), ("nodedup:states_where_a_wakeup_was_required", &m_all.wake_required_checks), ("nodedup:cancels_of_an_already_woken_recv", &m_all.cancels_after_wake)] {
        r.counters.add(k, v.load(Ordering::Relaxed));
    }
    use Ordering::Relaxed;
    r.eval(res.transitions);
    r.states.store(res.states, Relaxed);
    r.transitions.store(res.transitions, Relaxed);
    // every expansion rebuilt its parent history on a fresh channel and re-ran every step comparison
    r.traces_validated.store(m.rebuilds.load(Relaxed).saturating_sub(1), Relaxed);
    r.nontrivial(res.states);
    for (k, v) in [
        ("polls_returning_pending", &m.polls_pending),
        ("polls_returning_a_batch", &m.polls_some),
        ("polls_returning_none", &m.polls_none),
        ("spurious_polls", &m.spurious_polls),
        ("states_where_a_wakeup_was_required", &m.wake_required_checks),
        ("modify_on_dropped_receiver", &m.modify_err),
        ("cancels_of_an_already_woken_recv", &m.cancels_after_wake),
        ("batches_merged_from_2plus_pushes", &m.merged_batches),
    ] {
        r.counters.add(k, v.load(Relaxed));
    }
    r.note("max_depth_reached", json!(res.max_depth));
    r.note("depth_bound", json!(depth));
    r.note("fixpoint", json!(res.fixpoint));
    r.note("states_per_depth", json!(res.states_per_depth));
    r.note("max_pending_pushes", json!(max_pending));
    if let Some(c) = &res.capped {
        r.note("capped", json!(c));
    }
    for h in res.sample_histories.iter().take(2) {
        let (_, trace, _) = run_history(&m, h);
        r.sample(json!({"events": h.iter().map(|e| e.name()).collect::<Vec<_>>(), "trace": trace}));
    }
    if r.violation_count() == 0 && res.sample_histories.is_empty() {
        r.sample(Value::String("no history beyond the initial state".into()));
    }
    r.set_rule(
        "E-BFS over the real merge_channel at poll granularity. transitions = events applied to a channel rebuilt from its history; states = distinct \
         (pending-count, sender/receiver alive, recv phase, woken bit, modelled Notify permit/waiter) tuples; traces_validated_against_impl = histories \
         replayed from scratch on a fresh channel with every step comparison repeated. distinct_nontrivial = states (each is a distinct reachable \
         configuration of slot x endpoints x receive phase). Pushes are disabled while max_pending values are pending (keeps the space finite). \
         Second pass: every event history up to all_histories_depth WITHOUT deduplication (counter all_histories_without_dedup, added to evaluations only), \
         so the verdict up to that depth does not rest on the canonical form.",
    );
    // the depth bound is the stated bound; a state or wall cap is not
    r.set_exhaustive(res.fixpoint || res.capped.as_deref().map(|c| c.starts_with("depth cap")).unwrap_or(true));
    r.assume("one thread, poll granularity: races inside one poll/modify/drop are leg `thread` (E-THREAD)");
    r.assume("at most max_pending pushes merged into one pending value; the modelled Notify permit/waiter state refines the dedup key only and is never an oracle");
    r.finish();
}
